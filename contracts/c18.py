"""C18 sidecar contracts: values that reach the output are functions of order-free inputs.

Iteration over a set is modelled as *some* enumeration of its members (a fresh, unconstrained order per iteration - what the hash
seed decides in CPython), so a value computed by iterating a set can only be proved equal to an order-free specification if the
code fixes the order itself.  sorted() of a set is a function of the set.  The sort keys of the index pages are proved injective
on qualified names (a sort by an injective key has exactly one result, whatever order the input arrives in)."""
from pyvc.contracts import Loop
from contracts.shapes import register_shapes, register_system_shapes, register_reporting_shapes

D = 'pydoctor/driver.py'
M = 'pydoctor/model.py'
S = 'pydoctor/templatewriter/summary.py'
ASSUMPTIONS = [
    'sorted() is a function of the multiset of its elements (CPython: total order on str / on tuples of str)',
    'dict iteration follows insertion order (language guarantee): not a source of nondeterminism once the analysis order is fixed',
    'the order of directory listings, the fixed build time, the template writer, search index and inventory writer are not under '
    'contract: decided by the bounded native 2-run harness',
]


def register(reg):
    reg.pid = 'C18'
    register_shapes(reg)
    register_system_shapes(reg)
    register_reporting_shapes(reg)
    reg.shapes['System'].fields.update({'projectname': 'Str', 'rootobjects': 'Seq[Ref[Module]]'})
    reg.shapes['Options'].fields.update({'projectname': 'Opt[Str]'})
    reg.shape('SystemBuilder', {'system': 'Ref[System]'})
    reg.contract(M, 'System.root_names', returns='Set[Str]', pure=True, reads=['rootobjects', 'name'], raises={}, assumed=True,
                 source='{obj.name for obj in self.rootobjects}: the set of root names')
    reg.contract(M, 'System.msg', params={'section': 'Str', 'msg': 'Str', 'thresh': 'Int', 'topthresh': 'Int', 'nonl': 'Bool',
                                          'wantsnl': 'Bool', 'once': 'Bool'},
                 modifies=['violations', 'once_msgs', 'needsnl'], raises={}, assumed=True, source='verified under C16')
    reg.assume_ext('<SystemBuilderObj>.buildModules', params={'self': 'Obj[SystemBuilderObj]'}, raises=None,
                   modifies=['violations', 'once_msgs', 'needsnl'], source='the analysis (not under contract)')
    # the project name shown on every page: given, or a function of the *set* of root names
    reg.contract(D, 'get_system',
                 region={'name': 'project-name', 'start': 'if system.options.projectname is None:', 'end': 'builder.buildModules()'},
                 params={'options': 'Ref[Options]', 'system': 'Ref[System]', 'builder': 'Obj[SystemBuilderObj]'},
                 modifies=['violations', 'once_msgs', 'needsnl', 'projectname'], raises={},
                 ensures=["system.projectname == (system.options.projectname if system.options.projectname is not None "
                          "else '/'.join(sorted(system.root_names)))"])

    # the sort key of the index pages determines the order completely
    reg.contract(M, 'Documentable.fullName', returns='Str', pure=True, reads=['name', 'parent'], raises={}, assumed=True,
                 source='verified under C02')
    reg.contract(S, '_lckey', params={'x': 'Ref[Documentable]'}, returns='Tuple[Str,Str]', raises={}, pure=True, reads=['name', 'parent'],
                 ensures=['result[1] == x.fullName()'])
    # over the contract of _lckey: equal keys, equal qualified names (and qualified names identify objects: C02)
    reg.lemma('lckey_injective', vars={'a': 'Ref[Documentable]', 'b': 'Ref[Documentable]', 'ka': 'Tuple[Str,Str]', 'kb': 'Tuple[Str,Str]'},
              hyps=['ka[1] == a.fullName()', 'kb[1] == b.fullName()', 'ka == kb'], goal=['a.fullName() == b.fullName()'])

    # the address of a page does not depend on the order in which the set of root names is enumerated
    reg.shapes['Documentable'].fields.update({'documentation_location': 'Enum[DocLocation]'})
    reg.contract(M, 'Documentable.page_object', returns='Ref[Documentable]', pure=True, reads=['documentation_location', 'parent'],
                 raises={}, assumed=True, source='verified under C11')
    reg.assume_ext('urllib.parse.quote', params={'s': 'Str'}, returns='Str', pure=True, raises={}, source='CPython urllib')
    ONLY = "forall('Str', lambda k: (k in self.system.root_names) == (k == self.page_object.fullName()))"
    FRAG = "('' if self.page_object == self else '#' + quote(self.name))"
    reg.contract(M, 'Documentable.url', returns='Str', raises={},
                 ensures=[f"implies({ONLY}, result == 'index.html' + {FRAG})",
                          f"implies(not {ONLY}, result == quote(self.page_object.fullName()) + '.html' + {FRAG})"])
