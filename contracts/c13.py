"""C13 sidecar contracts: privacy precedence (model.py) and pattern translation (qnmatch.py)."""
from pyvc.contracts import Loop
from contracts.shapes import register_shapes, register_system_shapes

M = 'pydoctor/model.py'
Q = 'pydoctor/qnmatch.py'

ASSUMPTIONS = [
    "Python's re gives each fragment emitted by qnmatch.translate its documented meaning; bounded-validated each run "
    "against an independent matcher for the documented grammar (all patterns/names up to a length bound)",
    'class bodies containing - or \\\\ are outside the documented grammar',
    'R5 of C02: equal qualified names have equal short names (ghost name_of_full), used on cache hits',
]

CACHE_OK = ("forall('Str', lambda k: implies(k in self._privacyClassCache, self._privacyClassCache[k] == "
            "priv_spec(k, name_of_full(k), kindnone_of_full(k), self.options.privacy)))")
SYS_CACHE_OK = CACHE_OK.replace('self.', 'self.system.')


def register(reg):
    reg.pid = 'C13'
    register_shapes(reg)
    register_system_shapes(reg)
    reg.contract(M, 'Documentable.fullName', returns='Str', pure=True, reads=['name', 'parent'], raises={},
                 assumed=True, source='verified under C02')
    reg.contract(Q, 'qnmatch', params={'name': 'Str', 'pattern': 'Str'}, returns='Bool', pure=True, raises={},
                 ensures=['result == qn_spec(name, pattern)'], assumed=True,
                 source='translate is verified below; re.compile(...).match is external: bounded-validated natively')

    reg.contract(M, 'System.privacyClass',
        params={'ob': 'Ref[Documentable]'}, returns='Enum[PrivacyClass]',
        lets={'full': 'ob.fullName()', 'rules': 'self.options.privacy'},
        requires=['name_of_full(ob.fullName()) == ob.name',
                  'kindnone_of_full(ob.fullName()) == (ob.kind is None)',
                  CACHE_OK],
        ensures=['result == priv_spec(full, ob.name, ob.kind is None, rules)', CACHE_OK],
        modifies=['_privacyClassCache'], raises={},
        loops={
            0: Loop(index='i0', invariant=[
                'not _found_exact_match',
                'privacy == default_privacy(ob.name)',
                'last_exact(rules, full, len(rules)) == last_exact(rules, full, len(rules) - i0)']),
            1: Loop(index='i1', invariant=[
                'last_exact(rules, full, len(rules)) < 0',
                'privacy == default_privacy(ob.name)',
                'last_glob(rules, full, len(rules)) == last_glob(rules, full, len(rules) - i1)']),
        })

    PRE = ['name_of_full(self.fullName()) == self.name', 'kindnone_of_full(self.fullName()) == (self.kind is None)',
           SYS_CACHE_OK]
    POST = ['result == priv_spec(self.fullName(), self.name, self.kind is None, self.system.options.privacy)',
            SYS_CACHE_OK]
    reg.contract(M, 'Documentable.privacyClass', returns='Enum[PrivacyClass]', requires=PRE, ensures=POST,
                 modifies=['_privacyClassCache'], raises={})
    # every override inherits the documented postcondition (behavioural subtyping)
    reg.contract(M, 'Module.privacyClass', returns='Enum[PrivacyClass]', requires=PRE, ensures=POST,
                 modifies=['_privacyClassCache'], raises={})

    GHOST_ALL = ("forall('Ref[Documentable]', lambda o: name_of_full(o.fullName()) == o.name and "
                 "kindnone_of_full(o.fullName()) == (o.kind is None))")
    SAME_SYSTEM = "forall('Ref[Documentable]', lambda o: implies(o.parent is not None, o.parent.system == o.system))"
    reg.contract(M, 'Documentable.isVisible', returns='Bool', requires=[GHOST_ALL, SAME_SYSTEM, SYS_CACHE_OK],
                 ensures=['result == visible_spec(self)', SYS_CACHE_OK], modifies=['_privacyClassCache'], raises={})
    reg.contract(M, 'Documentable.isPrivate', returns='Bool', requires=PRE,
                 ensures=['result == (priv_spec(self.fullName(), self.name, self.kind is None, '
                          'self.system.options.privacy) != PrivacyClass.PUBLIC)', SYS_CACHE_OK],
                 modifies=['_privacyClassCache'], raises={})

    # ---- pattern translation -------------------------------------------------------------------------------------
    reg.assume_ext('re.escape', params={'c': 'Str'}, returns='Str', pure=True, raises={},
                   ensures=['result == re_escape(c)'], source='CPython re.escape (pure)')
    reg.contract(Q, 'translate', params={'pat': 'Str'}, returns='Str', raises={},
        opaque=['tok_end', 'tok_text'],
        ensures=["result == '(?s:' + tr(pat, 0) + ')\\\\Z'"],
        loops={
            0: Loop(invariant=['n == len(pat)', '0 <= i', 'i <= n', 'res + tr(pat, i) == tr(pat, 0)'],
                    hints=['unfold(tok_end(pat, entry(i)))', 'unfold(tok_text(pat, entry(i)))'],
                    asserts=['i == tok_end(pat, entry(i))', 'res == entry(res) + tok_text(pat, entry(i))',
                             'i > entry(i)', 'i <= n'],
                    focus=True, decreases='n - i'),
            1: Loop(invariant=['cls_start(pat, i) <= j', 'j <= n',
                               'cls_end(pat, j) == cls_end(pat, cls_start(pat, i))'],
                    decreases='n - j'),
        })
