"""C19 sidecar contracts: pydoctor/visitor.py (walk with extensions and pruning)."""
from pyvc.contracts import Loop
from contracts.shapes import register_shapes, register_visitor_shapes, register_builder_shapes

V = 'pydoctor/visitor.py'
EV = 'Seq[Tuple[Int,Opt[Obj[Ext]],Obj[Node]]]'
ASSUMPTIONS = [
    "the main visitor's visit_X(n) records its own event and either returns or raises the pruning exception act(n) "
    "(act is an arbitrary function of the node: any assignment of pruning actions); its depart_X records its event and returns",
    'extension visit/depart methods record their own event and return (extensions that prune or raise are out of scope)',
    'get_children is pure and the visited structure is a tree',
]


def register(reg):
    reg.pid = 'C19'
    register_shapes(reg)
    register_visitor_shapes(reg)
    register_builder_shapes(reg)
    reg.ghosts['trace'] = EV

    # ---- assumed behaviour of the user-supplied methods (worst case over pruning actions) -----------------
    APP0 = 'trace == old(trace) + [(0, none_of("Obj[Ext]"), ob)]'
    reg.contract(V, '_BaseVisitor.visit', params={'ob': 'Obj[Node]'}, modifies=['trace'], assumed=True,
                 ensures=[APP0, 'act(ob) == 0'],
                 raises={'SkipChildren': APP0 + ' and act(ob) == 1', 'SkipSiblings': APP0 + ' and act(ob) == 2',
                         'SkipNode': APP0 + ' and act(ob) == 3', 'SkipDeparture': APP0 + ' and act(ob) == 4'},
                 source='dispatch to the main visitor visit_<Class> method (user code)')
    reg.contract(V, '_BaseVisitor.depart', params={'ob': 'Obj[Node]'}, modifies=['trace'], assumed=True, raises={},
                 ensures=['trace == old(trace) + [(2, none_of("Obj[Ext]"), ob)]'],
                 source='dispatch to the main visitor depart_<Class> method (user code)')
    reg.assume_ext('<Ext>.visit', params={'e': 'Obj[Ext]', 'ob': 'Obj[Node]'}, modifies=['trace'], raises={},
                   ensures=['trace == old(trace) + [(1, e, ob)]'], source='VisitorExt docs')
    reg.assume_ext('<Ext>.depart', params={'e': 'Obj[Ext]', 'ob': 'Obj[Node]'}, modifies=['trace'], raises={},
                   ensures=['trace == old(trace) + [(3, e, ob)]'], source='VisitorExt docs')
    reg.contract(V, 'Visitor.get_children', params={'ob': 'Obj[Node]'}, returns='Seq[Obj[Node]]', pure=True,
                 raises={}, result_is='children_of(ob)', assumed=True, source='overridden by concrete visitors; pure')

    # ---- extension lists --------------------------------------------------------------------------------------
    for nm, when in (('before_visit', 'BEFORE'), ('after_visit', 'AFTER'), ('inner_visit', 'INNER'),
                     ('outter_visit', 'OUTTER')):
        reg.contract(V, f'ExtList.{nm}', returns='Seq[Obj[Ext]]', raises={}, inline=True)

    # ---- visit / depart: documented relative order of main visitor and extensions -------------------------
    PR = 'trace == old(trace) + open_spec(self, ob)'
    reg.contract(V, 'Visitor.visit', params={'ob': 'Obj[Node]'}, modifies=['trace'],
                 ensures=[PR, 'act(ob) == 0'],
                 raises={'SkipChildren': PR + ' and act(ob) == 1', 'SkipSiblings': PR + ' and act(ob) == 2',
                         'SkipNode': PR + ' and act(ob) == 3', 'SkipDeparture': PR + ' and act(ob) == 4'},
                 lets={'A': 'self.extensions.before_visit + self.extensions.outter_visit',
                       'B': 'self.extensions.after_visit + self.extensions.inner_visit'},
                 loops={0: Loop(index='i', modifies=['trace'], invariant=['trace == old(trace) + ev_seq(1, A, ob, i)']),
                        1: Loop(index='j', modifies=['trace'],
                                invariant=['trace == old(trace) + ev_seq(1, A, ob, len(A)) + [(0, none_of("Obj[Ext]"), ob)] + ev_seq(1, B, ob, j)'])})
    reg.contract(V, 'Visitor.depart', params={'ob': 'Obj[Node]', 'extensions_only': 'Bool'}, modifies=['trace'], raises={},
                 ensures=['trace == old(trace) + close_spec(self, ob, not extensions_only)'],
                 lets={'A': 'self.extensions.before_visit + self.extensions.inner_visit',
                       'B': 'self.extensions.after_visit + self.extensions.outter_visit'},
                 loops={0: Loop(index='i', modifies=['trace'], invariant=['trace == old(trace) + ev_seq(3, A, ob, i)']),
                        1: Loop(index='j', modifies=['trace'],
                                invariant=['trace == old(trace) + ev_seq(3, A, ob, len(A)) + '
                                           '([(2, none_of("Obj[Ext]"), ob)] if not extensions_only else ev_seq(3, A, ob, 0)) + ev_seq(3, B, ob, j)'])})

    # ---- the walks: balanced, ordered, whatever the main visitor prunes ----------------------------------
    W = 'trace == old(trace) + w_spec(self, ob)'
    reg.contract(V, 'Visitor.walkabout', params={'ob': 'Obj[Node]', '_root': 'Bool'}, modifies=['trace'],
                 # every node is entered once and left once by every extension; SkipSiblings reaches the parent's
                 # loop only after the node was completed, and never escapes from the root of the walk
                 ensures=[W, 'act(ob) != 2 or _root'],
                 raises={'SkipSiblings': W + ' and act(ob) == 2 and not _root'},
                 lets={'cs': 'children_of(ob)'}, opaque=['w_spec', 'open_spec', 'close_spec'], exit_hints=['unfold(w_spec(self, ob))'],
                 loops={0: Loop(index='k', modifies=['trace'], invariant=[
                     'trace + rest_spec(self, cs, k) == old(trace) + open_spec(self, ob) + rest_spec(self, cs, 0)'])})
    WK = 'trace == old(trace) + walk_spec(self, ob)'
    reg.contract(V, 'Visitor.walk', params={'ob': 'Obj[Node]', '_root': 'Bool'}, modifies=['trace'],
                 ensures=[WK, 'act(ob) != 2 or _root'],
                 raises={'SkipSiblings': WK + ' and act(ob) == 2 and not _root'},
                 lets={'cs': 'children_of(ob)'}, opaque=['walk_spec', 'open_spec'], exit_hints=['unfold(walk_spec(self, ob))'],
                 loops={0: Loop(index='k', modifies=['trace'], invariant=[
                     'trace + rest_walk(self, cs, k) == old(trace) + open_spec(self, ob) + rest_walk(self, cs, 0)'])})

    # ---- scope stack of the AST builder: push/pop are inverse, the stack is a stack ------------------------
    A = 'pydoctor/astbuilder.py'
    reg.contract('pydoctor/model.py', 'Documentable.setLineNumber', params={'lineno': 'Int'}, raises={}, assumed=True,
                 modifies=['linenumber', 'sourceHref'], source='touches only the line/source fields of the object')
    MODOK = ('(isinstance(obj, Module) and self.currentMod is None) or '
             '(not isinstance(obj, Module) and ((self.currentMod is not None and (obj.parentMod is None or obj.parentMod == self.currentMod)) '
             'or (self.currentMod is None and obj.parentMod is None)))')
    reg.contract(A, 'ASTBuilder.push', params={'obj': 'Ref[Documentable]', 'lineno': 'Int'},
                 requires=[MODOK], raises={},
                 modifies=['_stack', 'current', 'currentMod', 'parentMod', 'linenumber', 'sourceHref'],
                 ensures=['self._stack == old(self._stack) + [old(self.current)]', 'self.current == obj',
                          'self.currentMod == (obj if isinstance(obj, Module) else old(self.currentMod))'])
    reg.contract(A, 'ASTBuilder.pop', params={'obj': 'Ref[Documentable]'},
                 requires=['self.current == obj', 'len(self._stack) > 0'], raises={},
                 modifies=['_stack', 'current', 'currentMod'],
                 ensures=['self._stack == old(self._stack)[:len(old(self._stack)) - 1]',
                          'self.current == old(self._stack)[len(old(self._stack)) - 1]'])
    # push followed by pop of the same object restores the scope: a lemma over the two contracts
    reg.lemma('push_pop_inverse',
              vars={'s0': 'Seq[RefN[Documentable]]', 'c0': 'RefN[Documentable]', 's1': 'Seq[RefN[Documentable]]',
                    's2': 'Seq[RefN[Documentable]]', 'c2': 'RefN[Documentable]'},
              hyps=['s1 == s0 + [c0]', 's2 == s1[:len(s1) - 1]', 'c2 == s1[len(s1) - 1]'],
              goal=['s2 == s0', 'c2 == c0'])
