"""C05 sidecar contracts: pydoctor/mro.py (C3 merge) and the MRO-driven lookups of model.py."""
from pyvc.contracts import Loop
from contracts.shapes import register_shapes, register_mro_shapes

R = 'pydoctor/mro.py'
ASSUMPTIONS = [
    'elements of linearisations are truthy (classes / non-empty names): _merge tests `if head`',
    'getbases is a pure function',
]


def register(reg):
    reg.pid = 'C05'
    register_shapes(reg)
    register_mro_shapes(reg)
    reg.contract(R, 'Dependency.head', returns='Opt[Obj[Cls]]', raises={}, pure=True, reads=['__items__'],
                 ensures=['(result is None) == (len(items(self)) == 0)',
                          'implies(len(items(self)) > 0, result == items(self)[0])'])
    reg.contract(R, 'Dependency.tail', returns='Seq[Obj[Cls]]', raises={}, pure=True, reads=['__items__'],
                 ensures=['result == items(self)[1:]'])

    DISTINCT = ('all(all(implies(a != b, self._lists[a] != self._lists[b]) for b in range(len(self._lists))) '
                'for a in range(len(self._lists)))')
    reg.contract(R, 'DependencyList.__contains__', params={'item': 'Obj[Cls]'}, returns='Bool', raises={},
                 pure=True, reads=['__items__', '_lists'],
                 ensures=['result == any(item in items(l)[1:] for l in self._lists)'])
    reg.contract(R, 'DependencyList.heads', returns='Seq[Opt[Obj[Cls]]]', raises={}, pure=True,
                 reads=['__items__', '_lists'],
                 ensures=['len(result) == len(self._lists)',
                          'all((result[i] is None) == (len(items(self._lists[i])) == 0) for i in range(len(self._lists)))',
                          'all(implies(len(items(self._lists[i])) > 0, result[i] == items(self._lists[i])[0]) '
                          'for i in range(len(self._lists)))'])
    reg.contract(R, 'DependencyList.tails', returns='Ref[DependencyList]', raises={}, pure=True,
                 ensures=['result == self'])
    reg.contract(R, 'DependencyList.exhausted', returns='Bool', raises={}, pure=True, reads=['__items__', '_lists'],
                 ensures=['result == all(len(items(l)) == 0 for l in self._lists)'])
    reg.contract(R, 'DependencyList.remove', params={'item': 'Opt[Obj[Cls]]'}, raises={}, modifies=['__items__'],
                 requires=[DISTINCT],
                 ensures=['all(items(self._lists[m]) == (old(items(self._lists[m]))[1:] '
                          'if len(old(items(self._lists[m]))) > 0 and old(items(self._lists[m]))[0] == item '
                          'else old(items(self._lists[m]))) for m in range(len(self._lists)))'],
                 loops={0: Loop(index='k', modifies=['__items__'], invariant=[
                     'all(items(self._lists[m]) == (old(items(self._lists[m]))[1:] '
                     'if len(old(items(self._lists[m]))) > 0 and old(items(self._lists[m]))[0] == item '
                     'else old(items(self._lists[m]))) for m in range(k))',
                     'all(items(self._lists[m]) == old(items(self._lists[m])) for m in range(k, len(self._lists)))'])})

    # ---- characterisations of the opaque abstractions (definitions, not assumptions about pydoctor) ------------
    reg.axiom('view_def', 'len(view(d)) == len(d._lists) and '
              'all(view(d)[i] == items(d._lists[i]) for i in range(len(d._lists)))',
              {'d': 'Ref[DependencyList]'}, source='definition of the abstract view')
    reg.axiom('drop_def', 'len(drop(ls, h)) == len(ls) and '
              'all(drop(ls, h)[i] == (ls[i][1:] if len(ls[i]) > 0 and ls[i][0] == h else ls[i]) for i in range(len(ls)))',
              {'ls': 'Seq[Seq[Obj[Cls]]]', 'h': 'Obj[Cls]'}, source='definition of drop (C3: remove the chosen head)')
    reg.axiom('seq_ext', 'implies(len(a) == len(b) and all(a[i] == b[i] for i in range(len(a))), a == b)',
              {'a': 'Seq[Seq[Obj[Cls]]]', 'b': 'Seq[Seq[Obj[Cls]]]'}, source='extensionality of sequences (theorem)')

    DL = DISTINCT.replace('self.', 'linearizations.')
    reg.contract(R, 'DependencyList.__init__', params={'lists': 'Seq[Seq[Obj[Cls]]]'}, raises={},
                 modifies=['_lists', '__items__'],
                 ensures=['len(self._lists) == len(lists)',
                          'all(items(self._lists[i]) == lists[i] for i in range(len(lists)))', DISTINCT])
    reg.contract(R, '_merge', params={'lists': 'Seq[Seq[Obj[Cls]]]'}, returns='Seq[Obj[Cls]]',
                 locals={'result': 'Seq[Obj[Cls]]'},
                 # "when Python rejects the hierarchy as inconsistent": ValueError exactly when C3 has no solution
                 raises={'ValueError': 'c3_merge(lists) is None'},
                 ensures=['c3_merge(lists) is not None', 'result == c3_merge(lists)'],
                 loops={
                     0: Loop(modifies=['__items__'],
                             init_hints=[('view_def', {'d': 'linearizations'}),
                                         ('seq_ext', {'a': 'view(linearizations)', 'b': 'lists'})],
                             invariant=[DL, 'pre(result, c3_merge(view(linearizations))) == c3_merge(lists)'],
                             focus=True,
                             asserts=[DL,
                                      'first_good(entry(view(linearizations)), 0) == j',
                                      'j < len(entry(view(linearizations)))',
                                      'head == entry(linearizations.heads)[j]',
                                      'head is not None',
                                      'entry(len(items(linearizations._lists[j]))) > 0',
                                      'entry(view(linearizations))[j] == entry(items(linearizations._lists[j]))',
                                      'len(entry(view(linearizations))[j]) > 0',
                                      'head == entry(view(linearizations))[j][0]',
                                      'not all_empty(entry(view(linearizations)))',
                                      'view(linearizations) == drop(entry(view(linearizations)), entry(view(linearizations))[j][0])',
                                      'result == entry(result) + [entry(view(linearizations))[j][0]]',
                                      'implies(c3_merge(view(linearizations)) is None, c3_merge(entry(view(linearizations))) is None)',
                                      'implies(c3_merge(view(linearizations)) is not None, c3_merge(entry(view(linearizations))) == '
                                      '[entry(view(linearizations))[j][0]] + c3_merge(view(linearizations)))'],
                             hints=[('view_def', {'d': 'linearizations'}),
                                    ('view_def', {'d': 'linearizations'}, 'entry'),
                                    'unfold(all_empty(entry(view(linearizations))))',
                                    'unfold(good(entry(view(linearizations)), j))',
                                    ('drop_def', {'ls': 'entry(view(linearizations))', 'h': 'head'}),
                                    ('seq_ext', {'a': 'view(linearizations)',
                                                 'b': 'drop(entry(view(linearizations)), head)'})]),
                     1: Loop(index='j', invariant=[
                             'first_good(view(linearizations), 0) == first_good(view(linearizations), j)'],
                             hints=[('view_def', {'d': 'linearizations'}),
                                    'unfold(good(view(linearizations), entry(j)))']),
                 },
                 opaque=['good', 'all_empty'],
                 exit_hints=[('view_def', {'d': 'linearizations'}), 'unfold(all_empty(view(linearizations)))'])

    # ---- mro(cls, getbases) ------------------------------------------------------------------------------------
    C3_LS = ('len(ls) == len(bases_of(c)) + 1 and ls[len(bases_of(c))] == bases_of(c) and '
             'all(implies(c3(bases_of(c)[i]) is not None, ls[i] == c3(bases_of(c)[i])) for i in range(len(bases_of(c))))')
    reg.axiom('c3_def',
              'implies(len(bases_of(c)) == 0, c3(c) == [c]) and '
              'implies(len(bases_of(c)) > 0 and any(c3(b) is None for b in bases_of(c)), c3(c) is None) and '
              'implies(len(bases_of(c)) > 0 and not any(c3(b) is None for b in bases_of(c)) and ' + C3_LS + ', '
              'c3(c) == pre([c], c3_merge(ls)))',
              {'c': 'Obj[Cls]', 'ls': 'Seq[Seq[Obj[Cls]]]'},
              source='C3 definition: L[C] = C + merge(L[B1], ..., L[Bn], [B1..Bn]); ls stands for that argument list')
    reg.assume_ext('<param>CallableGetbases', params={'fn': 'Obj[CallableGetbases]', 'c': 'Obj[Cls]'},
                   returns='Seq[Obj[Cls]]', pure=True, raises={}, result_is='bases_of(c)',
                   source='getbases is a pure function (callers pass Class.baseobjects-based lambdas)')
    reg.contract(R, 'mro', params={'cls': 'Obj[Cls]', 'getbases': 'Obj[CallableGetbases]'},
                 returns='Seq[Obj[Cls]]', pure=True,
                 raises={'ValueError': 'c3(cls) is None'},
                 ensures=['c3(cls) is not None', 'result == c3(cls)'],
                 opaque=['good', 'all_empty'],
                 exit_asserts=["len(arg_of('_merge', 'lists')) == len(bases_of(cls)) + 1",
                               "arg_of('_merge', 'lists')[len(bases_of(cls))] == bases_of(cls)",
                               "all(implies(c3(bases_of(cls)[i]) is not None, arg_of('_merge', 'lists')[i] == "
                               "c3(bases_of(cls)[i])) for i in range(len(bases_of(cls))))",
                               "implies(len(arg_of('_merge', 'lists')) > 0, not any(c3(b) is None for b in bases_of(cls)))"],
                 exit_hints=[('c3_def', {'c': 'cls', 'ls': "arg_of('_merge', 'lists')"}, 'optional'),
                             ('c3_def', {'c': 'cls', 'ls': '[bases_of(cls)]'})])

    # ---- lookups along the linearisation (model.py) -----------------------------------------------------------------
    # "a member not defined in a class is found in the first class of its linearisation that defines it; documentation of an
    #  overriding member without docstring comes from the nearest class (in that order) that has one"
    MD = 'pydoctor/model.py'
    reg.shape('Documentable', {'name': 'Str', 'parent': 'RefN[Documentable]', 'contents': 'Map[Str,Ref[Documentable]]', 'docstring': 'Opt[Str]'})
    reg.shape('CanContainImportsDocumentable', {}, bases=('Documentable',))
    reg.shape('Class', {'_mro': 'Opt[Seq[Ref[Class]]]'}, bases=('CanContainImportsDocumentable',))
    reg.shape('Inheritable', {}, bases=('Documentable',))
    reg.contract(MD, 'Class.mro', params={'include_external': 'Bool', 'include_self': 'Bool'}, returns='Seq[Ref[Class]]', raises={}, pure=True,
                 reads=['_mro'], assumed=True,
                 ensures=['implies(not include_external and include_self, result == lin(self))',
                          'implies(not include_external and not include_self, result == lin(self)[1:])'],
                 source='the documented classes of the stored linearisation (computed by compute_mro through mro.mro, verified above); '
                        'without the class itself on request')
    reg.contract(MD, 'Class.find', params={'name': 'Str'}, returns='RefN[Documentable]', raises={},
                 ensures=[
                     # the first class of the linearisation that defines the name wins
                     'implies(result is None, all(name not in lin(self)[k].contents for k in range(len(lin(self)))))',
                     'implies(result is not None, any(name in lin(self)[k].contents and lin(self)[k].contents[name] == result and '
                     'all(name not in lin(self)[j].contents for j in range(k)) for k in range(len(lin(self)))))'],
                 loops={0: Loop(index='i', invariant=['all(name not in lin(self)[j].contents for j in range(i))'])})
    reg.contract(MD, 'Inheritable.docsources', returns='Seq[Ref[Documentable]]', raises={},
                 requires=['self.parent is not None'],
                 ensures=[
                     # the object itself first, then the same-named members of the classes after the parent in its linearisation, in that order
                     'len(result) >= 1 and result[0] == self',
                     'implies(not isinstance(self.parent, Class), len(result) == 1)',
                     'implies(isinstance(self.parent, Class), result == [self] + picks(lin(as_class(self.parent))[1:], self.name))'],
                 loops={0: Loop(index='i', invariant=[
                     # remaining-work form
                     'yielded + picks(lin(as_class(self.parent))[1:][i:], self.name) == [self] + picks(lin(as_class(self.parent))[1:], self.name)'])})
    # the documentation of an object: the first of its sources that has a docstring at all decides (an empty one means undocumented)
    reg.contract(MD, 'Documentable.docsources', returns='Seq[Ref[Documentable]]', raises={}, pure=True,
                 reads=['name', 'parent', 'contents', '_mro'], assumed=True,
                 source='dynamic dispatch: Documentable yields itself, Inheritable is verified above, zope mix-ins append interface members')
    DS = 'obj.docsources()'
    reg.contract(MD, 'get_docstring', params={'obj': 'Ref[Documentable]'}, returns='Tuple[Opt[Str],RefN[Documentable]]', raises={},
                 ensures=[f'implies(result[1] is None, result[0] is None and all({DS}[k].docstring is None for k in range(len({DS}))))',
                          f'implies(result[1] is not None, any({DS}[k] == result[1] and {DS}[k].docstring is not None and '
                          f'all({DS}[j].docstring is None for j in range(k)) and '
                          f"result[0] == ({DS}[k].docstring if {DS}[k].docstring != '' else None) for k in range(len({DS}))))"],
                 loops={0: Loop(index='i', invariant=[f'all({DS}[j].docstring is None for j in range(i))'])})
    # the 'overrides' note on a class page: the first definition along the linearisation after the class itself
    PGI = 'pydoctor/templatewriter/pages/__init__.py'
    reg.contract('pydoctor/linker.py', 'taglink', params={'o': 'Ref[Documentable]', 'page_url': 'Str', 'label': 'Opt[Obj[Flat]]'},
                 returns='Obj[Tag]', raises={}, assumed=True, source='verified under C11/C12')
    reg.contract(MD, 'Documentable.page_object', returns='Ref[Documentable]', pure=True, raises={}, assumed=True, reads=['parent'], source='C11')
    reg.contract(MD, 'Documentable.url', returns='Str', pure=True, raises={}, assumed=True, reads=['name', 'parent'], source='C11')
    reg.assume_ext('twisted.web.template.tags.div', params={'class_': 'Str'}, returns='Obj[Tag]', raises={}, source='stan')
    reg.assume_ext('twisted.web.template.tags.code', params={'child': 'Any'}, returns='Obj[Tag]', raises={}, source='stan')
    reg.assume_ext('<Tag>.__call__', params={'self': 'Obj[Tag]', 'a': 'Any', 'b': 'Any'}, returns='Obj[Tag]', raises={}, source='stan')
    REST = 'lin(cls)[1:]'
    reg.contract(PGI, 'get_override_info', params={'cls': 'Ref[Class]', 'member_name': 'Str', 'page_url': 'Opt[Str]'},
                 region={'name': 'overrides', 'start': 'page_url = page_url or cls.page_object.url', 'end': 'ocs = sorted('},
                 returns='Seq[Obj[Tag]]', raises={},
                 ensures=[f"called('taglink') == any(member_name in {REST}[k].contents for k in range(len({REST})))",
                          f"implies(called('taglink'), any(arg_of('taglink', 'o') == {REST}[k].contents[member_name] and member_name in {REST}[k].contents and "
                          f"all(member_name not in {REST}[j].contents for j in range(k)) for k in range(len({REST}))))"],
                 locals={'yielded': 'Seq[Obj[Tag]]'},
                 loops={0: Loop(index='i', invariant=[f"all(member_name not in {REST}[j].contents for j in range(i))", "not called('taglink')"])})
