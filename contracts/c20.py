"""C20 sidecar contracts: pydoctor/_configparser.py (quoting detection/evaluation, unknown-key filter)."""
from pyvc.contracts import Loop
from contracts.shapes import register_shapes

CP = 'pydoctor/_configparser.py'
ASSUMPTIONS = [
    "configargparse's merging of file values with argv (the actual 'same effective configuration' and 'command line overrides "
    "the file') is external: exercised by the bounded native harness only",
    'toml.load, configparser and ast.literal_eval are external; literal_eval(repr(s)) == s (CPython)',
]

# the text CPython's repr() produces for a str (language reference: string literals; repr uses single quotes unless the
# text contains a single quote and no double quote; \\, the quote, \n \r \t and \xNN/\uNNNN/\UNNNNNNNN escapes)
ESC = r"\\(?:\\|'|\"|n|r|t|x[0-9a-f]{2}|u[0-9a-f]{4}|U[0-9a-f]{8})"
REPR_SQ = r"'(?:[^'\\\n\r\t]|" + ESC + r")*'"
REPR_DQ = r'"(?:[^"\\\n\r\t]|' + ESC + r')*"'


def _after_facts(reg):
    rx = reg.global_values.get(f'{CP}:_QUOTED_STR_REGEX')
    tx = reg.global_values.get(f'{CP}:_TRIPLE_QUOTED_STR_REGEX')
    if not (isinstance(rx, dict) and isinstance(tx, dict)):
        return
    P, PF, T, TF = rx['__regex__'], rx['flags'], tx['__regex__'], tx['flags']
    QUOTED = f'(re_pmatch({P!r}, {PF}, text) or (triple and re_pmatch({T!r}, {TF}, text)))'
    reg.contract(CP, 'is_quoted', params={'text': 'Str', 'triple': 'Bool'}, returns='Bool', raises={}, pure=True,
                 ensures=[f'result == {QUOTED}'])
    reg.contract(CP, 'unquote_str', params={'text': 'Str', 'triple': 'Bool'}, returns='Str',
                 # quoted text is evaluated as a Python literal (or rejected with ValueError), anything else is left alone
                 raises={'ValueError': QUOTED},
                 ensures=[f'implies({QUOTED}, result == literal_str(text))', f'implies(not {QUOTED}, result == text)'])
    # "what is written quoted is read back": every text repr() can produce is detected as quoted
    # (a regular-language inclusion decided by the solver; with literal_eval(repr(s)) == s this is the round trip)
    reg.lemma('repr_is_quoted', vars={'q': 'Str'},
              hyps=[f're_match({REPR_SQ!r}, q) or re_match({REPR_DQ!r}, q)'],
              goal=[f're_pmatch({P!r}, {PF}, q)'])


def register(reg):
    reg.pid = 'C20'
    register_shapes(reg)
    reg.fact_globals = [(CP, '_QUOTED_STR_REGEX'), (CP, '_TRIPLE_QUOTED_STR_REGEX')]
    reg.after_facts = _after_facts
    reg.ghosts['warned'] = 'Int'
    reg.assume_ext('ast.literal_eval', params={'text': 'Str'}, returns='Str', pure=True,
                   raises={'any:Exception': 'True'}, ensures=['result == literal_str(text)'],
                   source='CPython ast.literal_eval on a string literal')

    # ---- unknown keys are warned about, neither aborting nor applied (region of ValidatorParser.parse) ----------
    reg.assume_ext('warnings.warn', params={'message': 'Str'}, modifies=['warned'], raises={},
                   ensures=['warned == old(warned) + 1'], source='warnings.warn with the default filters does not raise')
    ITEMS = 'list(data.items())'
    reg.contract(CP, 'ValidatorParser.parse',
                 region={'name': 'filter', 'start': 'new_data = {}', 'end': '\x00end-of-function'},
                 params={'data': 'Map[Str,Obj[Val]]', 'known_config_keys': 'Map[Str,Obj[Action]]'},
                 returns='Map[Str,Obj[Val]]', locals={'new_data': 'Map[Str,Obj[Val]]'},
                 lets={'items': ITEMS},
                 # a dict has each key once
                 requires=['all(all(implies(a != b, items[a][0] != items[b][0]) for b in range(len(items))) for a in range(len(items)))'],
                 raises={}, modifies=['warned'],
                 ensures=[
                     # known keys keep their value
                     'all(implies(items[i][0] in known_config_keys, items[i][0] in result and result[items[i][0]] == items[i][1]) '
                     'for i in range(len(items)))',
                     # nothing else is applied: every key of the result is a known key of the file
                     "forall('Str', lambda k: implies(k in result, k in known_config_keys and any(it[0] == k for it in items)))",
                     # one warning per unknown key
                     'warned == old(warned) + n_unknown(items, known_config_keys, len(items))'],
                 loops={0: Loop(index='i', modifies=['warned'], invariant=[
                     'all(implies(items[j][0] in known_config_keys, items[j][0] in new_data and new_data[items[j][0]] == items[j][1]) '
                     'for j in range(i))',
                     "forall('Str', lambda k: implies(k in new_data, k in known_config_keys and any(items[j][0] == k for j in range(i))))",
                     'warned == old(warned) + n_unknown(items, known_config_keys, i)'])})
