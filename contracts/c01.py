"""C01 sidecar contracts: the mechanisms that keep a run going.

  * parse errors are contained per file (ASTBuilder.parseFile / parseString),
  * the values of the metadata variables are evaluated without letting an exception out (parseAll, parseDocformat),
  * the module scheduler is a state machine whose assertions cannot fail and which drains the list of unprocessed modules
    (System.process / processModule / getProcessedModule), under an explicit invariant tying the list to the module states,
  * signatures are rendered behind a catch-all (pages.format_signature).
The analyses themselves (the AST visitor, extensions, post-processing, the writer) are outside: bounded native harness."""
from pyvc.contracts import Loop
from contracts.shapes import (register_shapes, register_system_shapes, register_reporting_shapes, register_builder_shapes,
                              register_scheduler_shapes)

B = 'pydoctor/astbuilder.py'
M = 'pydoctor/model.py'
ASSUMPTIONS = [
    'ast.parse raises only SyntaxError, ValueError (incl. UnicodeDecodeError) or RecursionError on any byte string; reading a file that '
    'the directory listing just returned does not raise',
    'ast.literal_eval raises only ValueError or TypeError (bounded-validated natively on odd literals)',
    'ASTBuilder.processModuleAST (the AST visitor and everything it calls: not under contract) may process other modules through '
    'getProcessedModule but preserves the scheduler invariant, leaves the processing stack as it found it and raises nothing '
    '(the last part is what the bounded native harness probes)',
    'a module is added to the system before System.process() starts (addModule/addPackage are not under contract)',
]
UNP = 'ProcessingState.UNPROCESSED'
# the scheduler invariant: the list holds exactly the registered modules still waiting, each once
INV = ['all(m.state == ' + UNP + ' for m in self.unprocessed_modules)',
       'all(all(implies(a != b, self.unprocessed_modules[a] != self.unprocessed_modules[b]) for b in range(len(self.unprocessed_modules))) '
       'for a in range(len(self.unprocessed_modules)))',
       "forall('Str', lambda k: implies(k in self.allobjects and isinstance(self.allobjects[k], Module) and "
       "cast_module(self.allobjects[k]).state == " + UNP + ", cast_module(self.allobjects[k]) in self.unprocessed_modules))"]


def register(reg):
    reg.pid = 'C01'
    register_shapes(reg)
    register_system_shapes(reg)
    register_reporting_shapes(reg)
    register_builder_shapes(reg)
    register_scheduler_shapes(reg)

    # ---- per-file containment of parse errors -------------------------------------------------------------------
    reg.contract(B, 'parseFile', params={'path': 'Obj[Path]'}, returns='Ref[AstModule]', assumed=True,
                 raises={'any:SyntaxError': 'True', 'any:ValueError': 'True', 'RecursionError': 'True'},
                 source='open().read() + ast.parse: the documented failures of the parser')
    reg.assume_ext('pydoctor.astbuilder._parse', params={'source': 'Str'}, returns='Ref[AstModule]',
                   raises={'any:SyntaxError': 'True', 'any:ValueError': 'True', 'RecursionError': 'True'}, source='ast.parse')
    reg.assume_ext('_parse', params={'source': 'Str'}, returns='Ref[AstModule]',
                   raises={'any:SyntaxError': 'True', 'any:ValueError': 'True', 'RecursionError': 'True'}, source='ast.parse')
    reg.contract(M, 'Documentable.report', params={'descr': 'Str', 'section': 'Str', 'lineno_offset': 'Int', 'thresh': 'Int'},
                 modifies=['violations', 'once_msgs', 'needsnl'], raises={}, assumed=True,
                 source='verified under C16: the message names the file (description) and the line')
    reg.contract(B, 'ASTBuilder.parseFile', params={'path': 'Obj[Path]', 'ctx': 'Ref[Module]'}, returns='RefN[AstModule]',
                 modifies=['violations', 'once_msgs', 'needsnl', 'ast_cache'], raises={},
                 ensures=[
                     # a file that cannot be parsed is reported against its module, remembered, and does not stop anything
                     "implies(called('Documentable.report'), result is None and arg_of('Documentable.report', 'self') == ctx)",
                     'path in self.ast_cache and self.ast_cache[path] == result',
                     'implies(path in old(self.ast_cache), result == old(self.ast_cache)[path])'])
    reg.contract(B, 'ASTBuilder.parseString', params={'py_string': 'Str', 'ctx': 'Ref[Module]'}, returns='RefN[AstModule]',
                 modifies=['violations', 'once_msgs', 'needsnl'], raises={},
                 ensures=["(result is None) == called('Documentable.report')",
                          "implies(called('Documentable.report'), arg_of('Documentable.report', 'self') == ctx)"])

    # ---- metadata variables ---------------------------------------------------------------------------------------
    # ast.literal_eval: the value if it is a string literal (the only case the callers use), None for any other literal
    reg.assume_ext('ast.literal_eval', params={'node': 'RefN[expr]'}, returns='Opt[Str]',
                   raises={'any:ValueError': 'True', 'TypeError': 'True'}, pure=True,
                   source='CPython: ValueError for non-literals, TypeError for unhashable keys/elements; modelled as Some(text) for a '
                          'string literal and None for every other literal')
    reg.assume_ext('<type>.@__name__', params={'self': 'Obj[type]'}, returns='Str', raises={}, source='class name')
    reg.contract(B, 'parseAll', params={'node': 'Ref[Assign]', 'mod': 'Ref[Module]'}, raises={},
                 modifies=['violations', 'once_msgs', 'needsnl', 'all'], locals={'names': 'Seq[Str]'},
                 ensures=['implies(isinstance(node.value, (List, Tuple)), mod.all is not None)',
                          'implies(not isinstance(node.value, (List, Tuple)), mod.all == old(mod.all))'],
                 loops={0: Loop(index='i', modifies=['violations', 'once_msgs', 'needsnl'], invariant=['len(names) <= i'])})
    reg.contract(B, 'parseDocformat', params={'node': 'Ref[Assign]', 'mod': 'Ref[Module]'}, raises={},
                 modifies=['violations', 'once_msgs', 'needsnl', '_docformat'],
                 ensures=['implies(mod._docformat != old(mod._docformat), mod._docformat is not None)'])
    reg.contract(M, 'Module.docformat.setter', params={'value': 'Str'}, raises={}, modifies=['_docformat'], assumed=True,
                 ensures=['self._docformat == value'], source='property setter: self._docformat = value')

    # ---- the module scheduler ---------------------------------------------------------------------------------------
    reg.assume_ext('<param>CallableBuilderFactory', params={'fn': 'Obj[CallableBuilderFactory]', 'system': 'Ref[System]'},
                   returns='Ref[ASTBuilder]', raises={}, ensures=['result.system == system'],
                   source='System.defaultBuilder = ASTBuilder: constructs a builder')
    SCHED = ['state', 'unprocessed_modules', 'processing_modules', 'violations', 'once_msgs', 'needsnl', 'ast_cache', 'allobjects',
             'contents', 'name', 'parent', 'parentMod', 'all', '_docformat']
    SHRINK = 'all(m in old(self.unprocessed_modules) for m in self.unprocessed_modules)'
    reg.contract(B, 'ASTBuilder.processModuleAST', params={'mod_ast': 'Ref[AstModule]', 'mod': 'Ref[Module]'}, assumed=True,
                 requires=['mod.state == ProcessingState.PROCESSING'] + [c.replace('self.', 'self.system.') for c in INV],
                 modifies=SCHED, raises={},
                 ensures=[c.replace('self.', 'self.system.') for c in INV] + [
                     'mod.state == ProcessingState.PROCESSING',
                     'self.system.processing_modules == old(self.system.processing_modules)',
                     'all(m in old(self.system.unprocessed_modules) for m in self.system.unprocessed_modules)',
                     'len(self.system.unprocessed_modules) <= len(old(self.system.unprocessed_modules))',
                     "forall('Ref[Module]', lambda m: implies(old(m.state) != " + UNP + ", m.state != " + UNP + "))"],
                 source='the AST visitor (not under contract): see ASSUMPTIONS')
    reg.contract(M, 'System._introspectThing', params={'thing': 'Obj[PyMod]', 'parent': 'Ref[Module]', 'parentMod': 'Ref[Module]'},
                 assumed=True, raises={}, modifies=['contents', 'allobjects'],
                 ensures=["forall('Str', lambda k: implies(k in self.allobjects and isinstance(self.allobjects[k], Module), "
                          "k in old(self.allobjects) and old(self.allobjects)[k] == self.allobjects[k]))"],
                 source='introspection of a C extension module: registers functions and classes, never modules')
    reg.contract(M, 'System.msg', params={'section': 'Str', 'msg': 'Str', 'thresh': 'Int', 'topthresh': 'Int', 'nonl': 'Bool',
                                          'wantsnl': 'Bool', 'once': 'Bool'},
                 modifies=['violations', 'once_msgs', 'needsnl'], raises={}, assumed=True, source='verified under C16')
    reg.contract(M, 'System.progress', params={'section': 'Str', 'i': 'Int', 'n': 'Opt[Int]', 'msg': 'Str'},
                 modifies=['needsnl'], raises={}, assumed=True, source='prints a progress line')
    reg.contract(M, 'Documentable.fullName', returns='Str', pure=True, reads=['name', 'parent'], raises={}, assumed=True,
                 source='verified under C02')
    STEP = ['mod not in self.unprocessed_modules', 'mod.state != ' + UNP, SHRINK,
            'len(self.unprocessed_modules) < len(old(self.unprocessed_modules))',
            'self.processing_modules == old(self.processing_modules)',
            "forall('Ref[Module]', lambda m: implies(old(m.state) != " + UNP + ", m.state != " + UNP + "))"]
    reg.contract(M, 'System.processModule', params={'mod': 'Ref[Module]'},
                 requires=INV + ['mod.state == ' + UNP, 'mod in self.unprocessed_modules',
                                 'mod.source_path is not None or mod._py_string is not None'],
                 modifies=SCHED, raises={},                    # none of its four assertions can fail
                 ensures=INV + STEP)
    reg.contract(M, 'System.getProcessedModule', params={'modname': 'Str'}, returns='RefN[Module]',
                 requires=INV + ["forall('Ref[Module]', lambda m: m.source_path is not None or m._py_string is not None)"],
                 modifies=SCHED, raises={},
                 ensures=INV + [SHRINK, 'len(self.unprocessed_modules) <= len(old(self.unprocessed_modules))', 'implies(result is not None, result.state != ' + UNP + ')',
                                'self.processing_modules == old(self.processing_modules)',
                                "forall('Ref[Module]', lambda m: implies(old(m.state) != " + UNP + ", m.state != " + UNP + "))"])
    reg.contract(M, 'System.postProcess', raises=None, assumed=True, modifies=SCHED, ensures=['self.unprocessed_modules == old(self.unprocessed_modules)'],
                 source='post-processing (not under contract)')
    reg.contract(M, 'System.process',
                 requires=INV + ["forall('Ref[Module]', lambda m: m.source_path is not None or m._py_string is not None)"],
                 modifies=SCHED, raises=None,
                 # every module that was waiting has been analysed when process() returns
                 ensures=['len(self.unprocessed_modules) == 0'],
                 loops={0: Loop(invariant=INV, decreases='len(self.unprocessed_modules)', modifies=SCHED)})

    # ---- signatures are rendered behind a catch-all ------------------------------------------------------------------
    P = 'pydoctor/templatewriter/pages/__init__.py'
    E = 'pydoctor/epydoc2stan.py'
    # typing device for the Union[Function, FunctionOverload] parameter: a common abstract base with the one shared field
    reg.shape('FunctionOrOverload', {'signature': 'Opt[Obj[Sig]]'})
    reg.shapes['Function'].bases = tuple(reg.shapes['Function'].bases) + ('FunctionOrOverload',)
    reg.shape('FunctionOverload', {'primary': 'Ref[Function]'}, bases=('FunctionOrOverload',))
    reg.shape('ParseError', {'_linenum': 'Opt[Int]', '_descr': 'Str', '_fatal': 'Bool'})
    reg.contract('pydoctor/stanutils.py', 'html2stan', params={'html': 'Str'}, returns='Obj[Tag]', assumed=True,
                 raises={'any:Exception': 'True'}, source='XML parsing of the signature text: may fail on anything')
    reg.contract(E, 'get_to_stan_error', params={'e': 'Exc'}, returns='Ref[ParseError]', raises={}, assumed=True,
                 modifies=['_descr', '_linenum', '_fatal'], source='verified under C08')
    reg.contract(E, 'reportErrors', params={'obj': 'Ref[Documentable]', 'errs': 'Seq[Ref[ParseError]]', 'section': 'Str'},
                 modifies=['violations', 'once_msgs', 'needsnl', 'parse_errors'], raises={}, assumed=True, source='verified under C16')
    reg.assume_ext('<Sig>.__str__', params={'self': 'Obj[Sig]'}, returns='Str', raises={'any:Exception': 'True'},
                   source='inspect.Signature.__str__ calling the value formatters (colorizer): may fail on anything')
    reg.contract(P, 'format_signature', params={'func': 'Ref[FunctionOrOverload]'},
                 modifies=['violations', 'once_msgs', 'needsnl', 'parse_errors', '_descr', '_linenum', '_fatal'], raises={},
                 ensures=["implies(called('reportErrors'), arg_of('reportErrors', 'section') == 'signature' and "
                          "arg_of('reportErrors', 'obj') == (cast_overload(func).primary if isinstance(func, FunctionOverload) else cast_function(func)))"])

    # ---- extension: a deprecation decorator that cannot be understood is a message, not the end of the run ------------
    DEP = 'pydoctor/extensions/deprecate.py'
    reg.shape('Call', {'func': 'Ref[expr]'}, bases=('expr',))
    reg.shapes['Documentable'].fields.update({'extra_info': 'Seq[Ref[ParsedDocstring]]'})
    reg.contract('pydoctor/astutils.py', 'node2fullname', params={'expr': 'RefN[expr]', 'ctx': 'Ref[Documentable]'}, returns='Opt[Str]', raises={}, assumed=True,
                 source='astutils.node2fullname: dotted name of an expression expanded in a scope, None for anything else; total')
    reg.contract(DEP, 'deprecatedToUsefulText', params={'ctx': 'Ref[Documentable]', 'name': 'Str', 'deprecated': 'Ref[Call]'},
                 returns='Tuple[Str,Str]', raises={'any:Exception': 'True'}, assumed=True,
                 source='evaluates the decorator arguments (incremental.Version, signature binding): may fail with anything')
    reg.contract(E, 'parse_docstring',
                 params={'obj': 'Ref[Documentable]', 'doc': 'Str', 'source': 'Ref[Documentable]', 'markup': 'Opt[Str]', 'section': 'Str'},
                 returns='Ref[ParsedDocstring]', raises={}, assumed=True,
                 modifies=['violations', 'once_msgs', 'needsnl', 'parse_errors', '_descr', '_linenum', '_fatal'], source='verified under C08')
    reg.contract(DEP, 'getDeprecated', params={'self': 'Ref[Documentable]', 'decorators': 'Seq[Ref[expr]]'}, raises={},
                 modifies=['violations', 'once_msgs', 'needsnl', 'parse_errors', '_descr', '_linenum', '_fatal', 'extra_info'],
                 ensures=["implies(called('deprecatedToUsefulText') and not called('parse_docstring'), called('Documentable.report'))",
                          'len(self.extra_info) >= len(old(self.extra_info))'],
                 loops={0: Loop(index='i', modifies=['violations', 'once_msgs', 'needsnl', 'parse_errors', '_descr', '_linenum', '_fatal', 'extra_info'],
                                invariant=['len(self.extra_info) >= len(old(self.extra_info))'])})
