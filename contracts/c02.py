"""C02 sidecar contracts: the single registration point, qualified names, and the re-export move (registry keys of the moved
object, its alias, and - as a frame condition over the whole registry - nothing outside the moved names is touched)."""
from pyvc.contracts import Loop
from contracts.shapes import (register_shapes, register_system_shapes, register_reporting_shapes, register_registry_shapes)

M = 'pydoctor/model.py'
ASSUMPTIONS = [
    'the parent relation is well-founded (ghost rank `depth`): established by construction - objects are created with an existing parent',
    "extension mix-ins (zopeinterface._handle_implemented: 'implemented by' is the inverse of 'implements') are not under contract",
    'post-processing (compute_mro second pass, subclasses inverse) and url uniqueness are decided by the bounded native harness',
    'displaced duplicates inside a duplicate keep a stale key: known finding KF-C02-nested-duplicate-key',
]
ACYCLIC = "forall('Ref[Documentable]', lambda x: depth(x) >= 0 and implies(x.parent is not None, depth(x.parent) < depth(x)))"


def register(reg):
    reg.pid = 'C02'
    register_shapes(reg)
    register_system_shapes(reg)
    register_reporting_shapes(reg)
    register_registry_shapes(reg)

    reg.contract(M, 'Documentable.fullName', returns='Str', pure=True, reads=['name', 'parent'], requires=[ACYCLIC], raises={},
                 result_is='fn_spec(self)', ensures=['result == fn_spec(self)'])

    # ---- the single registration point -----------------------------------------------------------------------
    reg.contract(M, 'System.handleDuplicate', params={'obj': 'Ref[Documentable]'}, raises={}, assumed=True,
                 modifies=['allobjects', 'name', 'violations', 'once_msgs', 'needsnl'],
                 ensures=['self.allobjects[fn_spec(obj)] == obj', 'obj.name == old(obj.name)', 'obj.parent == old(obj.parent)',
                          ACYCLIC],
                 source='renames the older object and re-registers its subtree (bounded native harness; nested case: known finding)')
    reg.contract(M, 'System.addObject', params={'obj': 'Ref[Documentable]'},
                 requires=[ACYCLIC],
                 modifies=['contents', 'rootobjects', 'allobjects', 'name', 'violations', 'once_msgs', 'needsnl'],
                 raises={'ValueError': 'obj.parent is None and not isinstance(obj, Module)'},
                 ensures=[
                     # registered under exactly its qualified name, and the entry of that name in its parent
                     'self.allobjects[fn_spec(obj)] == obj',
                     'implies(obj.parent is not None, obj.parent.contents[obj.name] == obj)',
                     # a top-level object is a module and becomes a root
                     'implies(obj.parent is None, isinstance(obj, Module) and self.rootobjects == old(self.rootobjects) + [obj])',
                     'implies(obj.parent is not None, self.rootobjects == old(self.rootobjects))'])

    # ---- kinds fit places ------------------------------------------------------------------------------------------
    reg.contract(M, 'Documentable.setup', raises={}, modifies=['contents', '_linker'], assumed=True,
                 ensures=['self.kind == old(self.kind)', 'self.parent == old(self.parent)'], source='initialises contents/_linker')
    reg.contract(M, 'Function.setup', raises={}, modifies=['contents', '_linker', 'kind', 'signature', 'overloads'],
                 ensures=['implies(isinstance(self.parent, Class), self.kind == DocumentableKind.METHOD)'])

    # ---- the re-export move --------------------------------------------------------------------------------------
    reg.ghosts['moving'] = 'RefN[Documentable]'          # the object being moved and the parent it is moved out of:
    reg.ghosts['moving_from'] = 'RefN[Documentable]'     # the one (parent, child) pair that is inconsistent during the move
    KIDS = "forall('Ref[Documentable]', lambda x: all(c.parent == x for c in x.contents.values()))"   # R3 (one direction)
    KIDS2 = ("forall('Ref[Documentable]', lambda x: all(c.parent == x or (c == moving and x == moving_from) "
             "for c in x.contents.values()))")
    SAMESYS = "forall('Ref[Documentable]', lambda x: implies(x.parent is not None, x.parent.system == x.system))"
    BELOW = 'implies(moving_from is not None, depth(self) > depth(moving_from))'
    FRAME = ("forall('Str', lambda k: implies(not k.startswith(fn_spec(self)), "
             "self.system.allobjects.get(k) == old(self.system.allobjects).get(k)))")
    reg.contract(M, 'Documentable._handle_reparenting_pre', requires=[ACYCLIC, KIDS2, SAMESYS, BELOW],
                 modifies=['allobjects'], raises={'KeyError': 'True'},
                 ensures=['fn_spec(self) not in self.system.allobjects', FRAME],
                 loops={0: Loop(index='i', modifies=['allobjects'],
                                invariant=['fn_spec(self) not in self.system.allobjects', FRAME])})
    # System._remove (first half of duplicate handling): the same shape of recursion as _handle_reparenting_pre
    FRAME_O = ("forall('Str', lambda k: implies(not k.startswith(fn_spec(o)), "
               "self.allobjects.get(k) == old(self.allobjects).get(k)))")
    reg.contract(M, 'System._remove', params={'o': 'Ref[Documentable]'}, requires=[ACYCLIC, KIDS],
                 modifies=['allobjects'], raises={'KeyError': 'True'},
                 ensures=['fn_spec(o) not in self.allobjects', FRAME_O],
                 loops={0: Loop(index='i', modifies=['allobjects'], invariant=['fn_spec(o) not in self.allobjects', FRAME_O])})
    reg.contract(M, 'Documentable._handle_reparenting_post', requires=[ACYCLIC, KIDS2, SAMESYS, BELOW],
                 modifies=['allobjects'], raises={},
                 ensures=['self.system.allobjects[fn_spec(self)] == self', FRAME],
                 loops={0: Loop(index='i', modifies=['allobjects'],
                                invariant=['self.system.allobjects[fn_spec(self)] == self', FRAME])})
    OLDFN = 'old(fn_spec(self))'
    reg.contract(M, 'Documentable.reparent', params={'new_parent': 'Ref[Module]', 'new_name': 'Str'},
                 requires=[ACYCLIC, KIDS, SAMESYS, 'new_parent.system == self.system',
                           # the move does not create a cycle: the new parent is not inside the moved subtree
                           'depth(new_parent) < depth(self)', 'self.parent is not None',
                           'moving == self', 'moving_from == self.parent'],
                 modifies=['allobjects', 'parent', 'parentMod', 'name', 'contents', '_localNameToFullName_map',
                           'violations', 'once_msgs', 'needsnl'],
                 raises={'KeyError': 'True', 'AssertionError': 'not isinstance(old(self.parent), CanContainImportsDocumentable)'},
                 ensures=[
                     # documented once, under the re-exporting module and the exported name ...
                     'self.parent == new_parent', 'self.name == new_name',
                     "fn_spec(self) == fn_spec(new_parent) + '.' + new_name",
                     'self.system.allobjects[fn_spec(self)] == self',
                     'new_parent.contents[new_name] == self',
                     # ... no longer under the module that defines it ...
                     'implies(old(self.parent) != new_parent or old(self.name) != new_name, '
                     'old(self.name) not in old(self.parent).contents)',
                     # ... and an alias is left at the old location
                     'old(self.parent)._localNameToFullName_map[old(self.name)] == fn_spec(self)'])
