"""C04 sidecar contracts: what import statements bind, and how a scope answers for a name.

From the language reference: `from <dots><name> import a as b` binds b, in the scope the statement stands in, to attribute a of
the module <dots><name>; each leading dot after the first goes one package up from the package of the importing module (the
module itself when it is a package's __init__); `import a.b.c` binds the top-level name a, `import a.b.c as x` binds x to a.b.c.
Lookup (`_localNameToFullName`): what the scope itself defines, then what it imported, then - for a class - the enclosing scope;
a module answers with the bare name for what it does not know."""
from pyvc.contracts import Loop
from contracts.shapes import register_shapes, register_system_shapes, register_reporting_shapes, register_builder_shapes

A = 'pydoctor/astbuilder.py'
M = 'pydoctor/model.py'
SPECS = ['c04', 'c02']
ASSUMPTIONS = [
    'analysing another module (getProcessedModule) only adds bindings to alias tables of other scopes, it never rebinds a name '
    '(re-exports leave aliases for objects moved away; generated projects bind each name once per scope)',
    'the parser guarantees: an absolute from-import has a module name, every import statement has at least one alias, level >= 0',
    'the walk of dotted names (Documentable.expandName with more than one part), star imports and assignment aliases are '
    'decided by the bounded native harness against CPython only; System.find_object and Documentable.resolveName are verified over '
    'an assumed expandName (the same contracts as under C07)',
]


def register(reg):
    reg.pid = 'C04'
    register_shapes(reg)
    register_system_shapes(reg)
    register_reporting_shapes(reg)
    register_builder_shapes(reg)
    reg.shape('ModuleVistor', {'builder': 'Ref[ASTBuilder]', 'system': 'Ref[System]'})
    reg.shapes['CanContainImportsDocumentable'].fields.update({'_localNameToFullName_map': 'Map[Str,Str]'})
    reg.shapes['Module'].fields.update({'all': 'Opt[Set[Str]]'})
    reg.shape('AST', {'lineno': 'Int'})
    reg.shape('alias', {'name': 'Str', 'asname': 'Opt[Str]'}, bases=('AST',))
    reg.shape('ImportFrom', {'module': 'Opt[Str]', 'level': 'Int', 'names': 'Seq[Ref[alias]]'}, bases=('AST',))
    reg.shape('Import', {'names': 'Seq[Ref[alias]]'}, bases=('AST',))

    reg.contract(M, 'Documentable.fullName', returns='Str', pure=True, reads=['name', 'parent'], raises={}, assumed=True,
                 source='verified under C02')
    reg.contract(M, 'Documentable.module', returns='Ref[Module]', pure=True, reads=['parentMod'], raises={}, assumed=True,
                 ensures=['result == self.parentMod'], source='property: return self.parentMod (set for every documented object, C02)')
    reg.contract(M, 'Documentable.report', params={'descr': 'Str', 'section': 'Str', 'lineno_offset': 'Int', 'thresh': 'Int'},
                 modifies=['violations', 'once_msgs', 'needsnl'], raises={}, assumed=True, source='verified under C16')

    # ---- relative import arithmetic -------------------------------------------------------------------------------
    CTX = 'self.builder.current'
    UP = f'anc({CTX}.parentMod, node.level - (1 if isinstance({CTX}.parentMod, Package) else 0))'
    TARGET = f"({UP}.fullName() if node.module is None else {UP}.fullName() + '.' + node.module)"
    IMPORTER = f'isinstance({CTX}, CanContainImportsDocumentable)'
    reg.contract(A, 'ModuleVistor._importAll', params={'modname': 'Str'}, raises=None, assumed=True,
                 modifies=['_localNameToFullName_map', 'violations', 'once_msgs', 'needsnl'], source='star import (bounded native harness)')
    reg.contract(A, 'ModuleVistor.visit_ImportFrom', params={'node': 'Ref[ImportFrom]'},
                 requires=[f'{CTX} is not None', 'node.level >= 0', 'len(node.names) > 0', 'implies(node.level == 0, node.module is not None)',
                           f'{CTX}.parentMod is not None',
                           # the scope of the property's quantifier, as far as _importNames needs it: no re-export, each name bound once
                           f'implies(isinstance({CTX}, Module), cast_mod({CTX}).all is None)',
                           'all(all(implies(a != b, (node.names[a].asname if node.names[a].asname is not None else node.names[a].name) != '
                           '(node.names[b].asname if node.names[b].asname is not None else node.names[b].name)) '
                           'for b in range(len(node.names))) for a in range(len(node.names)))'],
                 modifies=['_localNameToFullName_map', 'violations', 'once_msgs', 'needsnl'], raises=None,
                 ensures=[
                     # the module named by the statement, computed the way the import system does
                     f"implies(called('ModuleVistor._importNames') and node.level > 0, {UP} is not None and "
                     f"arg_of('ModuleVistor._importNames', 'modname') == {TARGET})",
                     f"implies(called('ModuleVistor._importAll') and node.level > 0, {UP} is not None and "
                     f"arg_of('ModuleVistor._importAll', 'modname') == {TARGET})",
                     "implies(called('ModuleVistor._importNames') and node.level == 0, arg_of('ModuleVistor._importNames', 'modname') == node.module)",
                     "implies(called('ModuleVistor._importAll') and node.level == 0, arg_of('ModuleVistor._importAll', 'modname') == node.module)",
                     # a statement is handled exactly when it stands in a module or class body and names an existing level
                     f"(called('ModuleVistor._importNames') or called('ModuleVistor._importAll')) == "
                     f"({IMPORTER} and (node.level == 0 or {UP} is not None))",
                     f"implies({IMPORTER} and node.level > 0 and {UP} is None, called('Documentable.report'))",
                     "implies(called('ModuleVistor._importNames'), arg_of('ModuleVistor._importNames', 'names') == node.names and node.names[0].name != '*')",
                     "implies(called('ModuleVistor._importAll'), node.names[0].name == '*')",
                     # the statement as a whole: `from <dots><module> import a as b` binds b to <resolved module>.a in this scope
                     f"implies(called('ModuleVistor._importNames') and node.level > 0, all("
                     f"(node.names[j].asname if node.names[j].asname is not None else node.names[j].name) in {CTX}._localNameToFullName_map and "
                     f"{CTX}._localNameToFullName_map[(node.names[j].asname if node.names[j].asname is not None else node.names[j].name)] == "
                     f"{TARGET} + '.' + node.names[j].name for j in range(len(node.names))))",
                     f"implies(called('ModuleVistor._importNames') and node.level == 0, all("
                     f"(node.names[j].asname if node.names[j].asname is not None else node.names[j].name) in {CTX}._localNameToFullName_map and "
                     f"{CTX}._localNameToFullName_map[(node.names[j].asname if node.names[j].asname is not None else node.names[j].name)] == "
                     f"node.module + '.' + node.names[j].name for j in range(len(node.names))))"],
                 loops={0: Loop(index='i', invariant=[
                     # remaining-work form: what is still to climb from here is what was to climb from the start
                     f'anc(parent, level - i) == anc({CTX}.parentMod, level)', 'level >= 0', 'i <= level'])})

    # ---- what `from M import a as b` binds -------------------------------------------------------------------------
    MAP = f'{CTX}._localNameToFullName_map'
    KEEP = ("forall('Ref[CanContainImportsDocumentable]', lambda s: forall('Str', lambda k: implies(k in old(s._localNameToFullName_map), "
            "k in s._localNameToFullName_map and s._localNameToFullName_map[k] == old(s._localNameToFullName_map)[k])))")
    reg.contract(M, 'System.getProcessedModule', params={'modname': 'Str'}, returns='RefN[Module]', raises={}, assumed=True,
                 modifies=['_localNameToFullName_map', 'violations', 'once_msgs', 'needsnl'],
                 ensures=[KEEP],
                 source='scheduler verified under C01; re-entrant analysis only adds bindings (ASSUMPTIONS)')
    reg.contract(A, 'ModuleVistor._getCurrentModuleExports', returns='Set[Str]', raises={}, assumed=True, pure=True,
                 reads=['current', 'builder', 'all'],
                 ensures=[f"forall('Str', lambda k: (k in result) == (isinstance({CTX}, Module) and cast_mod({CTX}).all is not None "
                          f"and k in cast_mod({CTX}).all))"],
                 source='verified under C07')
    reg.contract(A, 'ModuleVistor._handleReExport',
                 params={'curr_mod_exports': 'Set[Str]', 'origin_name': 'Str', 'as_name': 'Str', 'origin_module': 'Ref[Module]'},
                 returns='Bool', raises=None, assumed=True, modifies=['_localNameToFullName_map', 'violations', 'once_msgs', 'needsnl'],
                 ensures=['implies(as_name not in curr_mod_exports, not result)', KEEP],
                 source='verified under C07: nothing is moved unless the name is exported by the current module')
    NAME = lambda j: f'names[{j}].name'                                                        # noqa
    ASN = lambda j: f'(names[{j}].asname if names[{j}].asname is not None else names[{j}].name)'     # noqa
    NOEXPORT = f'implies(isinstance({CTX}, Module), cast_mod({CTX}).all is None)'
    reg.contract(A, 'ModuleVistor._importNames', params={'modname': 'Str', 'names': 'Seq[Ref[alias]]'},
                 requires=[f'isinstance({CTX}, CanContainImportsDocumentable)', NOEXPORT,
                           # each name is bound once per scope (the quantifier of the property)
                           f'all(all(implies(a != b, {ASN("a")} != {ASN("b")}) for b in range(len(names))) for a in range(len(names)))'],
                 modifies=['_localNameToFullName_map', 'violations', 'once_msgs', 'needsnl'], raises=None,
                 ensures=[f"all({ASN('j')} in {MAP} and {MAP}[{ASN('j')}] == modname + '.' + {NAME('j')} for j in range(len(names)))",
                          f'{CTX} == old({CTX})'],
                 loops={0: Loop(index='i', modifies=['_localNameToFullName_map', 'violations', 'once_msgs', 'needsnl'],
                                invariant=[f"all({ASN('j')} in {MAP} and {MAP}[{ASN('j')}] == modname + '.' + {NAME('j')} for j in range(i))",
                                           f'{CTX} == old({CTX})', NOEXPORT])})

    # ---- what `import a.b.c [as x]` binds ---------------------------------------------------------------------------
    IKEY = lambda j: (f"(node.names[{j}].asname if node.names[{j}].asname is not None else first_part(node.names[{j}].name))")    # noqa
    IVAL = lambda j: (f"(node.names[{j}].name if node.names[{j}].asname is not None else first_part(node.names[{j}].name))")      # noqa
    reg.contract(A, 'ModuleVistor.visit_Import', params={'node': 'Ref[Import]'},
                 requires=[f'{CTX} is not None',
                           f'all(all(implies(a != b, {IKEY("a")} != {IKEY("b")}) for b in range(len(node.names))) for a in range(len(node.names)))'],
                 modifies=['_localNameToFullName_map'], raises={},
                 ensures=[f"implies({IMPORTER}, all({IKEY('j')} in {MAP} and {MAP}[{IKEY('j')}] == {IVAL('j')} for j in range(len(node.names))))",
                          ],
                 opaque=['first_part'],
                 loops={0: Loop(index='i', modifies=['_localNameToFullName_map'],
                                hints=['unfold(first_part(node.names[entry(i)].name))'],
                                invariant=[f"all({IKEY('j')} in {MAP} and {MAP}[{IKEY('j')}] == {IVAL('j')} for j in range(i))"])})

    # ---- how a scope answers for a name -------------------------------------------------------------------------------
    reg.shapes['Documentable'].fields.update({'contents': 'Map[Str,Ref[Documentable]]'})
    reg.contract(M, 'Module._localNameToFullName', params={'name': 'Str'}, returns='Str', raises={},
                 ensures=['implies(name in self.contents, result == self.contents[name].fullName())',
                          'implies(name not in self.contents and name in self._localNameToFullName_map, result == self._localNameToFullName_map[name])',
                          'implies(name not in self.contents and name not in self._localNameToFullName_map, result == name)'])
    reg.contract(M, 'Class._localNameToFullName', params={'name': 'Str'}, returns='Str', raises=None,
                 requires=['self.parent is not None'],
                 # a class answers for what its body defines, then for what its body imported, and only then asks the enclosing scope
                 ensures=['implies(name in self.contents, result == self.contents[name].fullName())',
                          'implies(name not in self.contents and name in self._localNameToFullName_map, result == self._localNameToFullName_map[name])',
                          'implies(name not in self.contents and name not in self._localNameToFullName_map, result == enclosing_answer(self.parent, name))'])
    reg.contract(M, 'Documentable._localNameToFullName', params={'name': 'Str'}, returns='Str', raises=None, assumed=True, pure=True,
                 reads=['contents', '_localNameToFullName_map', 'parent', 'name'], result_is='enclosing_answer(self, name)',
                 source='abstract method: the enclosing scope answers')


    # ---- what is skipped as "only run as a script" ---------------------------------------------------------------
    # `if __name__ == '__main__':` is the one test whose body the analysis leaves out (it is not executed on import); every other
    # comparison - `!=`, reversed operands, chained - guards code that does run on import and must be analysed
    U = 'pydoctor/astutils.py'
    reg.shape('expr', {}, bases=('AST',))
    reg.shape('cmpop', {}, bases=('AST',))
    for k in ('Eq', 'NotEq', 'Is', 'In'):
        reg.shape(k, {}, bases=('cmpop',))
    reg.shape('Name', {'id': 'Str'}, bases=('expr',))
    reg.shape('Constant', {}, bases=('expr',))
    reg.shape('Compare', {'left': 'Ref[expr]', 'ops': 'Seq[Ref[cmpop]]', 'comparators': 'Seq[Ref[expr]]'}, bases=('expr',))
    reg.assume_ext('pydoctor.astutils._is_str_constant', params={'expr': 'Ref[expr]', 's': 'Str'}, returns='Bool', pure=True, raises={},
                   source='isinstance(expr, ast.Constant) and expr.value == s (defined under a version test: not reachable as a function of the module body)')
    reg.assume_ext('_is_str_constant', params={'expr': 'Ref[expr]', 's': 'Str'}, returns='Bool', pure=True, raises={},
                   source='isinstance(expr, ast.Constant) and expr.value == s')
    reg.contract(U, 'is__name__equals__main__', params={'cmp': 'Ref[Compare]'}, returns='Bool', raises={},
                 ensures=['implies(result, len(cmp.ops) == 1 and isinstance(cmp.ops[0], Eq) and len(cmp.comparators) == 1)',
                          "implies(result, isinstance(cmp.left, Name) and cast_name(cmp.left).id == '__name__' and _is_str_constant(cmp.comparators[0], '__main__'))",
                          "implies(len(cmp.ops) == 1 and isinstance(cmp.ops[0], Eq) and len(cmp.comparators) == 1 and isinstance(cmp.left, Name) "
                          "and cast_name(cmp.left).id == '__name__' and _is_str_constant(cmp.comparators[0], '__main__'), result)"])
    reg.shape('If', {'test': 'Ref[expr]'}, bases=('AST',))
    reg.contract(A, 'ModuleVistor.visit_If', params={'node': 'Ref[If]'},
                 # the body of an `if` is left out (SkipNode) for the script guard and for nothing else
                 raises={'SkipNode': "isinstance(node.test, Compare) and is__name__equals__main__(cast_compare(node.test))"},
                 ensures=["not (isinstance(node.test, Compare) and is__name__equals__main__(cast_compare(node.test)))"])

    # ---- a name that moved: the registry first, then the alias left at the old location (same contracts as under C07) ----------
    reg.shapes['System'].fields.update({'rootobjects': 'Seq[Ref[Module]]'})
    reg.contract(M, 'Documentable.expandName', params={'name': 'Str'}, returns='Str', pure=True, raises={}, assumed=True,
                 reads=['name', 'parent', 'contents', '_localNameToFullName_map', 'allobjects'], source='name expansion (bounded native harness)')
    reg.contract(M, 'System.objForFullName', params={'fullName': 'Str'}, returns='RefN[Documentable]', pure=True, raises={}, assumed=True,
                 reads=['allobjects'], ensures=['result == self.allobjects.get(fullName)'], source='self.allobjects.get(fullName)')
    reg.contract(M, 'System.find_object', params={'full_name': 'Str'}, returns='RefN[Documentable]', pure=True,
                 reads=['name', 'parent', 'contents', '_localNameToFullName_map', 'allobjects', 'rootobjects'],
                 requires=['all(r.name in self.allobjects for r in self.rootobjects)'],
                 raises={'LookupError': 'lookup_fails(self, full_name)'}, result_is='found(self, full_name)',
                 ensures=['not lookup_fails(self, full_name)', 'result == found(self, full_name)'],
                 loops={0: Loop(index='i', invariant=['first_root(self, name_parts[0], 0) == first_root(self, name_parts[0], i)'])})
    EXP = 'self.system.objForFullName(self.expandName(name))'
    reg.contract(M, 'Documentable.resolveName', params={'name': 'Str'}, returns='RefN[Documentable]', pure=True,
                 reads=['name', 'parent', 'contents', '_localNameToFullName_map', 'allobjects', 'rootobjects', 'system'], raises={},
                 requires=['all(r.name in self.system.allobjects for r in self.system.rootobjects)'],
                 ensures=[f'implies({EXP} is not None, result == {EXP})',
                          f'implies({EXP} is None and not lookup_fails(self.system, self.expandName(name)), result == found(self.system, self.expandName(name)))',
                          f'implies({EXP} is None and lookup_fails(self.system, self.expandName(name)), result is None)'])
