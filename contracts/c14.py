"""C14 sidecar contracts: parameter-list construction in astbuilder.ModuleVistor._handleFunctionDef (a region of the
real function body, re-located by marker texts on every run)."""
from pyvc.contracts import Loop
from contracts.shapes import (register_shapes, register_funcdef_shapes, register_builder_shapes, register_system_shapes,
                              register_reporting_shapes)

A = 'pydoctor/astbuilder.py'
ASSUMPTIONS = [
    "ast_args_ok: len(defaults) <= number of positional parameters and len(kw_defaults) == len(kwonlyargs) (invariants of CPython's parser output)",
    'inspect.Signature.__str__, the value formatters (colorizer) and html2stan - everything from the Signature object to the HTML - are external',
    'extraction drops: the statements of _handleFunctionDef before `posonlyargs = ...` (decorators, docstring, kind) and after the Signature() call',
]

EMPTY = "ext('inspect.Parameter.empty')"


def register(reg):
    reg.pid = 'C14'
    register_shapes(reg)
    register_funcdef_shapes(reg)
    register_builder_shapes(reg)
    register_system_shapes(reg)
    register_reporting_shapes(reg)
    reg.ext_values = {
        'inspect.Parameter.empty': 'RefN[_ValueFormatter]',
        'inspect.Parameter.POSITIONAL_ONLY': 'Obj[ParamKind]', 'inspect.Parameter.POSITIONAL_OR_KEYWORD': 'Obj[ParamKind]',
        'inspect.Parameter.VAR_POSITIONAL': 'Obj[ParamKind]', 'inspect.Parameter.KEYWORD_ONLY': 'Obj[ParamKind]',
        'inspect.Parameter.VAR_KEYWORD': 'Obj[ParamKind]',
    }
    reg.assume_ext('inspect.Parameter', params={'name': 'Str', 'kind': 'Obj[ParamKind]', 'default': 'RefN[_ValueFormatter]',
                                                'annotation': 'RefN[_ValueFormatter]'},
                   returns='Obj[Param]', raises={},
                   ensures=['p_name(result) == name', 'p_kind(result) == kind', 'p_default(result) == default',
                            'p_ann(result) == annotation'],
                   source='inspect.Parameter stores its arguments')
    reg.contract(A, '_ValueFormatter.__init__', params={'value': 'Ref[expr]', 'ctx': 'Ref[Documentable]'}, raises={},
                 ensures=['fmt_value(self) == value', "self != ext('inspect.Parameter.empty')"], assumed=True,
                 source='the formatter displays the expression it was given (colorizer: C15)')
    reg.contract(A, '_AnnotationValueFormatter.__init__', params={'value': 'Ref[expr]', 'ctx': 'Ref[Documentable]'}, raises={},
                 ensures=['fmt_value(self) == value', "self != ext('inspect.Parameter.empty')"], assumed=True,
                 source='as above')
    reg.contract(A, 'ModuleVistor._annotations_from_function', params={'func': 'Ref[FunctionDefNode]'},
                 returns='Map[Str,RefN[expr]]', raises={}, pure=True, assumed=True,
                 source='maps every parameter name to its (unstringed) annotation or None (bounded native harness)')

    ARGS = 'node.args'
    NPO, NA, ND = f'len({ARGS}.posonlyargs)', f'len({ARGS}.args)', f'len({ARGS}.defaults)'
    OFF = f'({NPO} + {NA} - {ND})'

    def dflt(p, idx):
        return (f'(implies({idx} < {OFF}, p_default({p}) == {EMPTY}) and '
                f'implies({idx} >= {OFF}, p_default({p}) != {EMPTY} and fmt_value(p_default({p})) == {ARGS}.defaults[{idx} - {OFF}]))')

    def ann(p, name):
        return f'((p_ann({p}) == {EMPTY}) == (annotations.get({name}) is None))'
    PO = "ext('inspect.Parameter.POSITIONAL_ONLY')"
    PK = "ext('inspect.Parameter.POSITIONAL_OR_KEYWORD')"
    SEG1 = ('all(p_name(parameters[i]) == {A}.posonlyargs[i].arg and p_kind(parameters[i]) == {PO} and {D} and {N} '
            'for i in range({hi}))').format(A=ARGS, PO=PO, D=dflt('parameters[i]', 'i'),
                                           N=ann('parameters[i]', f'{ARGS}.posonlyargs[i].arg'), hi='{hi}')
    SEG2 = ('all(p_name(parameters[{NPO} + i]) == {A}.args[i].arg and p_kind(parameters[{NPO} + i]) == {PK} and {D} and {N} '
            'for i in range({hi}))').format(A=ARGS, PK=PK, NPO=NPO, D=dflt(f'parameters[{NPO} + i]', f'({NPO} + i)'),
                                           N=ann(f'parameters[{NPO} + i]', f'{ARGS}.args[i].arg'), hi='{hi}')
    HV = f'({ARGS}.vararg is not None)'
    BASE = f'({NPO} + {NA} + (1 if {HV} else 0))'
    SEGV = (f"implies({HV}, p_name(parameters[{NPO} + {NA}]) == {ARGS}.vararg.arg and "
            f"p_kind(parameters[{NPO} + {NA}]) == ext('inspect.Parameter.VAR_POSITIONAL') and "
            f"p_default(parameters[{NPO} + {NA}]) == {EMPTY})")
    SEG3 = ("all(p_name(parameters[{B} + j]) == {A}.kwonlyargs[j].arg and "
            "p_kind(parameters[{B} + j]) == ext('inspect.Parameter.KEYWORD_ONLY') and "
            "((p_default(parameters[{B} + j]) == {E}) == ({A}.kw_defaults[j] is None)) and "
            "implies({A}.kw_defaults[j] is not None, fmt_value(p_default(parameters[{B} + j])) == {A}.kw_defaults[j]) and {N} "
            "for j in range({hi}))").format(A=ARGS, B=BASE, E=EMPTY, N=ann(f'parameters[{BASE} + j]', f'{ARGS}.kwonlyargs[j].arg'), hi='{hi}')
    NK = f'len({ARGS}.kwonlyargs)'
    HK = f'({ARGS}.kwarg is not None)'
    SEGK = (f"implies({HK}, p_name(parameters[{BASE} + {NK}]) == {ARGS}.kwarg.arg and "
            f"p_kind(parameters[{BASE} + {NK}]) == ext('inspect.Parameter.VAR_KEYWORD') and "
            f"p_default(parameters[{BASE} + {NK}]) == {EMPTY})")
    reg.contract(A, 'ModuleVistor._handleFunctionDef',
                 region={'name': 'parameters', 'start': "posonlyargs: Sequence[ast.arg] = getattr(node.args, 'posonlyargs', ())",
                         'end': 'return_type = annotations.get('},
                 params={'node': 'Ref[FunctionDefNode]', 'func': 'Ref[Function]'},
                 locals={'parameters': 'Seq[Obj[Param]]'},
                 requires=[f'{ND} <= {NPO} + {NA}', f'len({ARGS}.kw_defaults) == {NK}'],
                 raises={},
                 ensures=[
                     # same parameters, in the same order, with the same kinds
                     f'len(parameters) == {BASE} + {NK} + (1 if {HK} else 0)',
                     SEG1.format(hi=NPO), SEG2.format(hi=NA), SEGV, SEG3.format(hi=NK), SEGK],
                 loops={
                     'enumerate(posonlyargs)': Loop(index='k1', invariant=['len(parameters) == k1', SEG1.format(hi='k1')]),
                     'enumerate(node.args.args': Loop(index='k2', invariant=[f'len(parameters) == {NPO} + k2', SEG1.format(hi=NPO),
                                                                            SEG2.format(hi='k2')]),
                     'zip(node.args.kwonlyargs': Loop(index='k3', invariant=[f'len(parameters) == {BASE} + k3', SEG1.format(hi=NPO),
                                                                            SEG2.format(hi=NA), SEGV, SEG3.format(hi='k3')]),
                 })

    # ---- return annotation and where the signature goes ----------------------------------------------------------
    reg.contract('pydoctor/astutils.py', 'is_none_literal', params={'node': 'Ref[expr]'}, returns='Bool', pure=True, raises={},
                 assumed=True, source='isinstance(node, ast.Constant) and node.value is None (bounded native harness)')
    reg.assume_ext('inspect.Signature', params={'parameters': 'Seq[Obj[Param]]', 'return_annotation': 'RefN[_ValueFormatter]'},
                   returns='Obj[Sig]', raises={'ValueError': '__nargs__ > 0'},
                   source='inspect.Signature validates the parameter list it is given; Signature() cannot fail')
    reg.contract('pydoctor/model.py', 'Documentable.report', params={'descr': 'Str', 'section': 'Str', 'lineno_offset': 'Int', 'thresh': 'Int'},
                 raises={}, modifies=['violations', 'once_msgs', 'needsnl'], assumed=True, source='verified under C16')
    reg.contract('pydoctor/model.py', 'Documentable.fullName', returns='Str', pure=True, reads=['name', 'parent'], raises={},
                 assumed=True, source='verified under C02')
    RA = "arg_of('inspect.Signature', 'return_annotation')"
    reg.contract(A, 'ModuleVistor._handleFunctionDef',
                 region={'name': 'signature', 'start': "return_type = annotations.get('return')", 'end': '\x00end-of-function'},
                 params={'node': 'Ref[FunctionDefNode]', 'func': 'Ref[Function]', 'annotations': 'Map[Str,RefN[expr]]',
                         'parameters': 'Seq[Obj[Param]]', 'is_overload_func': 'Bool'},
                 raises={}, modifies=['signature', 'overloads', 'annotations', 'violations', 'once_msgs', 'needsnl',
                                      'primary', 'decorators'],
                 ensures=[
                     # "a -> None return omitted", any other return annotation shown
                     f"({RA} == {EMPTY}) == (annotations.get('return') is None or is_none_literal(annotations['return']))",
                     f"implies({RA} != {EMPTY}, fmt_value({RA}) == annotations['return'])",
                     f"arg_of('inspect.Signature', 'parameters') == parameters",
                     # overloads each keep their own signature; the primary signature is not overwritten by an overload
                     'implies(is_overload_func, len(func.overloads) == len(old(func.overloads)) + 1 and '
                     'func.signature == old(func.signature) and func.overloads[len(func.overloads) - 1].primary == func)',
                     'implies(not is_overload_func, func.signature is not None and func.overloads == old(func.overloads))'])
