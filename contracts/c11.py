"""C11 sidecar contracts: one URL scheme for pages and fragments, links built on it, pages written at those addresses."""
from pyvc.contracts import Loop
from contracts.shapes import register_shapes, register_system_shapes, register_reporting_shapes, register_page_shapes
import contracts.c12 as c12

M = 'pydoctor/model.py'
SPECS = ['c12']
ASSUMPTIONS = [
    'the templates attach the renderer results functionAnchor/shortFunctionAnchor as name= attributes of the member blocks '
    '(function-child.html, attribute-child.html are HTML, not Python)',
    'urllib.parse.quote never produces # (CPython: # is not in its safe set) and unquote(quote(s)) == s',
    'hrefs built outside taglink (summary letter links, sidebar templates) are not covered by contracts (bounded native scan only)',
    'displaced older definitions (names with a space) are known to be linked from the name index without a page: KF-C11-displaced-duplicates',
]


def register(reg):
    c12.register(reg)          # taglink, _writeDocsFor, listings: shared with C12
    reg.pid = 'C11'
    for c in reg.contracts.values():
        c.pid = 'C11'
    reg.assume_ext('urllib.parse.quote', params={'s': 'Str'}, returns='Str', pure=True, raises={}, result_is='url_quote(s)',
                   source='CPython urllib.parse.quote')
    reg.axiom('quote_no_hash', "'#' not in url_quote(a)", {'a': 'Str'}, source="CPython: '#' is not in quote()'s safe set")
    reg.contract(M, 'System.root_names', returns='Seq[Str]', pure=True, raises={}, assumed=True,
                 ensures=['(single_root(self) is not None) == (len(result) == 1)',
                          'implies(len(result) == 1, result[0] == single_root(self))'],
                 source='set of root names (its iteration order is the subject of C18)')
    del reg.contracts[(M, 'Documentable.url')]
    tl = reg.contracts[('pydoctor/linker.py', 'taglink')]
    tl.requires = list(tl.requires) + ['implies(o.documentation_location != DocLocation.OWN_PAGE, o.parent is not None)',
                                       'o.parent != o']          # the object model is a tree (C02)
    wd = reg.contracts[('pydoctor/templatewriter/writer.py', 'TemplateWriter._writeDocsFor')]
    TREE = ("forall('Ref[Documentable]', lambda x: implies(x.documentation_location != DocLocation.OWN_PAGE, x.parent is not None) "
            "and x.parent != x)")
    wd.requires = list(wd.requires) + [TREE]
    reg.contract(M, 'Documentable.page_object', returns='Ref[Documentable]',
                 requires=['implies(self.documentation_location != DocLocation.OWN_PAGE, self.parent is not None)'],
                 raises={},
                 ensures=['result == (self if self.documentation_location == DocLocation.OWN_PAGE else self.parent)'])
    PAGE = '(self if self.documentation_location == DocLocation.OWN_PAGE else self.parent)'
    PURL = (f"('index.html' if single_root(self.system) is not None and single_root(self.system) == {PAGE}.fullName() "
            f"else url_quote({PAGE}.fullName()) + '.html')")
    reg.contract(M, 'Documentable.url', returns='Str', pure=True, reads=['name', 'parent', 'documentation_location', 'system'],
                 requires=['implies(self.documentation_location != DocLocation.OWN_PAGE, self.parent is not None)',
                           'self.parent != self'],          # the object model is a tree (C02)
                 raises={},
                 ensures=[
                     # one scheme: a page-owning object is its page, a member is an anchor on its parent's page
                     f"implies(self.documentation_location == DocLocation.OWN_PAGE, result == {PURL})",
                     f"implies(self.documentation_location != DocLocation.OWN_PAGE, result == {PURL} + '#' + url_quote(self.name))"])
    # member anchors: the Python side of what the templates emit
    for f, cls in (('pydoctor/templatewriter/pages/functionchild.py', 'FunctionChild'),
                   ('pydoctor/templatewriter/pages/attributechild.py', 'AttributeChild')):
        reg.contract(f, f'{cls}.shortFunctionAnchor', params={'request': 'Obj[Req]', 'tag': 'Obj[Tag]'}, returns='Str', raises={},
                     ensures=['result == self.ob.name'])
        reg.contract(f, f'{cls}.functionAnchor', params={'request': 'Obj[Req]', 'tag': 'Obj[Tag]'}, returns='Str', raises={},
                     ensures=['result == self.ob.fullName()'])
    # the fragment of a member's url is exactly (the quoting of) the anchor emitted for it; its page is its parent's page
    reg.lemma('member_anchor', vars={'page': 'Str', 'name': 'Str', 'url': 'Str'},
              hyps=["url == page + '#' + url_quote(name)", "'#' not in page"],
              hints=[('quote_no_hash', {'a': 'name'})],
              goal=["url.find('#') == len(page)", "url[:url.find('#')] == page", "url[url.find('#') + 1:] == url_quote(name)"])
    # same-page shortening of taglink: dropping the page prefix yields a fragment-only href that resolves on that page
    reg.lemma('same_page_link', vars={'page_url': 'Str', 'url': 'Str', 'href': 'Str'},
              hyps=["url.startswith(page_url + '#')", "href == url[len(page_url):]"],
              goal=["page_url + href == url", "href.startswith('#')"])
    _link_contexts(reg)


def _link_contexts(reg):
    """call sites of taglink in the renderers: the page url handed over is the address of the page the link is placed on
    (taglink's same-page shortening is only right under that condition - lemma same_page_link)"""
    T = 'pydoctor/templatewriter/pages/table.py'
    SB = 'pydoctor/templatewriter/pages/sidebar.py'
    reg.shape('LinkOnlyItem', {'child': 'Ref[Documentable]', 'documented_ob': 'Ref[Documentable]'})
    reg.shapes['TableRow'].fields.update({'ob': 'Ref[Documentable]', 'child': 'Ref[Documentable]'})
    reg.contract('pydoctor/epydoc2stan.py', 'insert_break_points', params={'text': 'Str'}, returns='Obj[Flat]', raises={}, assumed=True, pure=True,
                 source='adds <wbr> break points to a name (label only)')
    reg.assume_ext('<Tag>.clear', params={'self': 'Obj[Tag]'}, returns='Obj[Tag]', raises={}, source='stan')
    reg.assume_ext('<Tag>.__call__', params={'self': 'Obj[Tag]', 'child': 'Any'}, returns='Obj[Tag]', raises={}, source='stan')
    reg.assume_ext('twisted.web.template.tags.code', params={'child': 'Any'}, returns='Obj[Tag]', raises={}, source='stan')
    # a row of a member table on the page of self.ob (the own members, and the members inherited from a base, of the page's object)
    TREE = ("forall('Ref[Documentable]', lambda x: implies(x.documentation_location != DocLocation.OWN_PAGE, x.parent is not None) "
            "and x.parent != x)")          # the object model is a tree (C02)
    reg.contract(T, 'TableRow.name', params={'request': 'Obj[Req]', 'tag': 'Obj[Tag]'}, returns='Obj[Tag]', raises={},
                 modifies=['violations', 'once_msgs', 'needsnl'], requires=[TREE],
                 ensures=["arg_of('taglink', 'o') == self.child", "arg_of('taglink', 'page_url') == self.ob.url"])
    # a sidebar entry on the page of documented_ob
    reg.contract(SB, 'LinkOnlyItem.name', params={'request': 'Obj[Req]', 'tag': 'Obj[Tag]'}, returns='Obj[Tag]', raises={},
                 modifies=['violations', 'once_msgs', 'needsnl'],
                 requires=[TREE],
                 ensures=["arg_of('taglink', 'o') == self.child", "arg_of('taglink', 'page_url') == self.documented_ob.page_object.url"])
