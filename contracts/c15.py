"""C15 sidecar contracts: pydoctor/epydoc/markup/_pyval_repr.py (parenthesis decision, state marks)."""
from pyvc.contracts import Loop
from contracts.shapes import register_shapes, register_pyval_shapes, OPKINDS

P = 'pydoctor/epydoc/markup/_pyval_repr.py'
ASSUMPTIONS = [
    'everything rendered through astor.to_source (compare, if-expressions, lambdas, comprehensions, f-strings) and '
    'string/bytes escaping are outside the contracts (bounded native read-back oracle only)',
    "astor's precedence numbers are read from the installed astor at run time (facts)",
    'the parent chain recorded by astutils.Parentage is the syntactic parent chain',
]


def _after_facts(reg):
    table = reg.fact_values.get('astor_prec_table')
    if not table:
        return
    for name in OPKINDS:
        if name in table:
            reg.axiom(f'astor_prec_{name}', f'astor_prec(OpKind.{name}) == {int(table[name])}', {},
                      source='astor.op_util.get_op_precedence (installed package)', quantified=True)


def register(reg):
    reg.pid = 'C15'
    register_shapes(reg)
    register_pyval_shapes(reg)
    reg.fact_exprs = [
        ('astor_prec_table', "{n: __import__('astor').op_util.get_op_precedence(getattr(__import__('ast'), n)()) for n in %r}" % (OPKINDS,)),
        ('astor.op_util.Precedence.highest', "int(__import__('astor').op_util.Precedence.highest)"),
    ]
    reg.after_facts = _after_facts
    reg.assume_ext('astor.op_util.get_op_precedence', params={'op': 'Enum[OpKind]'}, returns='Int', pure=True, raises={},
                   result_is='astor_prec(op)', source='astor')
    reg.contract('pydoctor/astutils.py', 'get_parents', params={'node': 'Ref[expr]'}, returns='Seq[Ref[AST]]', pure=True,
                 raises={}, result_is='parents_of(node)', assumed=True,
                 source='generator over the .parent chain set by astutils.Parentage')

    # ---- backup points of the colorizer state -------------------------------------------------------------
    reg.contract(P, '_ColorizerState.mark', returns='Ref[_MarkedColorizerState]', raises={},
                 modifies=['length', 'charpos', 'lineno', 'linebreakok'],
                 ensures=['result.length == len(self.result)', 'result.charpos == self.charpos',
                          'result.lineno == self.lineno', 'result.linebreakok == self.linebreakok',
                          'self.charpos == old(self.charpos)', 'self.lineno == old(self.lineno)',
                          'self.linebreakok == old(self.linebreakok)'])
    reg.contract(P, '_ColorizerState.restore', params={'mark': 'Ref[_MarkedColorizerState]'},
                 returns='Seq[Obj[DocNode]]', raises={}, modifies=['result', 'charpos', 'lineno', 'linebreakok'],
                 requires=['0 <= mark.length', 'mark.length <= len(self.result)'],
                 ensures=['result == old(self.result)[mark.length:]', 'self.result == old(self.result)[:mark.length]',
                          'old(self.result) == self.result + result',      # nothing is lost: trimmed ++ kept
                          'self.charpos == mark.charpos', 'self.lineno == mark.lineno',
                          'self.linebreakok == mark.linebreakok'])

    # ---- the parenthesis decision -------------------------------------------------------------------------------
    PARENT = 'parents_of(node)[0]'
    reg.contract(P, '_OperatorDelimiter.__init__',
                 params={'colorizer': 'Ref[PyvalColorizer]', 'state': 'Ref[_ColorizerState]', 'node': 'Ref[expr]'},
                 raises={}, modifies=['discard', 'colorizer', 'state', 'marked', 'length', 'charpos', 'lineno', 'linebreakok'],
                 requires=['isinstance(node, (UnaryOp, BinOp, BoolOp))',
                           # shape of the tree: the operator classes carry the operators of their kind
                           "implies(len(parents_of(node)) > 0 and isinstance(parents_of(node)[0], BinOp), "
                           "lang_level(parents_of(node)[0].op) >= 5 and lang_level(parents_of(node)[0].op) != 11)",
                           "implies(len(parents_of(node)) > 0 and isinstance(parents_of(node)[0], BoolOp), "
                           "lang_level(parents_of(node)[0].op) <= 2)",
                           "implies(len(parents_of(node)) > 0 and isinstance(parents_of(node)[0], UnaryOp), "
                           "lang_level(parents_of(node)[0].op) == 11 or lang_level(parents_of(node)[0].op) == 3)"],
                 ensures=[
                     # soundness of the decision (extra parentheses are allowed, missing ones are not)
                     f"implies(len(parents_of(node)) > 0 and isinstance({PARENT}, (UnaryOp, BinOp, BoolOp)) and "
                     f"needs_parens(node.op, {PARENT}.op, isinstance({PARENT}, BinOp), isinstance({PARENT}, BoolOp), "
                     f"isinstance({PARENT}, BinOp) and {PARENT}.right == node), not self.discard)"])
