"""C08 sidecar contracts: the containment layer around docstring parsers and renderers.

What contracts can decide here: *given* that a parser / renderer may raise any Exception (their documented interface), no exception
leaves parse_docstring / safe_to_stan / get_summary / get_toc, the fallback is the plain-text rendering of the complete original
text, and the failure is reported against the object that holds the docstring.  That the parsers themselves terminate and that
docutils/napoleon/epytext produce sensible output is outside (bounded native harness)."""
from pyvc.contracts import Loop
from contracts.shapes import register_shapes, register_system_shapes, register_reporting_shapes, register_docstring_shapes

E = 'pydoctor/epydoc2stan.py'
MK = 'pydoctor/epydoc/markup/__init__.py'
PT = 'pydoctor/epydoc/markup/plaintext.py'
M = 'pydoctor/model.py'
PLAIN = 'pydoctor.epydoc.markup.plaintext.parse_docstring'
ASSUMPTIONS = [
    'a docstring parser (ParserFunction) and ParsedDocstring.to_stan/to_node may raise any Exception and nothing that is not an Exception '
    '(KeyboardInterrupt/SystemExit are not produced by parsers)',
    'importlib.import_module raises only ImportError for a dotted name below an importable package (bounded-validated natively on odd names)',
    'the fallback callables handed to safe_to_stan do not raise (the three in the repository are under contract or trivial)',
    'ParsedDocstring.to_node raises only NotImplementedError where it is documented to (get_toc relies on it)',
    'termination of the parsers is not decided by contracts (bounded native harness: 60 s per docstring)',
]


def register(reg):
    reg.pid = 'C08'
    register_shapes(reg)
    register_system_shapes(reg)
    register_reporting_shapes(reg)
    register_docstring_shapes(reg)
    reg.ext_values = {PLAIN: 'Obj[CallableParser]', 'pydoctor.epydoc2stan.BROKEN': 'Obj[Tag]', 'BROKEN': 'Obj[Tag]'}

    # ---- what is assumed about the outside -----------------------------------------------------------------
    reg.assume_ext('importlib.import_module', params={'name': 'Str'}, returns='Obj[PyModule]', raises={'any:ImportError': 'True'},
                   source='importlib: ModuleNotFoundError/ImportError for names that cannot be imported')
    reg.assume_ext('import_module', params={'name': 'Str'}, returns='Obj[PyModule]', raises={'any:ImportError': 'True'},
                   source='importlib: ModuleNotFoundError/ImportError for names that cannot be imported')
    # reading an attribute of a module object: AttributeError unless the module defines it (nothing is assumed about which do)
    reg.assume_ext('<PyModule>.@get_parser', params={'self': 'Obj[PyModule]'}, returns='Obj[CallableGetParser]',
                   raises={'AttributeError': 'not has_get_parser(self)'}, source='Python attribute lookup on a module')
    reg.assume_ext('<PyModule>.@__name__', params={'self': 'Obj[PyModule]'}, returns='Str', raises={}, source='module name')
    reg.assume_ext('<param>CallableGetParser', params={'fn': 'Obj[CallableGetParser]', 'obj': 'RefN[Documentable]'},
                   returns='Obj[CallableParser]', raises={}, source='get_parser(obj) of the five parser modules returns their parse function')
    # a parser: may raise anything, may append to the error list it is given, never removes from it
    reg.assume_ext('<param>CallableParser', params={'fn': 'Obj[CallableParser]', 'docstring': 'Str', 'errors': 'Ref[ErrList]'},
                   returns='Ref[ParsedDocstring]', modifies=['__items__'],
                   raises={'any:Exception': f"fn != ext('{PLAIN}')"},
                   ensures=[f"implies(fn == ext('{PLAIN}'), isinstance(result, ParsedPlaintextDocstring) and result._text == docstring "
                            "and items(errors) == old(items(errors)))",
                            'len(items(errors)) >= len(old(items(errors)))',
                            "forall('Ref[ErrList]', lambda l: implies(l != errors, items(l) == old(items(l))))"],
                   source='ParserFunction interface (markup/__init__.py); the plain-text parser is ParsedPlaintextDocstring(docstring)')
    reg.contract(MK, 'processtypes', params={'parse': 'Obj[CallableParser]'}, returns='Obj[CallableParser]', raises={}, assumed=True,
                 ensures=[f"result != ext('{PLAIN}')"], source='returns a wrapper closure (a new function object)')
    reg.contract(M, 'System.msg', params={'section': 'Str', 'msg': 'Str', 'thresh': 'Int', 'topthresh': 'Int', 'nonl': 'Bool',
                                          'wantsnl': 'Bool', 'once': 'Bool'},
                 modifies=['violations', 'once_msgs', 'needsnl'], raises={}, assumed=True, source='verified under C16')
    # reportErrors is verified here as well (same contract as under C16): it runs outside every catch-all, an exception in it ends the run
    reg.contract(M, 'Documentable.report', params={'descr': 'Str', 'section': 'Str', 'lineno_offset': 'Int', 'thresh': 'Int'},
                 modifies=['violations', 'once_msgs', 'needsnl'], raises={}, assumed=True, source='verified under C16',
                 ensures=['self.system.violations == old(self.system.violations) + (1 if thresh < 0 else 0)'])
    reg.contract(MK, 'ParseError.linenum', returns='Opt[Int]', raises={}, pure=True, reads=['_linenum'],
                 ensures=['(result is None) == (self._linenum is None)', 'implies(self._linenum is not None, result == self._linenum + 1)'])
    reg.contract(MK, 'ParseError.descr', returns='Str', raises={}, pure=True, reads=['_descr'], ensures=['result == self._descr'])
    FRESH = 'len(errs) > 0 and obj.fullName() not in old(obj.system.parse_errors[section])'
    reg.contract(E, 'reportErrors', params={'obj': 'Ref[Documentable]', 'errs': 'Seq[Ref[ParseError]]', 'section': 'Str'},
                 modifies=['violations', 'once_msgs', 'needsnl', 'parse_errors'], raises={},
                 ensures=['implies(len(errs) > 0, obj.fullName() in obj.system.parse_errors[section])',
                          # reported against that object: once per object (qualified name) and section, one message per error
                          'obj.system.violations == old(obj.system.violations) + (len(errs) if ' + FRESH + ' else 0)'],
                 loops={0: Loop(index='i', modifies=['violations', 'once_msgs', 'needsnl'],
                                invariant=['obj.system.violations == old(obj.system.violations) + i',
                                           'obj.fullName() in obj.system.parse_errors[section]'],
                                asserts=["arg_of('Documentable.report', 'self') == obj", "arg_of('Documentable.report', 'section') == section"])})
    reg.contract(M, 'Documentable.fullName', returns='Str', pure=True, reads=['name', 'parent'], raises={}, assumed=True,
                 source='verified under C02')
    reg.contract(M, 'Documentable.module', returns='Ref[Module]', pure=True, reads=['parentMod'], raises={}, assumed=True,
                 source='every documented object has its module set (C02)')
    reg.contract(M, 'Module.docformat', returns='Opt[Str]', pure=True, reads=['_docformat', 'parent'], raises={}, assumed=True,
                 source="the module's own __docformat__ or the one inherited from its package")
    reg.contract(M, 'Documentable.docstring_linker', returns='Obj[Linker]', pure=True, reads=['name', 'parent'], raises={}, assumed=True,
                 source='lazily created linker of the object')
    reg.contract(MK, 'ParseError.__init__', params={'descr': 'Str', 'linenum': 'Opt[Int]', 'is_fatal': 'Bool'}, raises={},
                 modifies=['_descr', '_linenum', '_fatal'],
                 ensures=['self._descr == descr', 'self._linenum == linenum', 'self._fatal == is_fatal'])
    reg.contract(PT, 'ParsedPlaintextDocstring.__init__', params={'text': 'Str'}, raises={}, assumed=True,
                 modifies=['_text', '_document', 'fields', '_summary', '_stan', '_compact'],
                 ensures=['self._text == text'], source='stores the text (base-class initialiser sets the caches to None)')
    reg.assume_ext('twisted.web.template.tags.p', params={'text': 'Str', 'class_': 'Str'}, returns='Obj[Tag]', raises={},
                   ensures=["implies(class_ == 'pre', result == plain_stan(text))"], source='stan constructor: a <p> tag around the text')
    reg.contract(MK, 'ParsedDocstring.to_stan', params={'docstring_linker': 'Obj[Linker]'}, returns='Obj[Tag]', assumed=True,
                 raises={'any:Exception': 'not isinstance(self, ParsedPlaintextDocstring)'}, modifies=['_stan'],
                 ensures=['implies(isinstance(self, ParsedPlaintextDocstring), result == plain_stan(self._text))'],
                 source='documented: "@raises Exception: If something went wrong"; the plain-text override is tags.p(text, class_="pre")')
    reg.contract(MK, 'ParsedDocstring.to_node', returns='Obj[Document]', assumed=True,
                 raises={'NotImplementedError': 'True', 'any:Exception': 'fragile_node(self)'},
                 source='documented: may raise NotImplementedError; anything else only for docstrings singled out by the opaque '
                        'predicate fragile_node (get_summary is proved for those too, get_toc is not: see its precondition)')

    # ---- choosing the parser ---------------------------------------------------------------------------------
    reg.contract(MK, 'get_parser_by_name', params={'docformat': 'Str', 'obj': 'RefN[Documentable]'}, returns='Obj[CallableParser]',
                 # the documented interface: ImportError, and nothing else, whatever the name
                 raises={'ImportError': 'True'})
    reg.contract(E, '_get_docformat', params={'obj': 'Ref[Documentable]'}, returns='Str', raises={}, pure=True,
                 reads=['options', 'docformat', '_docformat', 'parent', 'parentMod', 'system'],
                 ensures=["implies(obj.system.options.docformat == 'plaintext', result == 'plaintext')"])

    # ---- parsing never fails -----------------------------------------------------------------------------------
    reg.contract(E, 'parse_docstring',
                 params={'obj': 'Ref[Documentable]', 'doc': 'Str', 'source': 'Ref[Documentable]', 'markup': 'Opt[Str]', 'section': 'Str'},
                 returns='Ref[ParsedDocstring]', locals={'errs': 'Ref[ErrList]'},
                 modifies=['violations', 'once_msgs', 'needsnl', 'parse_errors', '__items__', '_descr', '_linenum', '_fatal'],
                 raises={},                                  # producing the parsed form always succeeds
                 ensures=[
                     # a parser that gives up: the complete original text, as plain text ...
                     "implies(called('parse_docstring'), isinstance(result, ParsedPlaintextDocstring) and result._text == doc)",
                     # ... any internal failure of a parser is turned into an error of this docstring ...
                     "implies(called('ParseError.__init__'), called('reportErrors'))",
                     # ... and whatever is reported is reported against the object that holds the docstring, in its section
                     "implies(called('reportErrors'), arg_of('reportErrors', 'obj') == source and arg_of('reportErrors', 'section') == section "
                     "and len(arg_of('reportErrors', 'errs')) > 0)",
                     "implies(called('reportErrors'), source.fullName() in source.system.parse_errors[section])"])

    # ---- rendering never fails ---------------------------------------------------------------------------------
    reg.assume_ext('<param>CallableFallback', params={'fn': 'Obj[CallableFallback]', 'errs': 'Seq[Ref[ParseError]]',
                                                      'doc': 'Ref[ParsedDocstring]', 'ctx': 'Ref[Documentable]'},
                   returns='Obj[Tag]', raises={}, modifies=['parsed_summary'],
                   source='fallback callables return a fallback stan (documented interface of safe_to_stan)')
    reg.contract(E, 'get_to_stan_error', params={'e': 'Exc'}, returns='Ref[ParseError]', raises={},
                 modifies=['_descr', '_linenum', '_fatal'])
    reg.contract(E, 'safe_to_stan',
                 params={'parsed_doc': 'Ref[ParsedDocstring]', 'linker': 'Obj[Linker]', 'ctx': 'Ref[Documentable]',
                         'fallback': 'Obj[CallableFallback]', 'report': 'Bool', 'section': 'Str'},
                 returns='Obj[Tag]', raises={},
                 modifies=['violations', 'once_msgs', 'needsnl', 'parse_errors', '_stan', 'parsed_summary', '_descr', '_linenum', '_fatal'],
                 ensures=[
                     # the fallback is used exactly when the conversion failed, and then it is what is shown
                     "called('<param>CallableFallback') == called('get_to_stan_error')",
                     "implies(called('<param>CallableFallback'), arg_of('<param>CallableFallback', 'ctx') == ctx and "
                     "arg_of('<param>CallableFallback', 'doc') == parsed_doc)",
                     # reported against the context object when asked to
                     "called('reportErrors') == (called('<param>CallableFallback') and report)",
                     "implies(called('reportErrors'), arg_of('reportErrors', 'obj') == ctx and arg_of('reportErrors', 'section') == section "
                     "and len(arg_of('reportErrors', 'errs')) == 1)"])
    reg.contract(E, 'format_docstring_fallback',
                 params={'errs': 'Ref[ErrList]', 'parsed_doc': 'Ref[ParsedDocstring]', 'ctx': 'Ref[Documentable]'},
                 returns='Obj[Tag]', raises={}, modifies=['__items__', '_stan'],
                 # the complete original text is still shown as plain text
                 ensures=['implies(ctx.docstring is not None, result == plain_stan(ctx.docstring))',
                          "implies(ctx.docstring is None, result == ext('pydoctor.epydoc2stan.BROKEN'))"])
    reg.contract(PT, 'ParsedPlaintextDocstring.to_stan', params={'docstring_linker': 'Obj[Linker]'}, returns='Obj[Tag]', raises={},
                 ensures=['result == plain_stan(self._text)'])
    reg.contract(PT, 'parse_docstring', params={'docstring': 'Str', 'errors': 'Ref[ErrList]'}, returns='Ref[ParsedDocstring]', raises={},
                 modifies=['_text', '_document', 'fields', '_summary', '_stan', '_compact'],
                 ensures=['isinstance(result, ParsedPlaintextDocstring)', 'result._text == docstring', 'items(errors) == old(items(errors))'])

    # ---- summary and table of contents ---------------------------------------------------------------------------
    reg.shape('SummaryExtractor', {'summary': 'RefN[ParsedDocstring]', 'other_docs': 'Bool', 'maxchars': 'Int'})
    reg.contract(MK, 'SummaryExtractor.__init__', params={'document': 'Obj[Document]', 'maxchars': 'Int'}, raises={}, assumed=True,
                 modifies=['summary', 'other_docs', 'maxchars'], source='docutils NodeVisitor initialiser + three assignments')
    reg.assume_ext('<Document>.walk', params={'self': 'Obj[Document]', 'visitor': 'Ref[SummaryExtractor]'}, raises={'any:Exception': 'True'},
                   modifies=['summary', 'other_docs', 'fields', '_stan', '_summary', '_compact'],
                   source='docutils tree walk calling the visitor: anything may go wrong in it')
    reg.assume_ext('twisted.web.template.tags.span', params={'class_': 'Str'}, returns='Obj[Tag]', raises={}, source='stan constructor')
    reg.assume_ext('<Tag>.__call__', params={'self': 'Obj[Tag]', 'child': 'Str'}, returns='Obj[Tag]', raises={}, source='stan: add a child')
    reg.contract(E, 'ParsedStanOnly.__init__', params={'stan': 'Obj[Tag]'}, raises={}, assumed=True,
                 modifies=['_fromstan', 'fields', '_stan', '_summary', '_compact'], ensures=['self._fromstan == stan'],
                 source='stores the stan')
    reg.contract(MK, 'ParsedDocstring.get_summary', returns='Ref[ParsedDocstring]', raises={},      # always succeeds
                 modifies=['_summary', 'summary', 'other_docs', 'maxchars', '_fromstan', 'fields', '_stan', '_compact'],
                 ensures=['self._summary == result',                       # cached: asked again, the same summary is returned
                          'implies(old(self._summary) is not None, result == old(self._summary))'])
    DU = 'pydoctor/epydoc/docutils.py'
    reg.contract(DU, 'build_table_of_content', params={'node': 'Obj[Document]', 'depth': 'Int', 'level': 'Int'},
                 returns='Opt[Seq[Obj[Node]]]', raises={}, assumed=True, source='collects the section titles of a docutils document (not under contract)')
    reg.contract(DU, 'new_document', params={'source_path': 'Str'}, returns='Obj[Document]', raises={}, assumed=True,
                 source='an empty docutils document')
    reg.assume_ext('<Document>.extend', params={'self': 'Obj[Document]', 'items': 'Seq[Obj[Node]]'}, raises={}, source='docutils')
    reg.contract('pydoctor/epydoc/markup/restructuredtext.py', 'ParsedRstDocstring.__init__',
                 params={'document': 'Obj[Document]', 'fields': 'Seq[Ref[DocField]]'}, raises={}, assumed=True,
                 modifies=['_document', 'fields', '_stan', '_summary', '_compact'], source='stores the document')
    reg.shape('ParsedRstDocstring', {'_document': 'Opt[Obj[Document]]'}, bases=('ParsedDocstring',))
    reg.contract(MK, 'ParsedDocstring.get_toc', params={'depth': 'Int'}, returns='RefN[ParsedDocstring]',
                 # to_node is documented to raise NotImplementedError only; get_toc guards exactly that
                 requires=['not fragile_node(self)'],
                 raises={}, modifies=['_document', 'fields', '_stan', '_summary', '_compact'])

    # ---- the entry points the page renderer uses -----------------------------------------------------------------
    reg.contract(M, 'get_docstring', params={'obj': 'Ref[Documentable]'}, returns='Tuple[Opt[Str],RefN[Documentable]]', raises={},
                 pure=True, reads=['docstring', 'name', 'parent'], assumed=True,
                 ensures=['implies(result[0] is not None, result[1] is not None)'],
                 source='the docstring and the object it is defined on (inherited docstrings: C05)')
    reg.contract(E, 'ensure_parsed_docstring', params={'obj': 'Ref[Documentable]'}, returns='RefN[Documentable]', raises={},
                 modifies=['violations', 'once_msgs', 'needsnl', 'parse_errors', '__items__', '_descr', '_linenum', '_fatal', 'parsed_docstring'],
                 ensures=['implies(obj.parsed_docstring is None, result is None)',
                          # (a root object without docstring whose parsed form was set directly has no source to name)
                          'implies(obj.parsed_docstring is not None and obj.parent is not None, result is not None)',
                          # a parsed form once set is kept (the parser runs once per object)
                          'implies(old(obj.parsed_docstring) is not None, obj.parsed_docstring == old(obj.parsed_docstring))',
                          "implies(called('parse_docstring'), arg_of('parse_docstring', 'obj') == obj and old(obj.parsed_docstring) is None)"])
    reg.contract(E, 'format_undocumented', params={'obj': 'Ref[Documentable]'}, returns='Obj[Tag]', raises={}, assumed=True,
                 source='counts documented members (no docstring involved)')
    reg.contract(E, '_get_parsed_summary', params={'obj': 'Ref[Documentable]'}, returns='Tuple[RefN[Documentable],Ref[ParsedDocstring]]',
                 raises={},
                 modifies=['violations', 'once_msgs', 'needsnl', 'parse_errors', '__items__', '_descr', '_linenum', '_fatal', 'parsed_docstring',
                           'parsed_summary', '_summary', 'summary', 'other_docs', 'maxchars', '_fromstan', 'fields', '_stan', '_compact'],
                 ensures=['obj.parsed_summary == result[1]',
                          'implies(old(obj.parsed_summary) is not None, result[1] == old(obj.parsed_summary))'])
    reg.assume_ext('<Linker>.switch_context', params={'self': 'Obj[Linker]', 'ob': 'RefN[Documentable]'}, returns='Obj[Ctx]', raises={},
                   source='context manager that temporarily changes the page context of the linker; does not swallow exceptions')
    reg.ext_values['pydoctor.epydoc2stan.format_summary_fallback'] = 'Obj[CallableFallback]'
    reg.ext_values['pydoctor.epydoc2stan.format_docstring_fallback'] = 'Obj[CallableFallback]'
    reg.contract(E, 'format_summary', params={'obj': 'Ref[Documentable]'}, returns='Obj[Tag]', raises={},    # the one-line summary always succeeds
                 modifies=['violations', 'once_msgs', 'needsnl', 'parse_errors', '__items__', '_descr', '_linenum', '_fatal', 'parsed_docstring',
                           'parsed_summary', '_summary', 'summary', 'other_docs', 'maxchars', '_fromstan', 'fields', '_stan', '_compact'])

    # ---- the full body: the fallback context is the object that holds the docstring -----------------------------
    reg.assume_ext('twisted.web.template.tags.div', params={}, returns='Obj[Tag]', raises={}, source='stan tag')
    reg.assume_ext('twisted.web.template.tags.p', params={'text': 'Str', 'class_': 'Str'}, returns='Obj[Tag]', raises={},
                   ensures=["implies(class_ == 'pre', result == plain_stan(text))"], source='stan constructor: a <p> tag around the text')
    reg.assume_ext('<Tag>.__call__', params={'self': 'Obj[Tag]', 'child': 'Any'}, returns='Obj[Tag]', raises={}, source='stan: add a child')
    reg.contract(E, 'unwrap_docstring_stan', params={'stan': 'Obj[Tag]'}, returns='Obj[Tag]', raises={}, assumed=True, pure=True,
                 source='wraps the body in a paragraph when needed')
    reg.contract(E, 'format_docstring', params={'obj': 'Ref[Documentable]'},
                 region={'name': 'body', 'start': 'source = ensure_parsed_docstring(obj)', 'end': 'fh = FieldHandler(obj)'},
                 locals={'source': 'RefN[Documentable]'},
                 modifies=['violations', 'once_msgs', 'needsnl', 'parse_errors', '__items__', '_descr', '_linenum', '_fatal', 'parsed_docstring',
                           '_stan', 'parsed_summary'],
                 raises={},
                 ensures=["called('safe_to_stan') == (source is not None)",
                          # an inherited docstring is rendered, and falls back, in the context of the object it is defined on
                          "implies(called('safe_to_stan'), arg_of('safe_to_stan', 'ctx') == source and "
                          "arg_of('safe_to_stan', 'parsed_doc') == obj.parsed_docstring and arg_of('safe_to_stan', 'report') and "
                          "arg_of('safe_to_stan', 'linker') == source.docstring_linker and "
                          "arg_of('safe_to_stan', 'fallback') == ext('pydoctor.epydoc2stan.format_docstring_fallback') and "
                          "arg_of('safe_to_stan', 'section') == 'docstring')"])
