"""C16 sidecar contracts: where a problem is reported (line arithmetic) and how it is counted (violations, exit status)."""
from pyvc.contracts import Loop
from contracts.shapes import register_shapes, register_system_shapes, register_reporting_shapes

M = 'pydoctor/model.py'
U = 'pydoctor/astutils.py'
E = 'pydoctor/epydoc2stan.py'
D = 'pydoctor/driver.py'
ASSUMPTIONS = [
    'per-construct line numbers produced inside the parsers (epytext Token.startline, docutils get_lineno) are inputs',
    'print/sys.stdout.flush do not raise',
]


def register(reg):
    reg.pid = 'C16'
    register_shapes(reg)
    register_system_shapes(reg)
    register_reporting_shapes(reg)
    reg.fact_globals = [(U, '_string_lineno_is_end')]
    reg.ghosts['msgs'] = 'Seq[Tuple[Str,Str,Int]]'        # (section, text, thresh) handed to System.msg

    # ---- docstring start line --------------------------------------------------------------------------------
    reg.contract(U, 'extract_docstring_linenum', params={'node': 'Ref[StrNode]'}, returns='Int', raises={},
                 ensures=['result == node.lineno + ws_nl(node.value, 0)'],
                 loops={0: Loop(index='i', invariant=['lineno + ws_nl(doc, i) == node.lineno + ws_nl(node.value, 0)',
                                                      'doc == node.value'])})
    reg.assume_ext('inspect.cleandoc', params={'s': 'Str'}, returns='Str', pure=True, raises={}, source='CPython inspect.cleandoc')
    reg.contract(U, 'extract_docstring', params={'node': 'Ref[StrNode]'}, returns='Tuple[Int,Str]', raises={},
                 ensures=['result[0] == node.lineno + ws_nl(node.value, 0)'],
                 loops={0: Loop(invariant=['lineno == node.lineno + ws_nl(node.value, 0)'], decreases='len(doc)')})
    reg.contract(M, 'Documentable.setDocstring', params={'node': 'Ref[StrNode]'}, raises={},
                 modifies=['docstring', 'docstring_lineno'],
                 ensures=['self.docstring_lineno == node.lineno + ws_nl(node.value, 0)'])

    # ---- counting --------------------------------------------------------------------------------------------
    reg.assume_ext('sys.stdout.flush', params={}, raises={}, source='stdout')
    COUNT = '(1 if thresh < 0 and not (once and (section, msg) in old(self.once_msgs)) else 0)'
    reg.contract(M, 'System.msg',
                 params={'section': 'Str', 'msg': 'Str', 'thresh': 'Int', 'topthresh': 'Int', 'nonl': 'Bool',
                         'wantsnl': 'Bool', 'once': 'Bool'},
                 modifies=['violations', 'once_msgs', 'needsnl'], raises={},
                 # every reported problem (negative threshold) is counted, printed or not; `once` messages once
                 ensures=['self.violations == old(self.violations) + ' + COUNT])

    # ---- where a problem is reported -----------------------------------------------------------------------------
    reg.contract(M, 'Documentable.module', returns='Ref[Module]', pure=True, reads=['parentMod'], raises={},
                 assumed=True, source='every reported object has its module set (C02)')
    # the '<file>' part is the object's own source path (the file that holds its text), not that of the module it now lives in
    reg.contract(M, 'Documentable.description', returns='Str', raises={},
                 ensures=['implies(self.source_path is not None, result == str(self.source_path))',
                          'implies(self.source_path is None, result == self.module.fullName())'])
    LINE = ("(str(base_line(self.docstring_lineno, self.linenumber, section) + lineno_offset) "
            "if base_line(self.docstring_lineno, self.linenumber, section) != 0 else "
            "(str(lineno_offset) if lineno_offset != 0 and self.module == self else '???'))")
    reg.contract(M, 'Documentable.report',
                 params={'descr': 'Str', 'section': 'Str', 'lineno_offset': 'Int', 'thresh': 'Int'},
                 modifies=['violations', 'once_msgs', 'needsnl'], raises={},
                 ensures=[
                     # the message names the file and the line: base line of the object plus the offset
                     "arg_of('System.msg', 'msg') == self.description + ':' + " + LINE + " + ': ' + descr",
                     "arg_of('System.msg', 'section') == section", "arg_of('System.msg', 'thresh') == thresh",
                     # and it is counted
                     'self.system.violations == old(self.system.violations) + (1 if thresh < 0 else 0)'])
    # "moving the definition down by k lines moves the reported line by k"
    reg.lemma('shift_by_k', vars={'dl': 'Int', 'ln': 'Int', 'k': 'Int', 'sec': 'Str', 'off': 'Int'},
              hyps=['k >= 0', 'ln > 0', 'dl >= 0'],
              goal=['base_line(dl + k if dl != 0 else 0, ln + k, sec) + off == base_line(dl, ln, sec) + off + k'])

    reg.contract('pydoctor/epydoc/markup/__init__.py', 'ParseError.linenum', returns='Opt[Int]', raises={}, pure=True,
                 reads=['_linenum'],
                 ensures=['(result is None) == (self._linenum is None)',
                          'implies(self._linenum is not None, result == self._linenum + 1)'])
    reg.contract('pydoctor/epydoc/markup/__init__.py', 'ParseError.descr', returns='Str', raises={}, pure=True,
                 reads=['_descr'], ensures=['result == self._descr'])
    reg.contract(E, 'Field.report', params={'message': 'Str'}, modifies=['violations', 'once_msgs', 'needsnl'], raises={},
                 ensures=["arg_of('Documentable.report', 'lineno_offset') == self.lineno",
                          "arg_of('Documentable.report', 'section') == 'docstring'",
                          "arg_of('Documentable.report', 'self') == self.source"])
    FRESH = 'len(errs) > 0 and obj.fullName() not in old(obj.system.parse_errors[section])'
    reg.contract(M, 'Documentable.fullName', returns='Str', pure=True, reads=['name', 'parent'], raises={},
                 assumed=True, source='verified under C02')
    reg.contract(E, 'reportErrors', params={'obj': 'Ref[Documentable]', 'errs': 'Seq[Ref[ParseError]]', 'section': 'Str'},
                 modifies=['violations', 'once_msgs', 'needsnl', 'parse_errors'], raises={},
                 # ParseError line numbers are 0-based positions inside the docstring (its own documentation)
                 requires=['all(implies(e._linenum is not None, e._linenum >= 0) for e in errs)'],
                 ensures=[
                     # reported against that object, once per object and section, one message per error
                     'implies(len(errs) > 0, obj.fullName() in obj.system.parse_errors[section])',
                     'obj.system.violations == old(obj.system.violations) + (len(errs) if ' + FRESH + ' else 0)'],
                 loops={0: Loop(index='i', modifies=['violations', 'once_msgs', 'needsnl'],
                                invariant=['obj.system.violations == old(obj.system.violations) + i',
                                           'obj.fullName() in obj.system.parse_errors[section]'],
                                asserts=["arg_of('Documentable.report', 'lineno_offset') == "
                                         "(errs[entry(i)]._linenum if errs[entry(i)]._linenum is not None else 0)",
                                         "arg_of('Documentable.report', 'self') == obj",
                                         "arg_of('Documentable.report', 'section') == section"])})

    # ---- exit status -------------------------------------------------------------------------------------------
    O = 'pydoctor/options.py'
    reg.contract(O, 'Options.from_args', params={'args': 'Seq[Str]'}, returns='Ref[Options]', raises=None, assumed=True,
                 source='configargparse front end (C20)')
    reg.contract('pydoctor/utils.py', 'error', params={'msg': 'Str'}, raises={'SystemExit': 'True'}, ensures=['False'],
                 assumed=True, source='prints and calls sys.exit(1): never returns')
    reg.contract(D, 'get_system', params={'options': 'Ref[Options]'}, returns='Ref[System]', raises=None, assumed=True,
                 ensures=['result.options == options', 'result.violations >= 0'], modifies=['violations', 'parse_errors', 'once_msgs', 'needsnl'],
                 source='builds the model (unverified here)')
    reg.contract(D, 'make', params={'system': 'Ref[System]'}, raises=None, assumed=True,
                 ensures=['system.violations >= old(system.violations)', 'system.options == old(system.options)'],
                 modifies=['violations', 'parse_errors', 'once_msgs', 'needsnl'],
                 source='writes the output (unverified here); System.msg is the only writer of the counter, and it only increments')
    reg.assume_ext('pdb.post_mortem', params={'tb': 'Obj[TB]'}, raises=None, source='debugger')
    reg.assume_ext('sys.exc_info', params={}, returns='Tuple[Obj[TB],Obj[TB],Obj[TB]]', raises={}, source='CPython')
    S = "arg_of('make', 'system')"
    reg.contract(D, 'main', params={'args': 'Seq[Str]'}, returns='Int', raises=None,
                 modifies=['violations', 'parse_errors', 'once_msgs', 'needsnl'],
                 ensures=[
                     # the statement's sentence, over the final counters of the run
                     f"result == exit_status_spec({S}.violations, bool({S}.parse_errors['docstring']), "
                     f"any({S}.parse_errors.values()), {S}.options.warnings_as_errors)",
                     'result == 0 or result == 2 or result == 3'],
                 loops={0: Loop(index='i', modifies=['violations', 'once_msgs', 'needsnl'],
                                invariant=['system.violations >= 0', 'exitcode == 2'])})
