"""Class/field declarations used by the heap encoding (checked against the source on every run:
a field the verified bodies touch that is not declared here makes the function undecided)."""


def register_shapes(reg):
    reg.enums_src = {
        'PrivacyClass': ('pydoctor/model.py', 'PrivacyClass'),
        'DocumentableKind': ('pydoctor/model.py', 'DocumentableKind'),
        'DocLocation': ('pydoctor/model.py', 'DocLocation'),
        'ProcessingState': ('pydoctor/model.py', 'ProcessingState'),
        'When': ('pydoctor/visitor.py', 'When'),
    }
    reg.shape('SphinxInventory', {'_links': 'Map[Str,Tuple[Str,Str]]', '_logger': 'Obj[CallableLogger]'})
    reg.shape('SphinxInventoryWriter', {'_logger': 'Obj[CallableLogger]', '_project_name': 'Str',
                                        '_project_version': 'Str'})
    reg.shape('Documentable', {
        'name': 'Str', 'parent': 'RefN[Documentable]', 'system': 'Ref[System]',
        'kind': 'Opt[Enum[DocumentableKind]]', 'parentMod': 'RefN[Module]',
        'docstring_lineno': 'Int', 'linenumber': 'Int', 'sourceHref': 'Opt[Str]',
        'documentation_location': 'Enum[DocLocation]',
        'contents': 'Map[Str,Ref[Documentable]]',
    })
    reg.shape('CanContainImportsDocumentable', {}, bases=('Documentable',))
    reg.shape('Module', {'state': 'Enum[ProcessingState]'}, bases=('CanContainImportsDocumentable',))
    reg.shape('Package', {}, bases=('Module',))
    reg.shape('Class', {}, bases=('CanContainImportsDocumentable',))
    reg.shape('Inheritable', {}, bases=('Documentable',))
    reg.shape('Function', {}, bases=('Inheritable',))
    reg.shape('Attribute', {}, bases=('Inheritable',))


def assume_model_queries(reg):
    """Pure queries of the object model used by other modules.  Assumed here (result = uninterpreted function of
    the object and of the listed heap fields); fullName/url/page_object are verified under C02/C11, isVisible and
    privacyClass under C12/C13."""
    M = 'pydoctor/model.py'
    reg.contract(M, 'Documentable.fullName', returns='Str', pure=True, reads=['name', 'parent'], raises={},
                 assumed=True, source='verified under C02')
    reg.contract(M, 'Documentable.url', returns='Str', pure=True, reads=['name', 'parent'], raises={},
                 assumed=True, source='verified under C11 (depends on root_names/options, which no caller under contract modifies)')
    reg.contract(M, 'Documentable.isVisible', returns='Bool', pure=True, reads=['name', 'parent', 'kind'], raises={},
                 assumed=True, source='verified under C12/C13 (depends on --privacy options, never modified after parsing)')


def register_system_shapes(reg):
    reg.shape('System', {'options': 'Ref[Options]', '_privacyClassCache': 'Map[Str,Enum[PrivacyClass]]',
                         'allobjects': 'Map[Str,Ref[Documentable]]'})
    reg.shape('Options', {'privacy': 'Seq[Tuple[Enum[PrivacyClass],Str]]'})


def register_mro_shapes(reg):
    # Dependency subclasses collections.deque: its element sequence is the builtin view __items__
    reg.shape('Dependency', {'__items__': 'Seq[Obj[Cls]]'})
    reg.shape('DependencyList', {'_lists': 'Seq[Ref[Dependency]]'})


def register_visitor_shapes(reg):
    reg.shape('_BaseVisitor', {})
    reg.shape('Visitor', {'extensions': 'Ref[ExtList]'}, bases=('_BaseVisitor',))
    reg.shape('ExtList', {'_visitors': 'DefaultMap[Enum[When],Seq[Obj[Ext]]]'})


def register_builder_shapes(reg):
    reg.shape('ASTBuilder', {'_stack': 'Seq[RefN[Documentable]]', 'current': 'RefN[Documentable]',
                             'currentMod': 'RefN[Module]', 'currentAttr': 'RefN[Documentable]',
                             'system': 'Ref[System]'})


def register_reporting_shapes(reg):
    reg.shape('StrNode', {'value': 'Str', 'lineno': 'Int'})          # ast.Constant holding a docstring
    reg.shape('ParseError', {'_linenum': 'Opt[Int]', '_descr': 'Str', '_fatal': 'Bool'})
    reg.shape('Field', {'source': 'Ref[Documentable]', 'lineno': 'Int'})
    reg.shapes['System'].fields.update({'violations': 'Int', 'once_msgs': 'Set[Tuple[Str,Str]]', 'needsnl': 'Bool',
                                        'parse_errors': 'DefaultMap[Str,Set[Str]]'})
    reg.shapes['Options'].fields.update({'verbosity': 'Int', 'warnings_as_errors': 'Bool', 'pdb': 'Bool',
                                         'sourcepath': 'Seq[Obj[Path]]'})
    reg.shapes['Documentable'].fields.update({'docstring': 'Opt[Str]', 'source_path': 'Opt[Obj[Path]]'})


OPKINDS = ['Or', 'And', 'Not', 'BitOr', 'BitXor', 'BitAnd', 'LShift', 'RShift', 'Add', 'Sub', 'Mult', 'Div', 'Mod',
           'FloorDiv', 'MatMult', 'UAdd', 'USub', 'Invert', 'Pow']


def register_pyval_shapes(reg):
    reg.enum_defs = dict(getattr(reg, 'enum_defs', {}), OpKind=OPKINDS)
    # the part of the ast class hierarchy the colorizer distinguishes
    reg.shape('AST', {})
    reg.shape('expr', {'op': 'Enum[OpKind]', 'right': 'RefN[expr]', 'left': 'RefN[expr]'}, bases=('AST',))
    reg.shape('keyword', {}, bases=('AST',))
    reg.shape('comprehension', {}, bases=('AST',))
    reg.shape('stmt', {}, bases=('AST',))
    for k in ('UnaryOp', 'BinOp', 'BoolOp'):
        reg.shape(k, {}, bases=('expr',))
    reg.shape('OtherExpr', {}, bases=('expr',))
    reg.shape('_MarkedColorizerState', {'length': 'Int', 'charpos': 'Int', 'lineno': 'Int', 'linebreakok': 'Bool'})
    reg.shape('_ColorizerState', {'result': 'Seq[Obj[DocNode]]', 'charpos': 'Int', 'lineno': 'Int', 'linebreakok': 'Bool',
                                  'warnings': 'Seq[Str]'})
    reg.shape('PyvalColorizer', {'explicit_precedence': 'Map[Ref[expr],Int]', 'linebreakok': 'Bool'})
    reg.shape('_OperatorDelimiter', {'discard': 'Bool', 'colorizer': 'Ref[PyvalColorizer]', 'state': 'Ref[_ColorizerState]',
                                     'marked': 'Ref[_MarkedColorizerState]'})


def register_funcdef_shapes(reg):
    reg.shape('AST', {})
    reg.shape('expr', {}, bases=('AST',))
    reg.shape('arg', {'arg': 'Str', 'annotation': 'RefN[expr]'}, bases=('AST',))
    reg.shape('arguments', {'posonlyargs': 'Seq[Ref[arg]]', 'args': 'Seq[Ref[arg]]', 'defaults': 'Seq[Ref[expr]]',
                            'vararg': 'RefN[arg]', 'kwonlyargs': 'Seq[Ref[arg]]', 'kw_defaults': 'Seq[RefN[expr]]',
                            'kwarg': 'RefN[arg]'}, bases=('AST',))
    reg.shape('FunctionDefNode', {'args': 'Ref[arguments]', 'returns': 'RefN[expr]'}, bases=('AST',))
    reg.shape('_ValueFormatter', {})
    reg.shape('_AnnotationValueFormatter', {}, bases=('_ValueFormatter',))
    reg.shape('ModuleVistor', {'builder': 'Ref[ASTBuilder]'})
    reg.shape('FunctionOverload', {'primary': 'Ref[Function]', 'signature': 'Obj[Sig]', 'decorators': 'Obj[DecoList]'})
    reg.shapes['Function'].fields.update({'signature': 'Opt[Obj[Sig]]', 'overloads': 'Seq[Ref[FunctionOverload]]',
                                          'annotations': 'Map[Str,RefN[expr]]'})
    reg.shapes['FunctionDefNode'].fields.update({'decorator_list': 'Obj[DecoList]'})


def register_page_shapes(reg):
    reg.shape('CommonPage', {'ob': 'Ref[Documentable]', '_order': 'Obj[CallableOrder]'})
    reg.shape('PackagePage', {'ob': 'Ref[Module]'}, bases=('CommonPage',))
    reg.shape('ObjContent', {'ob': 'Ref[Documentable]', '_order': 'Obj[CallableOrder]'})
    reg.shape('TableRow', {'ob': 'Ref[Documentable]', 'child': 'Ref[Documentable]'})
    reg.shape('ContentItem', {'child': 'Ref[Documentable]', 'documented_ob': 'Ref[Documentable]'})
    reg.shape('FunctionChild', {'ob': 'Ref[Documentable]'})
    reg.shape('AttributeChild', {'ob': 'Ref[Documentable]'})
    reg.shape('TemplateWriter', {'dry_run': 'Bool', 'total_pages': 'Int', 'written_pages': 'Int', 'build_directory': 'Obj[Path]'})


def register_registry_shapes(reg):
    reg.shapes['System'].fields.update({'allobjects': 'Map[Str,Ref[Documentable]]', 'rootobjects': 'Seq[Ref[Module]]'})
    reg.shapes['Documentable'].fields.update({'_linker': 'RefN[Linker]'})
    reg.shapes['CanContainImportsDocumentable'].fields.update({'_localNameToFullName_map': 'Map[Str,Str]'})
    reg.shapes['Function'].fields.update({'signature': 'Opt[Obj[Sig]]', 'overloads': 'Seq[Ref[FunctionOverload]]'})
    reg.shape('FunctionOverload', {})


def register_docstring_shapes(reg):
    reg.shape('ErrList', {'__items__': 'Seq[Ref[ParseError]]'})        # a Python list of ParseError shared with a parser
    reg.shape('ParsedDocstring', {'fields': 'Seq[Ref[DocField]]', '_stan': 'Opt[Obj[Tag]]', '_summary': 'RefN[ParsedDocstring]',
                                  '_compact': 'Bool'})
    reg.shape('ParsedPlaintextDocstring', {'_text': 'Str', '_document': 'Opt[Obj[Document]]'}, bases=('ParsedDocstring',))
    reg.shape('ParsedStanOnly', {'_fromstan': 'Obj[Tag]'}, bases=('ParsedDocstring',))
    reg.shape('DocField', {})
    reg.shapes['Options'].fields.update({'docformat': 'Str', 'processtypes': 'Bool', 'sidebartocdepth': 'Int'})
    reg.shapes['Module'].fields.update({'_docformat': 'Opt[Str]'})
    reg.shapes['Documentable'].fields.update({'parsed_docstring': 'RefN[ParsedDocstring]', 'parsed_summary': 'RefN[ParsedDocstring]',
                                              })


def register_scheduler_shapes(reg):
    reg.shapes['System'].fields.update({'unprocessed_modules': 'Seq[Ref[Module]]', 'processing_modules': 'Seq[Str]', 'module_count': 'Int',
                                        'defaultBuilder': 'Obj[CallableBuilderFactory]', 'allobjects': 'Map[Str,Ref[Documentable]]'})
    reg.shapes['Module'].fields.update({'_py_string': 'Opt[Str]', '_is_c_module': 'Bool', '_py_mod': 'Obj[PyMod]', 'all': 'Opt[Seq[Str]]',
                                        '_docformat': 'Opt[Str]'})
    reg.shapes['ASTBuilder'].fields.update({'ast_cache': 'Map[Obj[Path],RefN[AstModule]]'})
    reg.shape('AstModule', {})
    reg.shape('AST', {'lineno': 'Int'})
    reg.shape('expr', {'elts': 'Seq[Ref[expr]]'}, bases=('AST',))
    reg.shape('List', {}, bases=('expr',))
    reg.shape('Tuple', {}, bases=('expr',))
    reg.shape('Assign', {'value': 'Ref[expr]'}, bases=('AST',))
