"""C12 sidecar contracts: hidden objects flow into no link, listing, page or inventory line; private ones are marked."""
from pyvc.contracts import Loop
from contracts.shapes import register_shapes, register_system_shapes, register_reporting_shapes, register_page_shapes

M = 'pydoctor/model.py'
L = 'pydoctor/linker.py'
PG = 'pydoctor/templatewriter/pages/__init__.py'
SB = 'pydoctor/templatewriter/pages/sidebar.py'
TB = 'pydoctor/templatewriter/pages/table.py'
UT = 'pydoctor/templatewriter/util.py'
WR = 'pydoctor/templatewriter/writer.py'
ASSUMPTIONS = [
    'HTML templates attach renderer results as they are named (templates are not Python)',
    "interpretation: a hidden class named where an external base class would be (base list of a visible subclass, the plain-text "
    "node of the class hierarchy) is source text about the visible class, not an entry for the hidden one",
    'stan constructors (twisted.web.template.tags.*) are opaque: what is tracked is which Documentable flows into them',
]


def assume_visibility(reg):
    reg.contract(M, 'Documentable.isVisible', returns='Bool', pure=True, raises={}, result_is='visible(self)', assumed=True,
                 source='verified against the documented rule under C13')
    reg.contract(M, 'Documentable.privacyClass', returns='Enum[PrivacyClass]', pure=True, raises={}, result_is='privacy_of(self)',
                 assumed=True, source='verified under C13')
    reg.contract(M, 'Documentable.isPrivate', returns='Bool', pure=True, raises={},
                 result_is='privacy_of(self) != PrivacyClass.PUBLIC', assumed=True, source='verified under C13')
    reg.contract(M, 'Documentable.fullName', returns='Str', pure=True, reads=['name', 'parent'], raises={}, assumed=True,
                 source='verified under C02')
    reg.contract(M, 'Documentable.url', returns='Str', pure=True, reads=['name', 'parent'], raises={}, assumed=True,
                 source='verified under C11')


def register(reg):
    reg.pid = 'C12'
    register_shapes(reg)
    register_system_shapes(reg)
    register_reporting_shapes(reg)
    register_page_shapes(reg)
    assume_visibility(reg)
    reg.contract(M, 'System.msg', params={'section': 'Str', 'msg': 'Str', 'thresh': 'Int', 'topthresh': 'Int', 'nonl': 'Bool',
                                          'wantsnl': 'Bool', 'once': 'Bool'},
                 modifies=['violations', 'once_msgs', 'needsnl'], raises={}, assumed=True, source='verified under C16')
    reg.assume_ext('twisted.web.template.tags.a', params={'label': 'Any', 'href': 'Str', 'class_': 'Str'}, returns='Obj[Tag]',
                   raises={}, source='stan constructor')
    reg.assume_ext('twisted.web.template.tags.transparent', params={'label': 'Any'}, returns='Obj[Tag]', raises={},
                   source='stan constructor (renders its children only)')
    reg.assume_ext('<Tag>.__call__', params={'tag': 'Obj[Tag]', 'title': 'Str'}, returns='Obj[Tag]', raises={}, source='stan: adds attributes')

    # ---- the central contract: a hyperlink is only ever created to a visible object, at its own address --------
    A = 'twisted.web.template.tags.a'
    reg.contract(L, 'taglink', params={'o': 'Ref[Documentable]', 'page_url': 'Str', 'label': 'Opt[Obj[Flat]]'},
                 returns='Obj[Tag]', raises={}, modifies=['violations', 'once_msgs', 'needsnl'],
                 ensures=[
                     f"implies(called('{A}'), visible(o))",                       # no hyperlink anywhere targets a hidden object
                     f"implies(not called('{A}'), not visible(o))",               # and visible targets do get their link
                     # the link leads to the object's own address; only a same-page prefix may be dropped
                     f"implies(called('{A}'), arg_of('{A}', 'href') == o.url or "
                     f"(page_url != '' and o.url == page_url + arg_of('{A}', 'href') and arg_of('{A}', 'href').startswith('#')))"])

    # ---- listings: only visible objects flow into rows, items and pages ----------------------------------------
    VIS = 'all(visible(o) for o in result)'
    SUB = 'all(o in list(self.ob.contents.values()) for o in result)'
    for cls in ('CommonPage', 'PackagePage'):
        for meth in ('children', 'methods'):
            reg.contract(PG, f'{cls}.{meth}', returns='Seq[Ref[Documentable]]', raises={}, ensures=[VIS, SUB])
    reg.contract(SB, 'ObjContent._children', params={'inherited': 'Bool'}, returns='Seq[Ref[Documentable]]',
                 requires=['not inherited'], raises={}, ensures=[VIS, SUB])
    reg.contract(M, 'Module.submodules', returns='Seq[Ref[Module]]', raises={},
                 ensures=['all(visible(m) for m in result)', 'all(m in list(self.contents.values()) for m in result)'])

    # ---- the private marker --------------------------------------------------------------------------------------
    reg.contract('pydoctor/epydoc2stan.py', 'format_kind', params={'kind': 'Enum[DocumentableKind]'}, returns='Str', pure=True,
                 raises={}, assumed=True, source='kind label (no privacy information in it: lower-case kind names)')
    reg.contract(UT, 'css_class', params={'o': 'Ref[Documentable]'}, returns='Str',
                 requires=['o.kind is not None'], raises={},
                 ensures=["result.endswith(' private') == (privacy_of(o) == PrivacyClass.PRIVATE)"])
    reg.contract(SB, 'ContentItem.class_', params={'request': 'Obj[Req]', 'tag': 'Obj[Tag]'}, returns='Str', raises={},
                 ensures=["result.startswith('private') == (privacy_of(self.child) != PrivacyClass.PUBLIC)"])

    # ---- pages are written for visible own-page objects only --------------------------------------------------
    reg.ghosts['written'] = 'Seq[Str]'          # file names opened for writing, in order
    reg.assume_ext('urllib.parse.unquote', params={'s': 'Str'}, returns='Str', raises={}, pure=True, result_is='unq(s)',
                   source='CPython urllib: percent-decoding (inverse of quote on every text quote produces)')
    reg.assume_ext('unquote', params={'s': 'Str'}, returns='Str', raises={}, pure=True, result_is='unq(s)', source='CPython urllib')
    reg.assume_ext('<Path>.joinpath', params={'p': 'Obj[Path]', 'name': 'Str'}, returns='Obj[Path]', raises={},
                   ensures=['path_name(result) == name'], source='pathlib: build_directory / relative name')
    reg.assume_ext('<Path>.open', params={'p': 'Obj[Path]', 'mode': 'Str'}, returns='Obj[File]', raises={}, modifies=['written'],
                   ensures=['written == old(written) + [path_name(p)]'], source='opening a file for writing creates it (I/O errors out of scope)')
    reg.contract(WR, 'TemplateWriter._writeDocsForOne', params={'ob': 'Ref[Documentable]', 'fobj': 'Obj[File]'}, raises={},
                 modifies=['written_pages'], assumed=True, source='renders one page into the given file (templates: external)')
    reg.contract(WR, 'TemplateWriter._writeDocsFor', params={'ob': 'Ref[Documentable]'}, raises={},
                 modifies=['written', 'total_pages', 'written_pages'],
                 ensures=[
                     # every visible module, package and class gets its own page, at the address links use for it;
                     # a hidden object, and everything inside it, gets none
                     'implies(not self.dry_run, written == old(written) + pages_of([ob], 1))',
                     'implies(self.dry_run, written == old(written))'],
                 lets={'cs': 'list(ob.contents.values())'},
                 loops={0: Loop(index='i', modifies=['written', 'total_pages', 'written_pages'], invariant=[
                     'implies(not self.dry_run, written == old(written) + '
                     '([unq(ob.url)] if ob.documentation_location is DocLocation.OWN_PAGE else pages_of(cs, 0)) + pages_of(cs, i))',
                     'implies(self.dry_run, written == old(written))'])})
    reg.contract(PG, 'assembleList', params={'system': 'Ref[System]', 'label': 'Str', 'lst': 'Seq[Str]', 'page_url': 'Str'},
                 region={'name': 'filter', 'start': 'lst2 = []', 'end': 'if not lst:'},
                 locals={'lst2': 'Seq[Str]'}, raises={},
                 # names of hidden objects are dropped before anything is linked
                 ensures=['all(implies(n in system.allobjects, visible(system.allobjects[n])) for n in lst)'],
                 loops={0: Loop(index='i', invariant=['all(implies(n in system.allobjects, visible(system.allobjects[n])) for n in lst2)'])})
    _index_roots(reg)
    _undocumented_summary(reg)


def _index_roots(reg):
    """the list of root objects on the index page: only visible roots, linked from index.html (regression guard for a8ca556)"""
    S = 'pydoctor/templatewriter/summary.py'
    reg.shape('Page', {'system': 'Ref[System]'})
    reg.shape('IndexPage', {}, bases=('Page',))
    reg.shapes['System'].fields.update({'rootobjects': 'Seq[Ref[Module]]'})
    reg.assume_ext('<Tag>.clone', params={'self': 'Obj[Tag]'}, returns='Obj[Tag]', raises={}, source='stan')
    reg.assume_ext('<Tag>.fillSlots', params={'self': 'Obj[Tag]', 'root': 'Obj[Tag]'}, returns='Obj[Tag]', raises={}, source='stan')
    reg.assume_ext('twisted.web.template.tags.code', params={'child': 'Any'}, returns='Obj[Tag]', raises={}, source='stan')
    reg.contract(S, 'IndexPage.roots', params={'request': 'Obj[Req]', 'tag': 'Obj[Tag]'}, returns='Seq[Obj[Tag]]', raises={},
                 modifies=['violations', 'once_msgs', 'needsnl'], locals={'r': 'Seq[Obj[Tag]]'},
                 requires=["forall('Ref[Documentable]', lambda x: implies(x.documentation_location != DocLocation.OWN_PAGE, x.parent is not None) "
                           "and x.parent != x)"],
                 ensures=['len(result) <= len(self.system.rootobjects)'],
                 loops={0: Loop(index='i', modifies=['violations', 'once_msgs', 'needsnl'], invariant=['len(r) <= i'],
                                asserts=["implies(called('taglink'), visible(arg_of('taglink', 'o')) and arg_of('taglink', 'page_url') == 'index.html')"])})


def _undocumented_summary(reg):
    """the 'undocumented objects' page: every linked object is visible; links are relative to that page"""
    S = 'pydoctor/templatewriter/summary.py'
    reg.shape('UndocumentedSummaryPage', {}, bases=('Page',))
    reg.shapes['System'].fields.update({'allobjects': 'Map[Str,Ref[Documentable]]'})
    reg.contract(S, 'hasdocstring', params={'ob': 'Ref[Documentable]'}, returns='Bool', raises={}, pure=True, assumed=True,
                 reads=['docstring', 'name', 'parent'], source='whether a (possibly inherited) docstring exists')
    reg.contract('pydoctor/epydoc2stan.py', 'format_kind', params={'kind': 'Enum[DocumentableKind]', 'plural': 'Bool'}, returns='Str', raises={},
                 pure=True, assumed=True, source='display name of a kind')
    reg.assume_ext('twisted.web.template.tags.li', params={'a': 'Any', 'b': 'Any', 'c': 'Any'}, returns='Obj[Tag]', raises={}, source='stan')
    reg.assume_ext('<Tag>.__call__', params={'self': 'Obj[Tag]', 'child': 'Any'}, returns='Obj[Tag]', raises={}, source='stan')
    reg.contract(M, 'Documentable.fullName', returns='Str', pure=True, reads=['name', 'parent'], raises={}, assumed=True, source='C02')
    reg.contract(S, 'UndocumentedSummaryPage.stuff', params={'request': 'Obj[Req]', 'tag': 'Obj[Tag]'}, returns='Obj[Tag]',
                 modifies=['violations', 'once_msgs', 'needsnl'],
                 requires=["forall('Ref[Documentable]', lambda x: implies(x.documentation_location != DocLocation.OWN_PAGE, x.parent is not None) "
                           "and x.parent != x)",
                           # an object without a kind is hidden (System.privacyClass, verified under C13)
                           "forall('Ref[Documentable]', lambda x: implies(visible(x), x.kind is not None))"],
                 raises={},
                 loops={0: Loop(index='i', modifies=['violations', 'once_msgs', 'needsnl'],
                                invariant=['all(visible(undoccedpublic[j]) for j in range(len(undoccedpublic)))'],
                                asserts=["visible(arg_of('taglink', 'o'))", "arg_of('taglink', 'page_url') == 'undoccedSummary.html'"])})
