"""C07 sidecar contracts: the decision to move a re-exported object, and the move itself (shared with C02)."""
from pyvc.contracts import Loop
import contracts.c02 as c02
from contracts.shapes import register_builder_shapes

A = 'pydoctor/astbuilder.py'
M = 'pydoctor/model.py'
SPECS = ['c02']
ASSUMPTIONS = c02.ASSUMPTIONS + [
    "multi-step expandName, the linker's fall-backs and 'in every reachable order' (schedules) are not carried by contracts",
    'Documentable.resolveName is an assumed pure query',
]


def register(reg):
    c02.register(reg)
    reg.pid = 'C07'
    for c in reg.contracts.values():
        c.pid = 'C07'
    register_builder_shapes(reg)
    reg.shape('ModuleVistor', {'builder': 'Ref[ASTBuilder]', 'system': 'Ref[System]'})
    reg.shapes['Module'].fields.update({'all': 'Opt[Set[Str]]'})      # only membership in __all__ matters here
    # lookup by a possibly outdated name: the registry first, then the alias left behind by a move (System.find_object)
    reg.contract(M, 'Documentable.expandName', params={'name': 'Str'}, returns='Str', pure=True, raises={}, assumed=True,
                 reads=['name', 'parent', 'contents', '_localNameToFullName_map', 'allobjects'], source='name expansion (C04, native harness)')
    reg.contract(M, 'System.objForFullName', params={'fullName': 'Str'}, returns='RefN[Documentable]', pure=True, raises={}, assumed=True,
                 reads=['allobjects'], ensures=['result == self.allobjects.get(fullName)'], source='self.allobjects.get(fullName)')
    # verified against the spec functions found / lookup_fails (specs/c02.py): registry first; a name whose first part is none of
    # our roots is external (None); otherwise the alias in the first root of that name decides - found, or LookupError
    reg.contract(M, 'System.find_object', params={'full_name': 'Str'}, returns='RefN[Documentable]', pure=True,
                 reads=['name', 'parent', 'contents', '_localNameToFullName_map', 'allobjects', 'rootobjects'],
                 # every root is registered under its name (C02: System.addObject)
                 requires=['all(r.name in self.allobjects for r in self.rootobjects)'],
                 raises={'LookupError': 'lookup_fails(self, full_name)'}, result_is='found(self, full_name)',
                 ensures=['not lookup_fails(self, full_name)',        # it returns exactly when it does not raise
                          'result == found(self, full_name)'],
                 loops={0: Loop(index='i', invariant=['first_root(self, name_parts[0], 0) == first_root(self, name_parts[0], i)'])})
    EXP = 'self.system.objForFullName(self.expandName(name))'
    reg.contract(M, 'Documentable.resolveName', params={'name': 'Str'}, returns='RefN[Documentable]', pure=True,
                 reads=['name', 'parent', 'contents', '_localNameToFullName_map', 'allobjects', 'rootobjects', 'system'], raises={},
                 requires=['all(r.name in self.system.allobjects for r in self.system.rootobjects)'],
                 ensures=[f'implies({EXP} is not None, result == {EXP})',
                          # the *expanded* name is what is looked up through the aliases
                          f'implies({EXP} is None and not lookup_fails(self.system, self.expandName(name)), result == found(self.system, self.expandName(name)))',
                          f'implies({EXP} is None and lookup_fails(self.system, self.expandName(name)), result is None)'])
    reg.contract(M, 'Documentable.report', params={'descr': 'Str', 'section': 'Str', 'lineno_offset': 'Int', 'thresh': 'Int'},
                 raises={}, modifies=['violations', 'once_msgs', 'needsnl'], assumed=True, source='verified under C16')
    reg.contract(M, 'System.msg', params={'section': 'Str', 'msg': 'Str', 'thresh': 'Int', 'topthresh': 'Int', 'nonl': 'Bool',
                                          'wantsnl': 'Bool', 'once': 'Bool'},
                 modifies=['violations', 'once_msgs', 'needsnl'], raises={}, assumed=True, source='verified under C16')
    # in this registry the callers of reparent see only the precondition they can establish locally; the full contract is
    # verified under C02 (same body)
    reg.contracts.pop((M, 'Documentable.fullName'))
    reg.contract(M, 'Documentable.fullName', returns='Str', pure=True, reads=['name', 'parent'], raises={}, result_is='fn_spec(self)',
                 assumed=True, source='verified under C02 (there with the tree precondition)')
    full = reg.contracts.pop((M, 'Documentable.reparent'))
    reg.contract(M, 'Documentable.reparent', params={'new_parent': 'Ref[Module]', 'new_name': 'Str'}, assumed=True,
                 requires=['self.parent is not None', 'isinstance(self.parent, CanContainImportsDocumentable)'],
                 modifies=full.modifies, raises={'KeyError': 'True'}, ensures=['self.parent == new_parent', 'self.name == new_name'],
                 source='verified against its full contract under C02; here: what _handleReExport must establish')

    OB = ('(origin_module.contents[origin_name] if origin_name in origin_module.contents '
          'else origin_module.resolveName(origin_name))')
    MOVE = (f'(as_name in curr_mod_exports and {OB} is not None and isinstance({OB}.parent, CanContainImportsDocumentable) and '
            # (C02: modules sit only in packages - a plain module re-exporting a module leaves it where its file is)
            f'(not isinstance({OB}, Module) or isinstance(self.builder.current, Package)) and '
            '(origin_module.all is None or origin_name not in origin_module.all))')
    reg.contract(A, 'ModuleVistor._handleReExport',
                 params={'curr_mod_exports': 'Set[Str]', 'origin_name': 'Str', 'as_name': 'Str', 'origin_module': 'Ref[Module]'},
                 returns='Bool', requires=['self.builder.current is not None',
                                           # every root is registered under its name (C02: System.addObject)
                                           'all(r.name in origin_module.system.allobjects for r in origin_module.system.rootobjects)'],
                 modifies=full.modifies,
                 raises={'KeyError': 'True', 'AssertionError': 'not isinstance(self.builder.current, Module)'},
                 ensures=[
                     # moved exactly when the name is exported here, resolves, and is not exported by its own module
                     f'result == old({MOVE})',
                     'implies(result, old(as_name in curr_mod_exports))',
                     f'implies(result, old({OB} is not None))',
                     f'implies(result, old(isinstance({OB}.parent, CanContainImportsDocumentable)))',
                     'implies(result, old(origin_module.all is None or origin_name not in origin_module.all))',
                     f'implies(result and old(isinstance({OB}, Module)), old(isinstance(self.builder.current, Package)))',
                     "called('Documentable.reparent') == result",
                     # ... under the re-exporting module and the exported name
                     "implies(result, arg_of('Documentable.reparent', 'new_parent') == old(self.builder.current) and "
                     "arg_of('Documentable.reparent', 'new_name') == as_name and "
                     f"arg_of('Documentable.reparent', 'self') == old({OB}))"])
    reg.contract(A, 'ModuleVistor._getCurrentModuleExports', returns='Set[Str]', raises={},
                 requires=['self.builder.current is not None'],
                 # names imported inside classes or functions are never exported; no __all__ means nothing is exported
                 ensures=["forall('Str', lambda k: (k in result) == (isinstance(self.builder.current, Module) and "
                          "self.builder.current.all is not None and k in self.builder.current.all))"])
