"""C17 sidecar contracts: pydoctor/sphinx.py (reader robustness, writer line format, round trip)."""
from pyvc.contracts import Loop
from contracts.shapes import register_shapes, assume_model_queries

F = 'pydoctor/sphinx.py'

ASSUMPTIONS = [
    "Sphinx's own reader (sphinx.util.inventory) is external: the round trip is proved for pydoctor's reader only",
    'zlib.compress/decompress and utf-8 encode/decode are inverse (CPython)',
    'the logger callable passed to SphinxInventory does not raise',
    'exception *messages* (%-formatting of str arguments) cannot raise',
]


def register(reg):
    reg.pid = 'C17'
    register_shapes(reg)
    assume_model_queries(reg)
    reg.ghosts['errors'] = 'Int'       # number of error reports sent to the logger (thresh=-1)

    # ---- string-library facts (assumptions; bounded-validated natively on every run) -----------------
    reg.axiom('split_cons', "implies(' ' not in a, (a + ' ' + b).split(' ') == [a] + b.split(' '))",
              {'a': 'Str', 'b': 'Str'}, source='CPython str.split')
    reg.axiom('split_one', "implies(' ' not in a, a.split(' ') == [a])", {'a': 'Str'}, source='CPython str.split')
    reg.axiom('join_one', "' '.join([a]) == a", {'a': 'Str'}, source='CPython str.join')
    reg.axiom('int_lit_shape', "implies(is_int_literal(a), re_match('\\\\s*[+-]?[0-9][0-9_]*\\\\s*', a))",
              {'a': 'Str'}, source='CPython int(): ASCII subset of the accepted numerals (necessary condition)')
    reg.axiom('int_lit_minus1', "is_int_literal('-1') and int_of('-1') == -1", {}, source='CPython int()')

    # ---- external callees ---------------------------------------------------------------------------------
    reg.assume_ext('<param>CallableLogger', params={'fn': 'Obj[CallableLogger]', 'where': 'Str', 'message': 'Str',
                                                     'thresh': 'Int'},
                   modifies=['errors'], raises={},
                   ensures=['errors == old(errors) + (1 if thresh < 0 else 0)'],
                   source='callers pass System.msg; assumed not to raise')
    reg.assume_ext('zlib.decompress', params={'data': 'Bytes'}, returns='Bytes', pure=True,
                   raises={'zlib.error': 'True'}, source='CPython docs: zlib.error on invalid data')
    reg.assume_ext('<CacheT>.get', params={'cache': 'Obj[CacheT]', 'url': 'Str'}, returns='Opt[Bytes]',
                   raises={}, source="IntersphinxCache.get catches Exception (its own contract, verified below)")

    # ---- reader -------------------------------------------------------------------------------------------
    reg.contract(F, '_parseInventoryLine',
        params={'line': 'Str'},
        returns='Tuple[Str,Str,Int,Str,Str]',
        # a malformed line is survivable: ValueError is the only exception that may escape
        raises={'ValueError': 'not parse_ok(line)'},
        ensures=[
            'parse_ok(line)',
            'result[0] == p_name(line)',
            'result[1] == p_type(line)',
            'result[2] == p_prio(line)',
            'result[3] == p_loc(line)',
            'result[4] == p_disp(line)',
        ],
        loops={0: Loop(invariant=['prio_idx >= 2', 'first_int(parts, prio_idx) == first_int(parts, 2)'],
                       decreases='len(parts) - prio_idx + 1')},
        replay='replay.c17:parse_line')

    reg.contract(F, 'SphinxInventory.error', params={'where': 'Str', 'message': 'Str'},
                 modifies=['errors'], raises={}, ensures=['errors == old(errors) + 1'])

    reg.contract(F, 'SphinxInventory._parseInventory',
        params={'base_url': 'Str', 'payload': 'Str'},
        returns='Map[Str,Tuple[Str,Str]]',
        locals={'result': 'Map[Str,Tuple[Str,Str]]'},
        lets={'lines': 'payload.splitlines()'},
        raises={},                                   # never aborts, whatever the payload
        modifies=['errors'],
        opaque=['parse_ok', 'p_name', 'p_type', 'p_prio', 'p_loc', 'p_disp'],
        ensures=[
            # usable lines in the same file still resolve
            'all(implies(usable(lines[j]), p_name(lines[j]) in result) for j in range(len(lines)))',
            # unusable parts are reported: exactly one report per malformed line
            'errors == old(errors) + n_bad(lines, len(lines))',
        ],
        loops={0: Loop(index='i', modifies=['errors'], invariant=[
            'all(implies(usable(lines[j]), p_name(lines[j]) in result) for j in range(i))',
            'errors == old(errors) + n_bad(lines, i)'])})

    reg.contract(F, 'SphinxInventory._getPayload',
        params={'base_url': 'Str', 'data': 'Bytes'}, returns='Str',
        raises={}, modifies=['errors'],
        ensures=["result == '' or errors == old(errors)"],
        loops={0: Loop(invariant=['True'])})

    reg.contract(F, 'SphinxInventory.update',
        params={'cache': 'Obj[CacheT]', 'url': 'Str'},
        raises={}, modifies=['errors', '_links'],
        ensures=[])

    # ---- writer ---------------------------------------------------------------------------------------------
    reg.axiom('bjoin_snoc', "b''.join(xs + [a]) == b''.join(xs) + a", {'xs': 'Seq[Bytes]', 'a': 'Bytes'},
              source='CPython bytes.join')
    reg.contract(F, 'SphinxInventoryWriter.error', params={'where': 'Str', 'message': 'Str'},
                 modifies=['errors'], raises={}, ensures=['errors == old(errors) + 1'])
    reg.contract(F, 'SphinxInventoryWriter._generateLine',
        params={'obj': 'Ref[Documentable]'}, returns='Str', raises={}, modifies=['errors'],
        ensures=['result == inv_line(obj)'])
    reg.contract(F, 'SphinxInventoryWriter._generateContent',
        params={'subjects': 'Seq[Ref[Documentable]]'}, returns='Bytes', raises={}, modifies=['errors'],
        locals={'content': 'Seq[Bytes]'},
        opaque=['inv_line'],
        # exactly one line per visible object, pre-order; nothing for (or below) a hidden object
        ensures=['result == inv_upto(subjects, len(subjects))'],
        loops={0: Loop(index='i', modifies=['errors'],
                       invariant=["b''.join(content) == inv_upto(subjects, i)"],
                       hints=[('bjoin_snoc', {'xs': 'content[:len(content) - 2]', 'a': 'content[len(content) - 2]'}),
                              ('bjoin_snoc', {'xs': 'content[:len(content) - 1]', 'a': 'content[len(content) - 1]'})])},
        )

    # ---- round trip: what the writer emits for one object is read back as that object's entry -------------
    # Step A: the emitted line splits into exactly the five columns.
    reg.lemma('roundtrip_split',
        vars={'fn': 'Str', 'url': 'Str', 'dom': 'Str', 'r1': 'Str', 'r2': 'Str', 'r3': 'Str', 'line': 'Str'},
        hyps=["' ' not in fn", "' ' not in url",
              "dom == 'module' or dom == 'class' or dom == 'function' or dom == 'method' or dom == 'attribute' or dom == 'obj'",
              "r3 == url + ' ' + '-'", "r2 == '-1' + ' ' + r3", "r1 == 'py:' + dom + ' ' + r2", "line == fn + ' ' + r1"],
        hints=[('split_cons', {'a': 'fn', 'b': 'r1'}), ('split_cons', {'a': "'py:' + dom", 'b': 'r2'}),
               ('split_cons', {'a': "'-1'", 'b': 'r3'}), ('split_cons', {'a': 'url', 'b': "'-'"}),
               ('split_one', {'a': "'-'"}), ('int_lit_shape', {'a': "'py:' + dom"})],
        goal=["line.split(' ') == [fn, 'py:' + dom, '-1', url, '-']",
              "not is_int_literal('py:' + dom)"])
    # Step B: a line with those five columns is read back as (fn, url); its hypotheses are step A's conclusions.
    reg.lemma('roundtrip_parse',
        vars={'fn': 'Str', 'url': 'Str', 't': 'Str', 'line': 'Str'},
        hyps=["line.split(' ') == [fn, t, '-1', url, '-']", "not is_int_literal(t)", "t.startswith('py:')"],
        hints=[('join_one', {'a': 'fn'}), ('join_one', {'a': "'-'"}), ('int_lit_minus1', {})],
        goal=["len(line.split(' ')) == 5", "line.split(' ')[1] == t", "line.split(' ')[2] == '-1'",
              "line.split(' ')[3] == url", "first_int(line.split(' '), 2) == 2",
              "parse_ok(line)", "p_name(line) == fn", "p_loc(line) == url", "p_prio(line) == -1", "p_disp(line) == '-'",
              "p_type(line) == t", "usable(line)"])
