"""C17 sidecar contracts: pydoctor/sphinx.py"""
F = 'pydoctor/sphinx.py'


def register(reg):
    reg.pid = 'C17'
    reg.contract(F, '_parseInventoryLine',
        params={'line': 'Str'},
        returns='Tuple[Str,Str,Int,Str,Str]',
        lets={'parts': "line.split(' ')", 'p': "first_int(line.split(' '), 2)"},
        requires=[],
        # a malformed line is survivable: ValueError is the only exception that may escape
        raises={'ValueError': "p + 1 >= len(parts) or ' '.join(parts[p + 2:]) == ''"},
        ensures=[
            "p + 1 < len(parts)",
            "result[0] == ' '.join(parts[:p - 1])",
            "result[1] == parts[p - 1]",
            "result[2] == int_of(parts[p])",
            "result[3] == parts[p + 1]",
            "result[4] == ' '.join(parts[p + 2:])",
            "result[4] != ''",
        ],
        loops={0: __import__('pyvc.contracts', fromlist=['Loop']).Loop(
            invariant=["prio_idx >= 2", "first_int(parts, prio_idx) == first_int(parts, 2)"],
            decreases="len(parts) - prio_idx + 1")},
        replay='replay.c17:parse_line')
