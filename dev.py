import sys, importlib, time, json
sys.path.insert(0, '/verif')
from pyvc.source import SourceIndex
from pyvc.contracts import Registry
from pyvc.verifier import Verifier, load_specs, load_enums
from pyvc.solve import discharge

def run(pid, only=None, timeout=10000):
    src = SourceIndex()
    from pyvc.driver import load_registry
    reg, mod = load_registry(pid)
    load_enums(reg, src)
    from pyvc.driver import load_facts; load_facts(reg)
    v = Verifier(src, reg, pid)
    for key, c in reg.contracts.items():
        if c.assumed or not c.verify: continue
        if only and c.qualname not in only: continue
        rep = v.verify(c)
        print(rep)
    for (lpid, name, vars_, hyps, goal, hints) in reg.lemmas:
        v.prove_lemma(lpid, name, vars_, hyps, goal, hints)
    t0=time.time()
    res = discharge(v.obligations, v.global_axioms, timeout_ms=timeout)
    for ob, r in zip(v.obligations, res):
        print(r['status'], r['backend'], r['time'], ob.name, '|', ob.detail[:70], r.get('model',''), r.get('reason',''), r.get('cvc5',''))
    print('solve', time.time()-t0)
    return v, res

if __name__ == '__main__':
    run(sys.argv[1], sys.argv[2:] or None)
