"""Function-level verification: initial state from the contract, obligations at every exit."""
from __future__ import annotations
import ast
import time
import z3
from .types import *      # noqa
from .values import *     # noqa
from .engine import Engine, FuncCtx
from .stmts import StmtMixin
from .exprs import ExprMixin
from .calls import CallMixin, SpecFn
from .builtins_ import BuiltinMixin


class Verifier(Engine, StmtMixin, ExprMixin, CallMixin, BuiltinMixin):
    def __init__(self, src, reg, pid=''):
        Engine.__init__(self, src, reg, pid)
        self.loop_mod_stack = []
        self.callees_used = set()
        self.cur_inputs = {}
        self.func_reports = {}
        self.cur_opaque = set()
        self._expanding = set()
        self._spec_heap_guard = []
        self._install_axioms()

    # ------------------------------------------------------------------ axioms (assumptions, listed)
    def _install_axioms(self):
        for name, text, vars_, source, quantified in self.reg.axioms:
            if not quantified:
                continue
            st = State()
            qs = []
            for vn, vt in vars_.items():
                ty = parse_type(vt, self.reg.enums)
                c = z3.Const('ax_' + vn, ty.sort())
                st.env[vn] = V(ty, c)
                qs.append(c)
            self.fstack.append(FuncCtx('<axiom>', name, ast.parse('0').body[0], None, None))
            try:
                body = self.ev_spec(text, st)
            finally:
                self.fstack.pop()
            if st.pc:
                body = z3.Implies(z3.And(st.pc), body)
            ax = z3.ForAll(qs, body) if qs else body
            self.global_axioms.append(ax)
            self.assumptions_used['axiom:' + name] = f'axiom {name}: {text}' + (f' [{source}]' if source else '')

    def instantiate(self, hint, st):
        """explicit instance of a registered axiom: (name, {var: spec expression}) -> z3 Bool"""
        if isinstance(hint, str):
            if not hint.strip().startswith('unfold('):
                raise Unsupported('a textual hint must be an unfold(...) of a spec definition')
            return self.ev_spec(hint, st)
        name, binding = hint[0], hint[1]
        if len(hint) > 2 and hint[2] == 'optional':
            # a hint that only makes sense on some paths (e.g. refers to the arguments of a call)
            try:
                return self.instantiate((name, binding), st)
            except Unsupported:
                return z3.BoolVal(True)
        if len(hint) > 2 and hint[2] == 'entry':
            # the axiom is instantiated in the state at the head of the current loop iteration
            ent = st.env.get('$entry')
            if ent is None:
                raise Unsupported('entry-state hint outside a loop')
            o = ent.t
            tmp = st.copy()
            tmp.env = dict(o.env)
            tmp.heap = dict(o.heap)
            tmp.ghost = dict(o.ghost)
            r = self.instantiate((name, binding), tmp)
            st.pc[:] = tmp.pc
            return r
        for an, text, vars_, source, q in self.reg.axioms:
            if an == name:
                break
        else:
            raise Unsupported(f'hint refers to unknown axiom {name}')
        extra = {}
        for vn, vt in vars_.items():
            if vn not in binding:
                raise Unsupported(f'axiom instance {name}: no binding for {vn}')
            ty = parse_type(vt, self.reg.enums)
            extra[vn] = self.coerce(self.ev_spec_val(binding[vn], st), ty, None)
        self.assumptions_used['axiom:' + name] = f'axiom {name}: {text}' + (f' [{source}]' if source else '')
        return self.ev_spec(text, st, extra=extra)

    # ------------------------------------------------------------------ initial state
    def initial_state(self, c, node, cls):
        st = State()
        inputs = {}
        a = node.args
        allp = [x.arg for x in a.posonlyargs + a.args + a.kwonlyargs]
        if a.vararg:
            allp.append(a.vararg.arg)
        if a.kwarg:
            allp.append(a.kwarg.arg)
        if c.region:
            allp = [p for p in allp if p in ('self', 'cls') or p in c.params] + [p for p in c.params if p not in allp]
        for p in allp:
            if p in ('self', 'cls') and p not in c.params:
                if p == 'cls':
                    st.env[p] = V(CLS, cls)
                    continue
                sty = parse_type(c.self_type, self.reg.enums) if c.self_type else TRef(cls.name)
                v = V(sty, z3.Const('self', sty.sort()))
                st.env[p] = v
                st.assume(v.t != null())
                st.assume(self.isinstance_term(v.t, sty.cls))
                inputs['self'] = v.t
                continue
            if p not in c.params:
                raise Unsupported(f'parameter {p} has no type in the sidecar')
            ty = parse_type(c.params[p], self.reg.enums)
            if isinstance(ty, TPy):
                raise Unsupported('python-level parameter')
            v = V(ty, z3.Const(p, ty.sort()))
            st.env[p] = v
            inputs[p] = v.t
            if isinstance(ty, TRef):
                if not ty.nullable:
                    st.assume(v.t != null())
                st.assume(z3.Implies(v.t != null(), self.isinstance_term(v.t, ty.cls)))
        for g, gt in self.reg.ghosts.items():
            ty = parse_type(gt, self.reg.enums)
            st.ghost[g] = V(ty, z3.Const('ghost_' + g, ty.sort()))
        return st, inputs

    # ------------------------------------------------------------------ verify one function
    def verify(self, c):
        """-> report dict; obligations are appended to self.obligations"""
        t0 = time.time()
        rep = {'function': f'{c.file}:{c.qualname}', 'status': 'ok', 'obligations': 0, 'reason': ''}
        node = self.src.function(c.file, c.qualname)
        if node is None:
            rep['status'] = 'undecided'
            rep['reason'] = 'function not found in the source tree (renamed or removed)'
            return rep
        m = self.src.modules[c.file]
        cls = None
        if '.' in c.qualname:
            cls = m.classes.get(c.qualname.rsplit('.', 1)[0])
        first = len(self.obligations)
        self.cur_func_name = f'{c.file[:-3].replace("/", ".")}.{c.qualname}' + (('#' + c.region.get('name', 'region')) if c.region else '')
        if c.region:
            rep['function'] += '#' + c.region.get('name', 'region')
        ctx = FuncCtx(c.file, c.qualname, node, cls, c)
        self.cur_opaque = set(c.opaque)
        self.facts = []
        try:
            st, inputs = self.initial_state(c, node, cls)
            self.cur_inputs = inputs
            self.fstack.append(ctx)
            try:
                for nm, tx in c.lets.items():
                    st.env[nm] = self.ev_spec_val(tx, st)
                for r in c.requires:
                    st.assume(self.ev_spec(r, st))
                for h in c.hints:
                    st.assume(self.instantiate(h, st))
                # vacuity: the precondition must be satisfiable
                rep['pre_sat'] = self.feasible(st)
                if not rep['pre_sat']:
                    rep['status'] = 'vacuous'
                    rep['reason'] = 'precondition unsatisfiable'
                    return rep
                pre = st.snapshot()
                st.old = pre
                for nm, tt in c.locals.items():
                    pass
                self.local_types = {k: parse_type(v, self.reg.enums) for k, v in c.locals.items()}
                body = node.body
                if c.region:
                    body = self.region_statements(node, c.region)
                    rep['region'] = f'L{body[0].lineno}-L{body[-1].end_lineno}: statements of {c.qualname} between the markers; ' \
                                    'everything before/after is outside this obligation set'
                is_gen = any(isinstance(n, (ast.Yield, ast.YieldFrom)) for b_ in body for n in ast.walk(b_))
                if is_gen:
                    gty = parse_type(c.returns, self.reg.enums) if c.returns else None
                    if not isinstance(gty, TSeq):
                        raise Unsupported('generator function: the contract must declare returns Seq[...]')
                    st.env['yielded'] = V(gty, z3.Empty(gty.sort()))
                outs = self.exec_block(body, st)
                npaths = 0
                for o in outs:
                    npaths += 1
                    if o.kind in ('normal', 'return'):
                        val = o.val if o.kind == 'return' else NONE_V
                        if is_gen:
                            val = o.st.env['yielded']          # what the consumer sees: everything that was yielded
                        self.check_post(c, o, val, pre)
                    elif o.kind == 'raise':
                        self.check_raise(c, o, pre)
                    else:
                        raise Unsupported(f'{o.kind} at function level')
                rep['paths'] = npaths
            finally:
                self.fstack.pop()
        except Unsupported as ex:
            del self.obligations[first:]
            rep['status'] = 'undecided'
            rep['reason'] = str(ex)
        except RecursionError:
            del self.obligations[first:]
            rep['status'] = 'undecided'
            rep['reason'] = 'recursion limit in the generator'
        rep['obligations'] = len(self.obligations) - first
        rep['gen_s'] = round(time.time() - t0, 3)
        if rep['status'] == 'ok' and rep['obligations'] == 0:
            rep['status'] = 'vacuous'
            rep['reason'] = 'no obligations generated'
        return rep

    def region_statements(self, node, region):
        """mechanical extraction of a statement range of the real function body (re-located on every run by
        the marker texts, so that edits elsewhere in the function do not matter)"""
        src = self.src.modules[self.fstack[-1].relpath].text.splitlines()

        def text(s_):
            return '\n'.join(src[s_.lineno - 1:s_.end_lineno])
        start = end = None
        for i, s_ in enumerate(node.body):
            if start is None and region['start'] in text(s_):
                start = i
            elif start is not None and region['end'] in text(s_):
                end = i
                break
        if start is not None and end is None and region['end'].startswith('\x00'):
            end = len(node.body)          # the region runs to the end of the function
        if start is None or end is None:
            raise Unsupported('region markers not found in the function body')
        return node.body[start:end]

    def check_post(self, c, o, val, pre):
        st = o.st
        line = o.line or 0
        rty = parse_type(c.returns, self.reg.enums) if c.returns else None
        if rty is not None and rty is not NONE:
            try:
                val = self.coerce(val, rty, st)
            except Unsupported:
                raise Unsupported(f'return value of type {val.ty} does not fit declared {rty}')
        st.env = dict(st.env)
        st.env['result'] = val
        # parameters in `ensures` refer to their entry values (Python rebinding is local)
        for k, v in pre.env.items():
            st.env.setdefault(k, v)
        st = self.exit_steps(c, st, pre, line)
        for k, en in enumerate(c.ensures):
            g = self.ev_spec(en, st, old=pre)
            self.oblige('post', st, g, line, en, tag=f'#{k}')
        if not c.ensures:
            # exception-freedom contracts still record that the path returns normally
            self.oblige('returns', st, z3.BoolVal(True), line, 'normal return (no functional postcondition)')

    def exit_steps(self, c, st, pre, line):
        for k, a in enumerate(c.exit_asserts):
            try:
                g = self.ev_spec(a, st, old=pre)
            except Unsupported:
                continue
            self.oblige('exit-assert', st, g, line, a, tag=f'#{k}')
            st = st.copy().assume(g)
        for h in c.exit_hints:
            st.assume(self.instantiate(h, st))
        return st

    def check_raise(self, c, o, pre):
        st = o.st
        if c.raises is None:
            return
        goals = []
        st = self.exit_steps(c, st, pre, o.line)
        for ename, cond_tx in c.raises.items():
            st.env = dict(st.env)
            for k, v in pre.env.items():
                st.env.setdefault(k, v)
            cnd = self.ev_spec(cond_tx, st, old=pre)
            base = ename[4:] if ename.startswith('any:') else ename
            goals.append(z3.And(self.exc_is(o.val.t, base), cnd))
        goal = z3.Or(goals) if goals else z3.BoolVal(False)
        self.oblige('raises-only', st, goal, o.line, f'escaping exception ({o.why}) must be one of {sorted(c.raises)}')

    # ------------------------------------------------------------------ lemmas over specs/contracts
    def prove_lemma(self, pid, name, vars_, hyps, goal, hints=(), opaque=()):
        st = State()
        self.cur_opaque = set(opaque)
        self.facts = []
        self.cur_func_name = f'lemma.{name}'
        self.cur_inputs = {}
        for vn, vt in vars_.items():
            ty = parse_type(vt, self.reg.enums)
            c = z3.Const(vn, ty.sort())
            st.env[vn] = V(ty, c)
            self.cur_inputs[vn] = c
        self.fstack.append(FuncCtx('<lemma>', name, ast.parse('0').body[0], None, None))
        try:
            for h in list(hyps):
                st.assume(self.ev_spec(h, st))
            for h in hints:
                st.assume(self.instantiate(h, st))
            # a list of goals is a proof in steps: each step is proved with the earlier ones as hypotheses
            goals = goal if isinstance(goal, (list, tuple)) else [goal]
            for k, gt in enumerate(goals):
                g = self.ev_spec(gt, st)
                self.oblige('lemma', st, g, 0, gt, tag=f'#{k}')
                st = st.copy().assume(g)
        finally:
            self.fstack.pop()

    # locals declared in the sidecar: empty literals take their declared type
    def x_Assign(self, s, st):
        lt = getattr(self, 'local_types', {})
        if len(s.targets) == 1 and isinstance(s.targets[0], ast.Name) and s.targets[0].id in lt \
                and self.inline_depth == 0:
            return self._typed_assign(s.targets[0].id, s.value, st)
        return StmtMixin.x_Assign(self, s, st)

    def x_AnnAssign(self, s, st):
        lt = getattr(self, 'local_types', {})
        if s.value is not None and isinstance(s.target, ast.Name) and s.target.id in lt and self.inline_depth == 0:
            return self._typed_assign(s.target.id, s.value, st)
        return StmtMixin.x_AnnAssign(self, s, st)

    def _typed_assign(self, name, value, st):
        outs = []
        ty = self.local_types[name]
        for st2, v in self.ev(value, st, outs):
            if isinstance(v.ty, TPy) and v.ty.kind == 'emptydict':
                if isinstance(ty, TMap):
                    v = V(ty, z3.K(ty.k.sort(), ty.vopt.none()))
                else:
                    raise Unsupported('{} for a non-map local')
            if isinstance(ty, TRef) and isinstance(v.ty, TSeq) and self.field_ty(ty.cls, '__items__') is not None:
                # a list literal bound to a local declared as a list *object* (it is handed to callees that mutate it)
                ity = self.field_ty(ty.cls, '__items__')
                r = fresh(TRef(ty.cls), 'new_' + ty.cls)
                alloc = st2.ghost.get('$alloc')
                if alloc is None:
                    alloc = V(TSet(r.ty), z3.Const('alloc0', z3.ArraySort(RefSort(), z3.BoolSort())))
                st2.assume(z3.Not(z3.Select(alloc.t, r.t)))
                st2.assume(r.t != null())
                st2.assume(self.typeof(r.t) == self.cls_code(ty.cls))
                st2.ghost['$alloc'] = V(alloc.ty, z3.Store(alloc.t, r.t, z3.BoolVal(True)))
                self.write_field(st2, r, '__items__', self.coerce(v, ity, st2))
                st2.env[name] = r
                outs.append(Outcome('normal', st2))
                continue
            st2.env[name] = self.coerce(v, ty, st2)
            outs.append(Outcome('normal', st2))
        return outs


def load_specs(reg, path):
    """Register the functions of a spec module (plain Python, type texts as annotations)."""
    import importlib.util
    text = open(path).read()
    tree = ast.parse(text)
    spec = importlib.util.spec_from_file_location('spec_' + str(abs(hash(path))), path)
    mod = importlib.util.module_from_spec(spec)
    try:
        spec.loader.exec_module(mod)
    except Exception:
        mod = None
    for n in tree.body:
        if isinstance(n, ast.FunctionDef):
            decos = [ast.unparse(d) for d in n.decorator_list]
            if not all(isinstance(a.annotation, ast.Constant) for a in n.args.args):
                continue
            if not isinstance(n.returns, ast.Constant):
                continue
            params = [(a.arg, a.annotation.value) for a in n.args.args]
            opaque = 'opaque' in decos
            native = getattr(mod, n.name, None) if mod else None
            sf = SpecFn(n.name, None if opaque else n, params, n.returns.value, opaque, native)
            for d in n.decorator_list:
                if isinstance(d, ast.Call) and isinstance(d.func, ast.Name) and d.func.id == 'reads':
                    sf.reads = [a.value for a in d.args]
            reg.specs[n.name] = sf


def load_enums(reg, src):
    """Enum members are read from the class statements of the source tree (never hard-coded)."""
    for name, members in getattr(reg, 'enum_defs', {}).items():      # enumerations of external singleton classes
        reg.enums[name] = TEnum(name, list(members))
    for name, (relpath, cname) in getattr(reg, 'enums_src', {}).items():
        m = src.modules.get(relpath)
        ci = m.classes.get(cname) if m else None
        if ci is None:
            continue
        members, aliases = [], {}
        for n in ci.node.body:
            if isinstance(n, ast.Assign) and len(n.targets) == 1 and isinstance(n.targets[0], ast.Name):
                t = n.targets[0].id
                if isinstance(n.value, ast.Name) and n.value.id in members:
                    aliases[t] = n.value.id
                elif isinstance(n.value, (ast.Constant, ast.Call)):
                    members.append(t)
        if members:
            te = TEnum(name, members)
            te.aliases = aliases
            reg.enums[name] = te
