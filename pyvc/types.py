"""Type language of pyvc and its mapping to z3 sorts.

Every symbolic value is a pair (type, z3 term).  Types that never reach the
solver (functions, classes, modules, bound methods) carry a Python payload instead.
"""
from __future__ import annotations
import ast
import z3


class Unsupported(Exception):
    """The construct is outside the verified subset: the function is *undecided*."""


class Ty:
    key: str = '?'

    def __eq__(self, other):
        return isinstance(other, Ty) and self.key == other.key

    def __hash__(self):
        return hash(self.key)

    def __repr__(self):
        return self.key

    def sort(self):
        raise Unsupported(f'type {self.key} has no solver sort')


class _Prim(Ty):
    def __init__(self, key, mk):
        self.key = key
        self._mk = mk
        self._s = None

    def sort(self):
        if self._s is None:
            self._s = self._mk()
        return self._s


INT = _Prim('Int', z3.IntSort)
BOOL = _Prim('Bool', z3.BoolSort)
STR = _Prim('Str', z3.StringSort)
EXC = _Prim('Exc', z3.IntSort)          # exception class code
CLSV = _Prim('ClsV', z3.IntSort)        # class object as a value (class code)


class _NoneT(Ty):
    key = 'None'

    def sort(self):
        raise Unsupported('None has no sort of its own; coerce to Opt[T] or Ref')


NONE = _NoneT()

_RefSort = None


def RefSort():
    global _RefSort
    if _RefSort is None:
        _RefSort = z3.DeclareSort('Ref')
    return _RefSort


def null():
    return z3.Const('null', RefSort())


class TRef(Ty):
    def __init__(self, cls, nullable=False):
        self.cls = cls
        self.nullable = nullable
        self.key = f'Ref[{cls}]' + ('?' if nullable else '')

    def sort(self):
        return RefSort()

    def __eq__(self, other):      # refs of any class share a sort; compare class only loosely
        return isinstance(other, TRef) and self.cls == other.cls and self.nullable == other.nullable

    __hash__ = Ty.__hash__


class TObj(Ty):
    """Opaque uninterpreted sort (stan tags, ast nodes we do not look into ...)."""
    _sorts = {}

    def __init__(self, name):
        self.name = name
        self.key = f'Obj[{name}]'

    def sort(self):
        if self.name not in TObj._sorts:
            TObj._sorts[self.name] = z3.DeclareSort('Obj_' + self.name)
        return TObj._sorts[self.name]


class TSeq(Ty):
    def __init__(self, elem):
        self.elem = elem
        self.key = f'Seq[{elem.key}]'

    def sort(self):
        return z3.SeqSort(self.elem.sort())


BYTES = TSeq(INT)
BYTES.key = 'Seq[Int]'

_dt_cache = {}


def _san(k):
    return ''.join(c if c.isalnum() else '_' for c in k)


class TTuple(Ty):
    def __init__(self, elems):
        self.elems = tuple(elems)
        self.key = 'Tuple[' + ','.join(e.key for e in self.elems) + ']'

    def _dt(self):
        if self.key not in _dt_cache:
            name = 'T_' + _san(self.key)
            if len(self.elems) == 0:
                dt = z3.Datatype(name)
                dt.declare('mk_' + name)
                dt = dt.create()
                _dt_cache[self.key] = (dt, getattr(dt, 'mk_' + name), [])
            else:
                s, mk, acc = z3.TupleSort(name, [e.sort() for e in self.elems])
                _dt_cache[self.key] = (s, mk, acc)
        return _dt_cache[self.key]

    def sort(self):
        return self._dt()[0]

    def mk(self, terms):
        d = self._dt()
        if not self.elems:
            return d[1]
        return d[1](*terms)

    def get(self, term, i):
        return self._dt()[2][i](term)


class TOpt(Ty):
    def __init__(self, inner):
        if isinstance(inner, (TOpt, _NoneT)):
            raise Unsupported('nested Opt')
        self.inner = inner
        self.key = f'Opt[{inner.key}]'

    def _dt(self):
        if self.key not in _dt_cache:
            k = _san(self.key)
            dt = z3.Datatype('O_' + k)
            dt.declare('none_' + k)
            dt.declare('some_' + k, ('val_' + k, self.inner.sort()))
            _dt_cache[self.key] = dt.create()
        return _dt_cache[self.key]

    def _a(self, what):
        return getattr(self._dt(), what + '_' + _san(self.key))

    def sort(self):
        return self._dt()

    def none(self):
        return self._a('none')

    def some(self, t):
        return self._a('some')(t)

    def is_none(self, t):
        return self._a('is_none')(t)

    def is_some(self, t):
        return self._a('is_some')(t)

    def val(self, t):
        return self._a('val')(t)


class TEnum(Ty):
    _cache = {}

    def __init__(self, name, members):
        self.name = name
        self.members = tuple(members)
        self.key = f'Enum[{name}]'

    def _es(self):
        if self.name not in TEnum._cache:
            TEnum._cache[self.name] = z3.EnumSort('E_' + self.name, list(self.members))
        return TEnum._cache[self.name]

    def sort(self):
        return self._es()[0]

    aliases = None

    def member(self, m):
        if self.aliases and m in self.aliases:
            m = self.aliases[m]
        return self._es()[1][self.members.index(m)]


class TMap(Ty):
    """dict: array K -> Opt[V]; insertion order is tracked only when a contract asks (ghost)."""

    def __init__(self, k, v, total=False):
        self.k = k
        self.v = v
        self.vopt = TOpt(v)
        self.total = total        # collections.defaultdict: reading a missing key yields the (empty) default
        self.key = f'{"DefaultMap" if total else "Map"}[{k.key},{v.key}]'

    def sort(self):
        return z3.ArraySort(self.k.sort(), self.vopt.sort())


class TSet(Ty):
    def __init__(self, elem):
        self.elem = elem
        self.key = f'Set[{elem.key}]'

    def sort(self):
        return z3.ArraySort(self.elem.sort(), z3.BoolSort())


class TPy(Ty):
    """Python-side value (closure, function, class, module, bound method, range ...)."""

    def __init__(self, kind):
        self.kind = kind
        self.key = f'Py[{kind}]'


FUN = TPy('fun')
CLS = TPy('class')
MOD = TPy('module')
BOUND = TPy('bound')
RANGE = TPy('range')
ITER = TPy('iter')


def parse_type(s, enums=None):
    """'Seq[Tuple[Str,Int]]' -> Ty."""
    if isinstance(s, Ty):
        return s
    node = ast.parse(s, mode='eval').body
    return _pt(node, enums or {})


def _pt(n, enums):
    if isinstance(n, ast.Name):
        k = n.id
        if k == 'Int':
            return INT
        if k == 'Bool':
            return BOOL
        if k == 'Str':
            return STR
        if k == 'Bytes':
            return BYTES
        if k == 'NoneT':
            return NONE
        if k == 'Exc':
            return EXC
        if k == 'ClsV':
            return CLSV
        if k in enums:
            return enums[k]
        raise Unsupported(f'unknown type name {k}')
    if isinstance(n, ast.Constant) and n.value is None:
        return NONE
    if isinstance(n, ast.Subscript):
        head = n.value.id
        sl = n.slice
        args = list(sl.elts) if isinstance(sl, ast.Tuple) else [sl]
        if head == 'Seq':
            return TSeq(_pt(args[0], enums))
        if head == 'Opt':
            return TOpt(_pt(args[0], enums))
        if head == 'Tuple':
            return TTuple([_pt(a, enums) for a in args])
        if head == 'Map':
            return TMap(_pt(args[0], enums), _pt(args[1], enums))
        if head == 'DefaultMap':
            return TMap(_pt(args[0], enums), _pt(args[1], enums), total=True)
        if head == 'Set':
            return TSet(_pt(args[0], enums))
        if head == 'Ref':
            return TRef(args[0].id)
        if head == 'RefN':
            return TRef(args[0].id, nullable=True)
        if head == 'Obj':
            return TObj(args[0].id)
        if head == 'Enum':
            return enums[args[0].id]
    raise Unsupported(f'bad type {ast.dump(n)}')
