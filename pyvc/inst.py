"""Goal skolemisation and ground instantiation of index-quantified hypotheses.

z3 rewrites seq.nth internally, so E-matching patterns over sequence indexing are unreliable.  Both steps
below are sound strengthenings of the *proof attempt* (never of the claim): a universally quantified goal is
proved for fresh constants, and instances of hypotheses at ground index terms are logical consequences."""
from __future__ import annotations
import itertools
import z3

_cnt = itertools.count()


def _skolem(goal):
    """-> (goal', [skolem consts]) for goals of the shapes  ForAll x. P | Not(Exists x. P) | Implies(A, <those>)"""
    consts = []

    def sk(g):
        if z3.is_quantifier(g) and g.is_forall():
            vs = [z3.Const(f'sk!{g.var_name(i)}!{next(_cnt)}', g.var_sort(i)) for i in range(g.num_vars())]
            consts.extend(vs)
            body = z3.substitute_vars(g.body(), *reversed(vs))
            return sk(body)
        if z3.is_not(g) and z3.is_quantifier(g.arg(0)) and g.arg(0).is_exists():
            q = g.arg(0)
            vs = [z3.Const(f'sk!{q.var_name(i)}!{next(_cnt)}', q.var_sort(i)) for i in range(q.num_vars())]
            consts.extend(vs)
            body = z3.substitute_vars(q.body(), *reversed(vs))
            return z3.Not(body)
        if z3.is_implies(g):
            return z3.Implies(g.arg(0), sk(g.arg(1)))
        return g
    return sk(goal), consts


def _index_terms(es, limit=12):
    seen, out = set(), []
    todo = list(es)
    visited = set()
    while todo:
        x = todo.pop()
        if z3.is_quantifier(x):
            continue
        i = x.get_id()
        if i in visited:
            continue
        visited.add(i)
        if z3.is_app(x):
            k = x.decl().kind()
            if k in (z3.Z3_OP_SEQ_NTH, z3.Z3_OP_SEQ_AT) or x.decl().name() in ('seq.nth_i', 'seq.nth_u'):
                t = x.arg(1)
                if not _has_var(t) and t.get_id() not in seen:
                    seen.add(t.get_id())
                    out.append(t)
            todo.extend(x.children())
    return out[:limit]


def _has_var(t):
    todo = [t]
    while todo:
        x = todo.pop()
        if z3.is_var(x):
            return True
        if z3.is_app(x):
            todo.extend(x.children())
    return False


def _nth_concat_lemmas(es, limit=24):
    """instances of the sequence theorem  nth(a ++ b, t) = nth(a, t) if t < |a| else nth(b, t - |a|)"""
    out, seen = [], set()
    todo = list(es)
    visited = set()
    while todo and len(out) < limit:
        x = todo.pop()
        if z3.is_quantifier(x):
            continue
        i = x.get_id()
        if i in visited:
            continue
        visited.add(i)
        if z3.is_app(x):
            if x.decl().kind() == z3.Z3_OP_SEQ_NTH and z3.is_app(x.arg(0)) and x.arg(0).decl().kind() == z3.Z3_OP_SEQ_CONCAT \
                    and not _has_var(x) and i not in seen:
                seen.add(i)
                parts = x.arg(0).children()
                t = x.arg(1)
                off = z3.IntVal(0)
                for p in parts:
                    n = z3.Length(p)
                    out.append(z3.Implies(z3.And(t >= off, t < off + n), x == p[t - off]))
                    off = off + n
            todo.extend(x.children())
    return out


def _member_atoms(es, limit=8):
    """ground atoms  seq.contains(S, seq.unit(e))"""
    out, seen = [], set()
    todo = list(es)
    visited = set()
    while todo and len(out) < limit:
        x = todo.pop()
        if z3.is_quantifier(x):
            continue
        i = x.get_id()
        if i in visited:
            continue
        visited.add(i)
        if z3.is_app(x):
            if x.decl().kind() == z3.Z3_OP_SEQ_CONTAINS and z3.is_app(x.arg(1)) and x.arg(1).decl().kind() == z3.Z3_OP_SEQ_UNIT \
                    and not _has_var(x) and i not in seen:
                seen.add(i)
                out.append(x)
            todo.extend(x.children())
    return out


def _membership(es, hyps, rounds=2):
    """(1) a member has a position: contains(S, unit(e)) => 0 <= w < |S| and S[w] = e for a fresh constant w (skolemised
    existential, a conservative extension); (2) hypotheses quantified over an element are instantiated at the elements whose
    membership is in question.  -> (extra facts, witness index terms)"""
    extra, wits = [], []
    done_atoms, done_inst = set(), set()
    pool = list(es)
    for _ in range(rounds):
        atoms = [a for a in _member_atoms(pool) if a.get_id() not in done_atoms]
        if not atoms:
            break
        new = []
        for a in atoms:
            done_atoms.add(a.get_id())
            S, e = a.arg(0), a.arg(1).arg(0)
            w = z3.Int(f'mw!{next(_cnt)}')
            wits.append(w)
            new.append(z3.Implies(a, z3.And(w >= 0, w < z3.Length(S), S[w] == e)))
            for h in hyps:
                if z3.is_quantifier(h) and h.is_forall() and h.num_vars() == 1 and h.var_sort(0) == e.sort():
                    key = (h.get_id(), e.get_id())
                    if key not in done_inst:
                        done_inst.add(key)
                        new.append(z3.substitute_vars(h.body(), e))
        extra.extend(new)
        pool = new
    return extra, wits


def _element_terms(es, sort, limit=8):
    """ground terms of `sort` that occur as seq.unit(e) or as the index of a select on a Bool-valued array (a set membership)"""
    out, seen = [], set()
    todo = list(es)
    visited = set()
    while todo and len(out) < limit:
        x = todo.pop()
        if z3.is_quantifier(x):
            continue
        i = x.get_id()
        if i in visited:
            continue
        visited.add(i)
        if z3.is_app(x):
            e = None
            if x.decl().kind() == z3.Z3_OP_SEQ_UNIT:
                e = x.arg(0)
            elif x.decl().kind() == z3.Z3_OP_SELECT and x.sort() == z3.BoolSort():
                e = x.arg(1)
            if e is not None and e.sort() == sort and not _has_var(e) and e.get_id() not in seen:
                seen.add(e.get_id())
                out.append(e)
            todo.extend(x.children())
    return out


def strengthen(hyps, goal, max_inst=200):
    hyps = list(hyps)
    pre = len(hyps)
    while z3.is_implies(goal):          # A => B as goal: assume A, prove B (its quantified parts can then be instantiated)
        a = goal.arg(0)
        if z3.is_not(a) and z3.is_quantifier(a.arg(0)) and a.arg(0).is_forall():
            # not (forall x. P): a counterexample exists - name it, so that hypotheses can be instantiated at it
            q = a.arg(0)
            vs = [z3.Const(f'sk!{q.var_name(i)}!{next(_cnt)}', q.var_sort(i)) for i in range(q.num_vars())]
            a = z3.Not(z3.substitute_vars(q.body(), *reversed(vs)))
        hyps.append(a)
        goal = goal.arg(1)
    goal2, sks = _skolem(goal)
    terms = [s for s in sks if s.sort() == z3.IntSort()]
    terms += [t for t in _index_terms([goal2] + [h for h in hyps if not z3.is_quantifier(h)]) if all(not z3.eq(t, u) for u in terms)]
    extra = []
    extra.extend(_nth_concat_lemmas([goal2] + [h for h in hyps if not z3.is_quantifier(h)]))
    mem, wits = _membership([goal2] + [h for h in hyps if not z3.is_quantifier(h)], hyps)
    extra.extend(mem)
    terms += wits
    if terms:
        for h in hyps:
            if len(extra) >= max_inst:
                break
            if z3.is_quantifier(h) and h.is_forall() and h.num_vars() == 1 and h.var_sort(0) == z3.IntSort():
                for t in terms[:8]:
                    inst = z3.substitute_vars(h.body(), t)
                    extra.append(inst)
                    # one more level: Implies(range, ForAll b. ...) (pairwise facts such as distinctness)
                    inner = inst.arg(1) if z3.is_implies(inst) else inst
                    if z3.is_quantifier(inner) and inner.is_forall() and inner.num_vars() == 1 \
                            and inner.var_sort(0) == z3.IntSort():
                        for u in terms[:8]:
                            b2 = z3.substitute_vars(inner.body(), u)
                            extra.append(z3.Implies(inst.arg(0), b2) if z3.is_implies(inst) else b2)
    # second round: index terms that only appear in the first-round instances (witness positions)
    if terms:
        terms2 = [t for t in _index_terms(extra, limit=10) if all(not z3.eq(t, u) for u in terms)]
        for h in hyps:
            if len(extra) >= max_inst or not terms2:
                break
            if z3.is_quantifier(h) and h.is_forall() and h.num_vars() == 1 and h.var_sort(0) == z3.IntSort():
                for t in terms2[:6]:
                    extra.append(z3.substitute_vars(h.body(), t))
    # memberships that only appear in the instances (e.g. `L2[sk] in L1` from a subset hypothesis at the goal's index)
    mem2, wits2 = _membership(extra, hyps, rounds=2)
    extra.extend(mem2)
    if wits2:
        for h in hyps:
            if len(extra) >= max_inst + 100:
                break
            if z3.is_quantifier(h) and h.is_forall() and h.num_vars() == 1 and h.var_sort(0) == z3.IntSort():
                for t in wits2[:6]:
                    inst = z3.substitute_vars(h.body(), t)
                    extra.append(inst)
                    inner = inst.arg(1) if z3.is_implies(inst) else inst
                    if z3.is_quantifier(inner) and inner.is_forall() and inner.num_vars() == 1 and inner.var_sort(0) == z3.IntSort():
                        for u in (terms + wits2)[:10]:
                            b2 = z3.substitute_vars(inner.body(), u)
                            extra.append(z3.Implies(inst.arg(0), b2) if z3.is_implies(inst) else b2)
    # hypotheses quantified over an element (Str, Ref ...): instances at the elements whose membership / unit lists occur
    ground = [goal2] + [h for h in hyps if not z3.is_quantifier(h)] + extra
    for h in hyps:
        if len(extra) >= max_inst + 160:
            break
        if z3.is_quantifier(h) and h.is_forall() and h.num_vars() == 1 and h.var_sort(0) != z3.IntSort():
            for e in _element_terms(ground, h.var_sort(0)):
                extra.append(z3.substitute_vars(h.body(), e))
    extra.extend(_nth_concat_lemmas(extra))
    return hyps[pre:] + extra, goal2
