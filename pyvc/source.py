"""Index of the real source tree: re-read from disk on every run.

Nothing here is cached across runs; the verified text is whatever `ast.parse` returns for the
files of $VERIF_REPO (default /repo) at the moment the check starts.
"""
from __future__ import annotations
import ast
import hashlib
import os

REPO = os.environ.get('VERIF_REPO', '/repo')


class ClassInfo:
    def __init__(self, module, qualname, node):
        self.module = module
        self.qualname = qualname
        self.name = node.name
        self.node = node
        self.bases = []           # textual base expressions
        self.methods = {}         # name -> FunctionDef
        self.props = set()
        self.setters = {}         # property name -> setter FunctionDef
        self.classmethods = set()
        self.staticmethods = set()
        self.nested = {}          # name -> ClassInfo
        self.class_attrs = {}     # name -> ast expr
        for b in node.bases:
            try:
                self.bases.append(ast.unparse(b))
            except Exception:
                self.bases.append('?')


class ModuleInfo:
    def __init__(self, relpath, tree, text):
        self.relpath = relpath
        self.tree = tree
        self.text = text
        self.sha = hashlib.sha256(text.encode()).hexdigest()[:16]
        self.functions = {}       # qualname -> FunctionDef (top-level, methods 'C.m', nested 'f.<locals>.g' not indexed)
        self.classes = {}         # qualname -> ClassInfo
        self.imports = {}         # local name -> dotted target
        self.globals = {}         # name -> ast expr (simple module-level assignments)
        self._index(tree.body, '', None)

    def _index(self, body, prefix, cls):
        for n in body:
            if isinstance(n, (ast.FunctionDef, ast.AsyncFunctionDef)):
                q = prefix + n.name
                # keep the last definition of a name, like Python does -- except that a
                # property setter/deleter does not replace the getter for our purposes
                decos = [ast.unparse(d) for d in n.decorator_list]
                if any(d.endswith('.setter') or d.endswith('.deleter') for d in decos):
                    if cls is not None and any(d.endswith('.setter') for d in decos):
                        cls.setters[n.name] = n
                    continue
                if any(d.endswith('overload') for d in decos):
                    continue
                self.functions[q] = n
                if cls is not None:
                    cls.methods[n.name] = n
                    if 'property' in decos or any(d.endswith('cached_property') for d in decos):
                        cls.props.add(n.name)
                    if 'classmethod' in decos:
                        cls.classmethods.add(n.name)
                    if 'staticmethod' in decos:
                        cls.staticmethods.add(n.name)
            elif isinstance(n, ast.ClassDef):
                q = prefix + n.name
                ci = ClassInfo(self, q, n)
                self.classes[q] = ci
                if cls is not None:
                    cls.nested[n.name] = ci
                self._index(n.body, q + '.', ci)
            elif isinstance(n, ast.Import) and cls is None:
                for a in n.names:
                    if a.asname:
                        self.imports[a.asname] = a.name
                    else:
                        self.imports[a.name.split('.')[0]] = a.name.split('.')[0]
            elif isinstance(n, ast.ImportFrom) and cls is None:
                mod = n.module or ''
                if n.level:
                    pkg = self.relpath[:-3].replace('/', '.').split('.')
                    if not self.relpath.endswith('__init__.py'):
                        pkg = pkg[:-1]
                    else:
                        pkg = pkg[:-1]
                    pkg = pkg[:len(pkg) - (n.level - 1)]
                    mod = '.'.join(pkg + ([mod] if mod else []))
                for a in n.names:
                    self.imports[a.asname or a.name] = f'{mod}.{a.name}'
            elif isinstance(n, ast.Assign) and len(n.targets) == 1 and isinstance(n.targets[0], ast.Name):
                if cls is None:
                    self.globals[n.targets[0].id] = n.value
                else:
                    cls.class_attrs[n.targets[0].id] = n.value
            elif isinstance(n, ast.AnnAssign) and isinstance(n.target, ast.Name) and n.value is not None:
                if cls is None:
                    self.globals[n.target.id] = n.value
                else:
                    cls.class_attrs[n.target.id] = n.value
            elif isinstance(n, ast.If):
                # `if TYPE_CHECKING:` / version branches: index the else-branch only (running 3.12)
                t = ast.unparse(n.test)
                if 'TYPE_CHECKING' in t:
                    self._index(n.orelse, prefix, cls)
                elif 'sys.version_info' in t:
                    pass
                else:
                    self._index(n.body, prefix, cls)
                    self._index(n.orelse, prefix, cls)
            elif isinstance(n, ast.Try):
                self._index(n.body, prefix, cls)


class SourceIndex:
    def __init__(self, repo=None):
        self.repo = repo or REPO
        self.modules = {}         # relpath -> ModuleInfo
        root = os.path.join(self.repo, 'pydoctor')
        for dp, dn, fn in os.walk(root):
            dn[:] = [d for d in dn if d not in ('test', '__pycache__', 'themes')]
            for f in fn:
                if f.endswith('.py'):
                    p = os.path.join(dp, f)
                    rel = os.path.relpath(p, self.repo)
                    try:
                        text = open(p, encoding='utf-8').read()
                        tree = ast.parse(text)
                    except (SyntaxError, ValueError, OSError):
                        continue
                    self.modules[rel] = ModuleInfo(rel, tree, text)
        self.by_dotted = {m.relpath[:-3].replace('/', '.').removesuffix('.__init__'): m
                          for m in self.modules.values()}

    def function(self, relpath, qualname):
        m = self.modules.get(relpath)
        if m is None:
            return None
        return m.functions.get(qualname)

    def find_class(self, name, hint_module=None):
        """Find a class by (qualified or simple) name, preferring hint_module."""
        cands = []
        for m in self.modules.values():
            for q, ci in m.classes.items():
                if q == name or q.split('.')[-1] == name:
                    cands.append(ci)
        if hint_module is not None:
            for c in cands:
                if c.module.relpath == hint_module:
                    return c
        exact = [c for c in cands if c.qualname == name]
        if exact:
            return exact[0]
        return cands[0] if cands else None

    def class_mro(self, ci):
        """Linear list of ClassInfo for method lookup (simple DFS linearisation with de-dup;
        the repo classes under contract use single inheritance or mix-ins with disjoint methods)."""
        out, seen = [], set()

        def walk(c):
            if c is None or id(c) in seen:
                return
            seen.add(id(c))
            out.append(c)
            for b in c.bases:
                bn = b.split('[')[0]
                bn = bn.split('.')[-1]
                walk(self.find_class(bn, c.module.relpath))
        walk(ci)
        return out

    def lookup_method(self, ci, name, after=None):
        """-> (ClassInfo, FunctionDef) following the linearisation; `after` = start after this class (super())."""
        mro = self.class_mro(ci)
        if after is not None:
            idx = [i for i, c in enumerate(mro) if c is after]
            mro = mro[idx[0] + 1:] if idx else mro
        for c in mro:
            if name in c.methods:
                return c, c.methods[name]
        return None, None

    def is_subclass(self, ci, base_name):
        return any(c.name == base_name or c.qualname == base_name for c in self.class_mro(ci))

    def subclasses_of(self, base_name):
        out = []
        for m in self.modules.values():
            for ci in m.classes.values():
                if self.is_subclass(ci, base_name):
                    out.append(ci)
        return out
