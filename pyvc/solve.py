"""Discharge obligations: each VC in its own process (16-wide pool), z3 first, cvc5 on unknown."""
from __future__ import annotations
import multiprocessing as mp
import os
import re
import subprocess
import tempfile
import time
import z3


def to_smt2(ob, axioms):
    s = z3.Solver()
    for a in axioms:
        s.add(a)
    for h in getattr(ob, 'facts', []):
        s.add(h)
    for h in ob.hyps:
        s.add(h)
    try:
        from .inst import strengthen
        extra, goal = strengthen(list(ob.hyps), ob.goal)
    except Exception:
        extra, goal = [], ob.goal
    for h in extra:
        s.add(h)
    s.add(z3.Not(goal))
    return s.to_smt2()


def _py(val):
    """z3 model value -> JSON-able Python value"""
    try:
        if z3.is_int_value(val):
            return val.as_long()
        if z3.is_true(val):
            return True
        if z3.is_false(val):
            return False
        if z3.is_string_value(val):
            s = val.as_string()
            return re.sub(r'\\u\{([0-9a-fA-F]+)\}', lambda m: chr(int(m.group(1), 16)), s)
        if z3.is_seq(val):
            k = val.decl().kind()
            if k == z3.Z3_OP_SEQ_EMPTY:
                return []
            if k == z3.Z3_OP_SEQ_UNIT:
                return [_py(val.arg(0))]
            if k == z3.Z3_OP_SEQ_CONCAT:
                out = []
                for c in val.children():
                    out.extend(_py(c))
                return out
        if val.sort().kind() == z3.Z3_DATATYPE_SORT:
            d = val.decl().name()
            if val.num_args() == 0:
                return {'ctor': d}
            return {'ctor': d, 'args': [_py(c) for c in val.children()]}
    except Exception:
        pass
    return str(val)


def _cvc5_text(smt2):
    # seq.nth_i / seq.nth_u are z3-internal names for the in-range / out-of-range cases of seq.nth;
    # (_ f 0) is z3's way of printing applications of recursive definitions
    t = smt2.replace('seq.nth_i', 'seq.nth').replace('seq.nth_u', 'seq.nth')
    t = re.sub(r'\(_ ([A-Za-z_][A-Za-z0-9_!]*) 0\)', r'\1', t)
    # program variables named like theory symbols (a parameter called `mod`): z3 prints them bare, cvc5 rejects the shadowing
    for sym in ('mod', 'div', 'abs'):
        if re.search(r'\(declare-fun %s \(\)' % sym, t):
            t = re.sub(r'(?<![(\w!.$])%s(?![\w!.$])' % sym, sym + '_v', t)
            t = t.replace('(declare-fun %s_v ()' % sym, '(declare-fun %s_v ()' % sym)
    return '(set-logic ALL)\n' + t


def _work(job):
    """z3 (in process) raced against cvc5 (subprocess) on the same VC; first definitive verdict wins.
    `sat` is only taken from z3 (its model is needed); cvc5 contributes `unsat`."""
    name, smt2, timeout_ms, wanted, seed, use_cvc5 = job
    t0 = time.time()
    proc = None
    path = None
    if use_cvc5:
        try:
            with tempfile.NamedTemporaryFile('w', suffix='.smt2', delete=False) as f:
                f.write(_cvc5_text(smt2))
                path = f.name
            proc = subprocess.Popen(['/usr/bin/cvc5', '--lang=smt2', '--strings-exp', f'--tlimit={timeout_ms}', path],
                                    stdout=subprocess.PIPE, stderr=subprocess.PIPE, text=True)
        except Exception:
            proc = None
    res = _z3(name, smt2, timeout_ms, wanted, seed, proc)
    res['time'] = round(time.time() - t0, 3)
    if proc is not None:
        if res['status'] == 'unknown':
            try:
                out, err = proc.communicate(timeout=max(1, timeout_ms / 1000 - (time.time() - t0) + 2))
                verdict = (out.strip().splitlines() or [''])[0].strip()
                if verdict == 'unsat':
                    res = {'name': name, 'backend': 'cvc5', 'status': 'discharged', 'time': round(time.time() - t0, 3),
                           'z3': res.get('reason', '')}
                elif verdict == 'sat':
                    # refuted by the second back end (it answers sat only with a model in hand); no model is translated
                    res = {'name': name, 'backend': 'cvc5', 'status': 'failed', 'time': round(time.time() - t0, 3),
                           'model': {}, 'model_text': 'cvc5: sat (model not translated)', 'z3': res.get('reason', '')}
                else:
                    res['cvc5'] = (verdict or err)[:120]
            except subprocess.TimeoutExpired:
                res['cvc5'] = 'timeout'
        try:
            proc.kill()
            proc.communicate(timeout=2)
        except Exception:
            pass
    if path:
        try:
            os.unlink(path)
        except OSError:
            pass
    return res


def _z3(name, smt2, timeout_ms, wanted, seed, proc):
    try:
        ctx = z3.Context()
        s = z3.Solver(ctx=ctx)
        # poll cvc5 in slices so that a quick cvc5 `unsat` ends a slow z3 search early
        slice_ms = 1500 if proc is not None else timeout_ms
        if seed:
            s.set('random_seed', seed % 1000)
        s.from_string(smt2)
        spent = 0
        r = z3.unknown
        while spent < timeout_ms:
            s.set('timeout', min(slice_ms, timeout_ms - spent))
            t1 = time.time()
            r = s.check()
            spent += int((time.time() - t1) * 1000) + 1
            if r != z3.unknown:
                break
            reason = s.reason_unknown()
            if 'timeout' not in reason and 'canceled' not in reason:
                break
            if proc is not None and proc.poll() is not None:
                try:
                    out = proc.stdout.read()
                except Exception:
                    out = ''
                if out.strip().startswith('unsat'):
                    return {'name': name, 'backend': 'cvc5', 'status': 'discharged', 'z3': 'slower'}
                proc = None            # cvc5 gave up (error/unknown/sat): z3 continues alone
                slice_ms = timeout_ms
            slice_ms = min(slice_ms * 2, 8000)
        res = {'name': name, 'backend': 'z3'}
        if r == z3.unsat:
            res['status'] = 'discharged'
        elif r == z3.sat:
            res['status'] = 'failed'
            m = s.model()
            vals = {}
            for d in m.decls():
                if d.name() in wanted and d.arity() == 0:
                    vals[d.name()] = _py(m[d])
            res['model'] = vals
            res['model_text'] = str(m)[:4000]
        else:
            res['status'] = 'unknown'
            res['reason'] = s.reason_unknown()
        return res
    except Exception as ex:      # solver crash: undecided, never a violation
        return {'name': name, 'backend': 'z3', 'status': 'unknown', 'reason': f'exception {ex!r}'[:300]}


def discharge(obligations, axioms, timeout_ms=10000, procs=None, seed=0, use_cvc5=True):
    """-> list of result dicts aligned with `obligations`"""
    jobs = []
    trivial = {}
    for i, ob in enumerate(obligations):
        if z3.is_true(ob.goal):
            trivial[i] = {'name': ob.name, 'backend': 'simplifier', 'status': 'discharged', 'time': 0.0}
            continue
        wanted = set()
        for k, t in ob.inputs.items():
            try:
                wanted.add(t.decl().name())
            except Exception:
                pass
        jobs.append((i, (ob.name, to_smt2(ob, axioms), timeout_ms, wanted, seed, use_cvc5)))
    results = dict(trivial)
    if jobs:
        procs = procs or min(16, max(1, os.cpu_count() or 1))
        if use_cvc5:
            procs = max(1, procs // 2)
        with mp.get_context('fork').Pool(min(procs, len(jobs))) as pool:
            outs = pool.map(_work, [j for _, j in jobs], chunksize=1)
        for (i, job), r in zip(jobs, outs):
            results[i] = r
        # an `unknown` can be an unlucky seed or a loaded machine: one retry with the default seed and three times the budget
        again = [(i, job) for (i, job) in jobs if results[i]['status'] == 'unknown']
        if again and len(again) <= 24:
            jobs2 = [(i, (j[0], j[1], j[2] * 3, j[3], 0 if j[4] else 7, j[5])) for i, j in again]
            with mp.get_context('fork').Pool(min(procs, len(jobs2))) as pool:
                outs2 = pool.map(_work, [j for _, j in jobs2], chunksize=1)
            for (i, _), r in zip(jobs2, outs2):
                if r['status'] != 'unknown':
                    r['retried'] = True
                    results[i] = r
    return [results[i] for i in range(len(obligations))]
