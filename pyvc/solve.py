"""Discharge obligations: each VC in its own process (16-wide pool), z3 first, cvc5 on unknown."""
from __future__ import annotations
import multiprocessing as mp
import os
import re
import subprocess
import tempfile
import time
import z3


def to_smt2(ob, axioms):
    s = z3.Solver()
    for a in axioms:
        s.add(a)
    for h in ob.hyps:
        s.add(h)
    s.add(z3.Not(ob.goal))
    return s.to_smt2()


def _py(val):
    """z3 model value -> JSON-able Python value"""
    try:
        if z3.is_int_value(val):
            return val.as_long()
        if z3.is_true(val):
            return True
        if z3.is_false(val):
            return False
        if z3.is_string_value(val):
            s = val.as_string()
            return re.sub(r'\\u\{([0-9a-fA-F]+)\}', lambda m: chr(int(m.group(1), 16)), s)
        if z3.is_seq(val):
            k = val.decl().kind()
            if k == z3.Z3_OP_SEQ_EMPTY:
                return []
            if k == z3.Z3_OP_SEQ_UNIT:
                return [_py(val.arg(0))]
            if k == z3.Z3_OP_SEQ_CONCAT:
                out = []
                for c in val.children():
                    out.extend(_py(c))
                return out
        if val.sort().kind() == z3.Z3_DATATYPE_SORT:
            d = val.decl().name()
            if val.num_args() == 0:
                return {'ctor': d}
            return {'ctor': d, 'args': [_py(c) for c in val.children()]}
    except Exception:
        pass
    return str(val)


def _work(job):
    name, smt2, timeout_ms, wanted, seed = job
    t0 = time.time()
    try:
        ctx = z3.Context()
        s = z3.Solver(ctx=ctx)
        s.set('timeout', timeout_ms)
        if seed:
            s.set('random_seed', seed % 1000)
        s.from_string(smt2)
        r = s.check()
        res = {'name': name, 'backend': 'z3', 'time': round(time.time() - t0, 3)}
        if r == z3.unsat:
            res['status'] = 'discharged'
        elif r == z3.sat:
            res['status'] = 'failed'
            m = s.model()
            vals = {}
            for d in m.decls():
                if d.name() in wanted and d.arity() == 0:
                    vals[d.name()] = _py(m[d])
            res['model'] = vals
            res['model_text'] = str(m)[:4000]
        else:
            res['status'] = 'unknown'
            res['reason'] = s.reason_unknown()
        return res
    except Exception as ex:      # solver crash: undecided, never a violation
        return {'name': name, 'backend': 'z3', 'status': 'unknown', 'reason': f'exception {ex!r}'[:300],
                'time': round(time.time() - t0, 3)}


def _cvc5(job):
    name, smt2, timeout_ms, wanted, seed = job
    t0 = time.time()
    text = '(set-logic ALL)\n' + smt2
    with tempfile.NamedTemporaryFile('w', suffix='.smt2', delete=False) as f:
        f.write(text)
        path = f.name
    try:
        p = subprocess.run(['/usr/bin/cvc5', '--lang=smt2', '--strings-exp', f'--tlimit={timeout_ms}', path],
                           capture_output=True, text=True, timeout=timeout_ms / 1000 + 5)
        out = p.stdout.strip().splitlines()
        verdict = out[0].strip() if out else ''
        res = {'name': name, 'backend': 'cvc5', 'time': round(time.time() - t0, 3)}
        if verdict == 'unsat':
            res['status'] = 'discharged'
        elif verdict == 'sat':
            # cvc5 found a model but we do not translate it; treat as failed-without-model
            res['status'] = 'failed'
            res['model'] = {}
        else:
            res['status'] = 'unknown'
            res['reason'] = (p.stderr or p.stdout)[:200]
        return res
    except Exception as ex:
        return {'name': name, 'backend': 'cvc5', 'status': 'unknown', 'reason': repr(ex)[:200],
                'time': round(time.time() - t0, 3)}
    finally:
        try:
            os.unlink(path)
        except OSError:
            pass


def discharge(obligations, axioms, timeout_ms=10000, procs=None, seed=0, use_cvc5=True):
    """-> list of result dicts aligned with `obligations`"""
    jobs = []
    trivial = {}
    for i, ob in enumerate(obligations):
        if z3.is_true(ob.goal):
            trivial[i] = {'name': ob.name, 'backend': 'simplifier', 'status': 'discharged', 'time': 0.0}
            continue
        wanted = set()
        for k, t in ob.inputs.items():
            try:
                wanted.add(t.decl().name())
            except Exception:
                pass
        jobs.append((i, (ob.name, to_smt2(ob, axioms), timeout_ms, wanted, seed)))
    results = dict(trivial)
    if jobs:
        procs = procs or min(16, max(1, os.cpu_count() or 1))
        with mp.get_context('fork').Pool(min(procs, len(jobs))) as pool:
            outs = pool.map(_work, [j for _, j in jobs], chunksize=1)
        for (i, job), r in zip(jobs, outs):
            results[i] = r
        if use_cvc5:
            unk = [(i, job) for (i, job) in jobs if results[i]['status'] == 'unknown']
            if unk:
                with mp.get_context('fork').Pool(min(procs, len(unk))) as pool:
                    outs = pool.map(_cvc5, [j for _, j in unk], chunksize=1)
                for (i, job), r in zip(unk, outs):
                    if r['status'] == 'discharged':
                        r['z3'] = results[i].get('reason', 'unknown')
                        results[i] = r
                    else:
                        results[i]['cvc5'] = r.get('status') + ':' + r.get('reason', '')[:80]
    return [results[i] for i in range(len(obligations))]
