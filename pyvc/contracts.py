"""Sidecar contract objects.  Contracts never live in /repo; they are keyed by (file, qualname)."""
from __future__ import annotations
from dataclasses import dataclass, field
from typing import Any, Dict, List, Optional


@dataclass
class Loop:
    invariant: List[str] = field(default_factory=list)
    decreases: Optional[str] = None
    index: Optional[str] = None      # name of the ghost position for `for` loops (default: _i<ordinal>)
    modifies: Optional[List[str]] = None   # extra heap fields / ghost havocked (beyond syntactic)
    unroll: bool = False             # iterable has a literal length: unroll
    hints: List[Any] = field(default_factory=list)   # axiom instances (name, {var: expr}) assumed at the end of each iteration
    init_hints: List[Any] = field(default_factory=list)  # axiom instances assumed before the invariant is first checked
    focus: bool = False              # prove inv-preserve from the loop-head facts + asserts only (the asserts summarise the body)
    asserts: List[str] = field(default_factory=list) # proof steps at the end of each iteration: each is an obligation, then assumed; entry(x) = value of x at the loop head


@dataclass
class Contract:
    file: str
    qualname: str
    params: Dict[str, str] = field(default_factory=dict)     # name -> type text
    returns: Optional[str] = None
    requires: List[str] = field(default_factory=list)
    ensures: List[str] = field(default_factory=list)
    # exception class name -> condition that holds (over the post state) when it escapes.
    # {} = nothing may escape; None = exceptions are not specified (any may escape; no obligation)
    raises: Optional[Dict[str, str]] = field(default_factory=dict)
    modifies: List[str] = field(default_factory=list)        # heap fields and ghost names
    loops: Dict[int, Loop] = field(default_factory=dict)
    inline: bool = False             # callers execute the body instead of using the contract
    assumed: bool = False            # not verified: external / trusted
    source: str = ''                 # where an assumed contract is taken from
    pid: str = ''
    self_type: Optional[str] = None  # 'Ref[Class]'
    pure: bool = False               # no heap/ghost effect, result is a function of args+heap
    decreases: Optional[str] = None
    lets: Dict[str, str] = field(default_factory=dict)       # spec-level abbreviations usable in clauses
    replay: Optional[str] = None     # 'module:function' under /verif/replay
    hints: List[str] = field(default_factory=list)           # extra lemma instances assumed after `requires` (each is itself an obligation of kind 'lemma')
    region: Optional[Dict[str, str]] = None   # {'start': text, 'end': text, 'name': label}: verify only the statements of the function body from the one containing `start` up to (excluding) the one containing `end`; params are the region's free variables
    result_is: Optional[str] = None  # pure callee whose result is exactly this spec expression (over its parameters)
    exit_asserts: List[str] = field(default_factory=list)    # proof steps at every exit (each an obligation, then assumed); steps that cannot be evaluated on a path are skipped
    exit_hints: List[Any] = field(default_factory=list)      # axiom instances / unfold(...) assumed at every exit before the postcondition is checked
    verify: bool = True
    opaque: List[str] = field(default_factory=list)          # non-recursive spec functions kept uninterpreted in this function's VCs
    reads: List[str] = field(default_factory=list)           # heap fields a pure callee's result depends on
    locals: Dict[str, str] = field(default_factory=dict)   # types of locals that start as [] / None / {}
    note: str = ''

    @property
    def key(self):
        return (self.file, self.qualname)


class Registry:
    def __init__(self):
        self.contracts: Dict[Any, Contract] = {}
        self.external: Dict[str, Contract] = {}
        self.shapes: Dict[str, 'Shape'] = {}
        self.specs: Dict[str, Any] = {}     # spec function name -> SpecFn
        self.enums: Dict[str, Any] = {}
        self.ghosts: Dict[str, str] = {}    # ghost var name -> type text
        self.axioms: List[Any] = []         # (name, text, source) closed spec expressions assumed (listed in evidence)
        self.lemmas: List[Any] = []         # (pid, name, vars, hyps, goal) closed formulas proved from specs/contracts
        self.pid = ''

    def contract(self, file, qualname, **kw):
        c = Contract(file=file, qualname=qualname, pid=kw.pop('pid', self.pid), **kw)
        key = c.key if not c.region else (file, qualname + '#' + c.region.get('name', 'region'))
        self.contracts[key] = c
        return c

    def assume_ext(self, dotted, **kw):
        c = Contract(file='<external>', qualname=dotted, assumed=True, pid=self.pid, **kw)
        self.external[dotted] = c
        return c

    def shape(self, cls, fields, bases=(), file=None):
        s = Shape(cls, dict(fields), tuple(bases), file)
        self.shapes[cls] = s
        return s

    def axiom(self, name, text, vars=None, source='', quantified=False):
        """an assumed fact (listed in the evidence, bounded-validated natively).  By default it is only
        usable through explicit instances (`hints=[(name, {var: expr})]`); quantified=True adds it to every VC."""
        self.axioms.append((name, text, vars or {}, source, quantified))

    def lemma(self, name, vars, hyps, goal, pid=None, hints=()):
        self.lemmas.append((pid or self.pid, name, vars, list(hyps), goal, list(hints)))


@dataclass
class Shape:
    cls: str
    fields: Dict[str, str]
    bases: tuple = ()
    file: Optional[str] = None
