"""pyvc: symbolic execution of real function ASTs against sidecar contracts -> named obligations.

Path-forking symbolic executor.  Loops are cut by sidecar invariants, calls by callee contracts.
Anything outside the subset raises Unsupported -> the function is *undecided* (never a violation).
"""
from __future__ import annotations
import ast
import builtins as _py_builtins
import z3
from .types import *      # noqa
from .values import *     # noqa
from .contracts import Contract, Loop, Registry
from .source import SourceIndex

BUILTIN_EXC = {
    'BaseException': None, 'Exception': 'BaseException', 'SystemExit': 'BaseException',
    'KeyboardInterrupt': 'BaseException', 'GeneratorExit': 'BaseException',
    'ArithmeticError': 'Exception', 'ZeroDivisionError': 'ArithmeticError', 'OverflowError': 'ArithmeticError',
    'AssertionError': 'Exception', 'AttributeError': 'Exception', 'EOFError': 'Exception',
    'ImportError': 'Exception', 'ModuleNotFoundError': 'ImportError',
    'LookupError': 'Exception', 'IndexError': 'LookupError', 'KeyError': 'LookupError',
    'NameError': 'Exception', 'UnboundLocalError': 'NameError',
    'OSError': 'Exception', 'FileNotFoundError': 'OSError', 'PermissionError': 'OSError',
    'IsADirectoryError': 'OSError',
    'RuntimeError': 'Exception', 'NotImplementedError': 'RuntimeError', 'RecursionError': 'RuntimeError',
    'StopIteration': 'Exception', 'SyntaxError': 'Exception', 'IndentationError': 'SyntaxError',
    'TypeError': 'Exception', 'ValueError': 'Exception', 'UnicodeError': 'ValueError',
    'UnicodeDecodeError': 'UnicodeError', 'UnicodeEncodeError': 'UnicodeError',
    'zlib.error': 'Exception', 'ParseError(docutils)': 'Exception',
    # synthetic: classes we know nothing about
    '_OtherException': 'Exception', '_OtherBaseException': 'BaseException',
}


class FuncCtx:
    """Static context of the function being executed (for name resolution and loop ordinals)."""

    def __init__(self, relpath, qualname, node, cls, contract):
        self.relpath = relpath
        self.qualname = qualname
        self.node = node
        self.cls = cls            # ClassInfo or None
        self.contract = contract
        self.loop_ord = {}
        n = 0
        for sub in ast.walk(node):
            if isinstance(sub, (ast.For, ast.While)):
                pass
        # ordinals in source order, not counting loops of nested defs separately (they are
        # numbered in the same sequence: position in a pre-order walk)
        for sub in _preorder(node):
            if isinstance(sub, (ast.For, ast.While)):
                self.loop_ord[id(sub)] = n
                n += 1


def _preorder(node):
    yield node
    for c in ast.iter_child_nodes(node):
        yield from _preorder(c)


class Engine:
    def __init__(self, src: SourceIndex, reg: Registry, pid='', budget_ms=2000):
        self.src = src
        self.reg = reg
        self.pid = pid
        self.obligations = []
        self.assumptions_used = {}     # key -> text
        self.spec_mode = 0
        self.code_quant = 0
        self.exc_codes = {}
        self.exc_parent = {}
        self.cls_codes = {}
        self.budget_ms = budget_ms
        self.fstack = []               # FuncCtx stack
        self.cur_func_name = ''
        self.path_count = 0
        self.max_paths = 4000
        self.feas_checks = 0
        self._solver = z3.Solver()
        self._solver.set('timeout', 400)
        self.global_axioms = []        # z3 Bool assumed in every query (validated string axioms etc.)
        self.typeof = z3.Function('typeof', RefSort(), z3.IntSort())
        self.uf = {}
        self.specfns = {}
        self.inline_depth = 0
        self._stringy_cache = {}
        self._ambiguous_fields = None
        self.cur_state = None          # state of the expression being evaluated (for heap-dependent truthiness)
        self.binder_depth = 0          # >0 while evaluating under a bound variable (comprehension / quantifier)
        self.facts = []                # valid ground instances of builtin axioms met on the way (shared by all paths)
        self._fact_keys = set()
        for k, p in BUILTIN_EXC.items():
            self._reg_exc(k, p)
        # exception classes of the repo, from the source
        for m in src.modules.values():
            for q, ci in m.classes.items():
                for anc in src.class_mro(ci)[1:]:
                    pass
        for m in src.modules.values():
            for q, ci in m.classes.items():
                self._maybe_reg_repo_exc(ci)

    # ---------------------------------------------------------------- exceptions / classes
    def _reg_exc(self, name, parent):
        if name not in self.exc_codes:
            self.exc_codes[name] = len(self.exc_codes)
            self.exc_parent[name] = parent

    def _maybe_reg_repo_exc(self, ci):
        chain = []
        cur = ci
        seen = set()
        while cur is not None and id(cur) not in seen:
            seen.add(id(cur))
            chain.append(cur)
            nxt = None
            for b in cur.bases:
                bn = b.split('[')[0].split('.')[-1]
                if bn in BUILTIN_EXC:
                    # register the chain
                    parent = bn
                    for c in reversed(chain):
                        self._reg_exc(c.name, parent)
                        parent = c.name
                    return
                cand = self.src.find_class(bn, cur.module.relpath)
                if cand is not None and nxt is None:
                    nxt = cand
            cur = nxt

    def exc_code(self, name):
        if name not in self.exc_codes:
            raise Unsupported(f'unknown exception class {name}')
        return self.exc_codes[name]

    def exc_subclasses(self, name):
        out = []
        for k in self.exc_codes:
            c = k
            while c is not None:
                if c == name:
                    out.append(k)
                    break
                c = self.exc_parent[c]
        return out

    def exc_is(self, term, name):
        """z3 Bool: exception code `term` is a subclass of `name`."""
        return z3.Or([term == self.exc_codes[k] for k in self.exc_subclasses(name)])

    def exc_val(self, name):
        return V(EXC, z3.IntVal(self.exc_code(name)))

    def any_exc(self, base='Exception'):
        v = fresh(EXC, 'exc')
        return v, self.exc_is(v.t, base)

    def cls_code(self, name):
        if name not in self.cls_codes:
            self.cls_codes[name] = len(self.cls_codes) + 1
        return self.cls_codes[name]

    def isinstance_term(self, ref_t, clsname):
        subs = {ci.name for ci in self.src.subclasses_of(clsname)} | {clsname}
        # classes known only through shapes (external hierarchies such as ast.*)
        changed = True
        while changed:
            changed = False
            for sh in self.reg.shapes.values():
                if sh.cls not in subs and any(b in subs for b in sh.bases):
                    subs.add(sh.cls)
                    changed = True
        return z3.Or([self.typeof(ref_t) == self.cls_code(s) for s in sorted(subs)])

    # ---------------------------------------------------------------- uninterpreted helpers
    def UF(self, name, *sorts):
        if name not in self.uf:
            self.uf[name] = z3.Function(name, *sorts)
        return self.uf[name]

    # ---------------------------------------------------------------- solver helpers
    def feasible(self, st):
        """path feasibility (pruning only: `unknown` counts as feasible).  Two cheap tiers: the string-free
        projection of the path condition (sound: weaker), then the full condition under a small budget."""
        self.feas_checks += 1
        s = self._solver
        lia = [p for p in st.pc if not self._stringy(p)]
        if len(lia) != len(st.pc):
            s.push()
            try:
                s.set('timeout', 300)
                for p in lia:
                    s.add(p)
                try:
                    if s.check() == z3.unsat:
                        return False
                except z3.Z3Exception:
                    pass
            finally:
                s.pop()
            return True
        else:
            budget = 400
        s.push()
        try:
            s.set('timeout', budget)
            for a in self.global_axioms:
                s.add(a)
            for a in self.facts:
                s.add(a)
            for p in st.pc:
                s.add(p)
            try:
                r = s.check()
            except z3.Z3Exception:
                r = z3.unknown
        finally:
            s.pop()
        return r != z3.unsat

    def entails_lia(self, st, goal):
        """cheap entailment from the string-free part of the path condition (used to simplify index arithmetic)"""
        s = self._solver
        s.push()
        try:
            s.set('timeout', 200)
            for p in st.pc:
                if not self._stringy(p):
                    s.add(p)
            s.add(z3.Not(goal))
            try:
                return s.check() == z3.unsat
            except z3.Z3Exception:
                return False
        finally:
            s.pop()

    def _stringy(self, t):
        k = t.get_id()
        c = self._stringy_cache.get(k)
        if c is None:
            c = False
            todo = [t]
            seen = set()
            n = 0
            while todo and not c:
                x = todo.pop()
                xid = x.get_id()
                if xid in seen:
                    continue
                seen.add(xid)
                n += 1
                if n > 3000:
                    c = True
                    break
                if z3.is_quantifier(x):
                    c = True
                    break
                if z3.is_app(x):
                    sk = x.sort().kind()
                    if sk in (z3.Z3_SEQ_SORT, z3.Z3_RE_SORT) and x.decl().kind() != z3.Z3_OP_UNINTERPRETED:
                        c = True
                        break
                    if x.decl().kind() == z3.Z3_OP_SEQ_LENGTH and x.arg(0).num_args() == 0:
                        continue      # len(variable) is plain arithmetic for the purposes of pruning
                    todo.extend(x.children())
            self._stringy_cache[k] = c
        return c

    def entails(self, st, goal):
        s = self._solver
        s.push()
        try:
            for a in self.global_axioms:
                s.add(a)
            for a in self.facts:
                s.add(a)
            for p in st.pc:
                s.add(p)
            s.add(z3.Not(goal))
            s.set('timeout', 400)
            try:
                r = s.check()
            except z3.Z3Exception:
                r = z3.unknown
        finally:
            s.pop()
        return r == z3.unsat

    def fact(self, b, why=''):
        k = b.sexpr()
        if k not in self._fact_keys:
            self._fact_keys.add(k)
            self.facts.append(b)
            if why:
                self.assumptions_used['builtin:' + why] = why

    # ---------------------------------------------------------------- obligations
    def oblige(self, kind, st, goal, line=0, detail='', tag=''):
        if not z3.is_expr(goal):
            goal = z3.BoolVal(bool(goal))
        if z3.is_true(z3.simplify(goal)):
            goal = z3.BoolVal(True)   # trivially discharged obligations are still recorded
        fn = self.cur_func_name
        name = f'{self.pid}/{fn}/{kind}{tag}' + (f'@L{line}' if line else '')
        ob = Obligation(name, kind, st.pc, goal, line, dict(self.cur_inputs), detail, fn)
        ob.facts = self.facts      # shared list: complete by the time the obligation is discharged
        self.obligations.append(ob)
        return ob

    # ---------------------------------------------------------------- heap
    def field_ty(self, clsname, fname):
        """type of field `fname` on (a subclass or superclass of) class `clsname` from shapes"""
        seen = set()
        todo = [clsname]
        while todo:
            c = todo.pop(0)
            if c in seen:
                continue
            seen.add(c)
            sh = self.reg.shapes.get(c)
            if sh is not None:
                if fname in sh.fields:
                    return parse_type(sh.fields[fname], self.reg.enums)
                todo.extend(sh.bases)
            else:
                ci = self.src.find_class(c)
                if ci is not None:
                    todo.extend(b.split('[')[0].split('.')[-1] for b in ci.bases)
        # not found upwards: a field of a subclass (the code narrowed the object with isinstance before the access)
        for sh in self.reg.shapes.values():
            if fname in sh.fields and self._shape_descends(sh, clsname):
                return parse_type(sh.fields[fname], self.reg.enums)
        return None

    def _shape_descends(self, sh, ancestor, depth=0):
        if depth > 8:
            return False
        for b in sh.bases:
            if b == ancestor:
                return True
            bs = self.reg.shapes.get(b)
            if bs is not None and self._shape_descends(bs, ancestor, depth + 1):
                return True
        return False

    def hkey(self, fname, ty):
        """heap arrays are per field name; when unrelated classes declare the same field name with different
        types (FunctionDef.args / arguments.args) each type gets its own array"""
        amb = self._ambiguous_fields
        if amb is None:
            seen = {}
            amb = set()
            for sh in self.reg.shapes.values():
                for f, t in sh.fields.items():
                    if f in seen and seen[f] != t:
                        amb.add(f)
                    seen.setdefault(f, t)
            self._ambiguous_fields = amb
        if fname in amb:
            return f'{fname}@{ty.key}'
        return fname

    def heap_arr(self, st, fname, ty):
        k = self.hkey(fname, ty)
        if k not in st.heap:
            st.heap[k] = z3.Const('H_' + k, z3.ArraySort(RefSort(), ty.sort()))
        return st.heap[k]

    def read_field(self, st, ref_v, fname):
        ty = self.field_ty(ref_v.ty.cls, fname)
        if ty is None:
            raise Unsupported(f'field {ref_v.ty.cls}.{fname} not declared in shapes')
        arr = self.heap_arr(st, fname, ty)
        out = V(ty, z3.Select(arr, ref_v.t))
        if isinstance(ty, TRef) and not ty.nullable and not self.spec_mode:
            st.assume(out.t != null())          # type invariant of a Ref[C] field
        return out

    def write_field(self, st, ref_v, fname, val):
        ty = self.field_ty(ref_v.ty.cls, fname)
        if ty is None:
            raise Unsupported(f'field {ref_v.ty.cls}.{fname} not declared in shapes')
        val = self.coerce(val, ty, st)
        arr = self.heap_arr(st, fname, ty)
        st.heap[self.hkey(fname, ty)] = z3.Store(arr, ref_v.t, val.t)

    # ---------------------------------------------------------------- coercions
    def coerce(self, v, ty, st=None):
        if v.ty == ty:
            return v
        if isinstance(ty, TOpt):
            if v.ty is NONE:
                return V(ty, ty.none())
            if v.ty == ty.inner:
                return V(ty, ty.some(v.t))
            if isinstance(v.ty, TOpt):
                raise Unsupported(f'coerce {v.ty} -> {ty}')
            inner = self.coerce(v, ty.inner, st)
            return V(ty, ty.some(inner.t))
        if isinstance(ty, TRef):
            if v.ty is NONE:
                return V(ty, null())
            if isinstance(v.ty, TRef):
                return V(ty, v.t)
        if isinstance(v.ty, TOpt) and (v.ty.inner == ty or (isinstance(v.ty.inner, TRef) and isinstance(ty, TRef))):
            if isinstance(ty, TRef) and ty.nullable:
                # Optional[ref] as a nullable reference: absent is None
                return V(ty, z3.If(v.ty.is_some(v.t), v.ty.val(v.t), null()))
            # unwrap: only when the path condition proves the value is not None
            if st is not None and not self.spec_mode and not self.entails(st, v.ty.is_some(v.t)):
                raise Unsupported(f'Optional value used as {ty} on a path where it may be None')
            inner = V(v.ty.inner, v.ty.val(v.t))
            if inner.ty == ty:
                return inner
            if inner.ty.nullable and not ty.nullable and st is not None and not self.spec_mode \
                    and not self.entails(st, inner.t != null()):
                raise Unsupported(f'possibly-None reference used as {ty}')
            return V(ty, inner.t)
        if isinstance(ty, TSet) and isinstance(v.ty, TSeq) and v.ty.elem is NONE:
            return V(ty, z3.K(ty.elem.sort(), z3.BoolVal(False)))      # [] where only membership matters
        if isinstance(ty, TSeq) and isinstance(v.ty, TSeq) and v.ty.elem is NONE:
            return V(ty, z3.Empty(ty.sort()))
        if isinstance(ty, TSeq) and isinstance(v.ty, TTuple) and all(e == ty.elem for e in v.ty.elems):
            items = [z3.Unit(v.ty.get(v.t, i)) for i in range(len(v.ty.elems))]
            return V(ty, z3.Concat(*items) if len(items) > 1 else (items[0] if items else z3.Empty(ty.sort())))
        if isinstance(ty, TSeq) and isinstance(v.ty, TSeq) and isinstance(ty.elem, TRef) and isinstance(v.ty.elem, TRef) \
                and ty.elem.nullable == v.ty.elem.nullable:
            return V(ty, v.t)          # all references share one sort; the static class only guides lookups
        if isinstance(ty, TTuple) and isinstance(v.ty, TPy) and v.ty.kind == 'pytuple' and len(v.t) == len(ty.elems):
            # a tuple display with None among its elements: each element takes the declared element type
            items = [self.coerce(a, b, st).t for a, b in zip(v.t, ty.elems)]
            return V(ty, ty.mk(items))
        if isinstance(ty, TTuple) and isinstance(v.ty, TTuple) and len(ty.elems) == len(v.ty.elems):
            items = [self.coerce(V(a, v.ty.get(v.t, i)), b, st).t for i, (a, b) in enumerate(zip(v.ty.elems, ty.elems))]
            return V(ty, ty.mk(items))
        if isinstance(ty, TSeq) and isinstance(v.ty, TSeq) and z3.is_expr(v.t):
            # list literals ([a, b] / concatenations of them): element-wise
            units = _literal_units(v.t)
            if units is not None:
                elems = [z3.Unit(self.coerce(V(v.ty.elem, u), ty.elem, st).t) for u in units]
                if not elems:
                    return V(ty, z3.Empty(ty.sort()))
                return V(ty, z3.Concat(*elems) if len(elems) > 1 else elems[0])
        if ty is BOOL and v.ty is not BOOL:
            return V(BOOL, self.truthy(v))
        if isinstance(ty, TSeq) and isinstance(v.ty, TRef) and st is not None and self.field_ty(v.ty.cls, '__items__') is not None:
            # a list object read as a sequence value (its current elements)
            return self.coerce(self.read_field(st, v, '__items__'), ty, st)
        if isinstance(ty, TObj) and v.ty is FUN and isinstance(v.t, FuncRef):
            # a repository function used as a value: a distinguished constant, if the sidecar names it (ext_values)
            d = v.t.relpath[:-3].replace('/', '.').removesuffix('.__init__') + '.' + v.t.qualname
            ev_ = getattr(self.reg, 'ext_values', {})
            if d in ev_ and parse_type(ev_[d], self.reg.enums) == ty:
                return V(ty, z3.Const('ext_' + ''.join(c if c.isalnum() else '_' for c in d), ty.sort()))
        raise Unsupported(f'cannot coerce {v.ty} to {ty}')

    def truthy(self, v, st=None):
        ty = v.ty
        if ty is BOOL:
            return v.t
        if ty is INT:
            return v.t != 0
        if ty is STR or isinstance(ty, TSeq):
            return z3.Length(v.t) > 0
        if ty is NONE:
            return z3.BoolVal(False)
        if isinstance(ty, TOpt):
            inner = V(ty.inner, ty.val(v.t))
            return z3.And(ty.is_some(v.t), self.truthy(inner))
        if isinstance(ty, TRef):
            if self.field_ty(ty.cls, '__items__') is not None:
                st = st or self.cur_state
                if st is None:
                    raise Unsupported(f'truthiness of {ty.cls} needs the heap')
                return z3.Length(self.read_field(st, v, '__items__').t) > 0
            ci = self.src.find_class(ty.cls)
            if ci is not None:
                c, m = self.src.lookup_method(ci, '__len__')
                if m is not None:
                    raise Unsupported(f'truthiness of {ty.cls} goes through __len__ (use explicit dispatch)')
            return v.t != null() if ty.nullable else z3.BoolVal(True)
        if isinstance(ty, TTuple):
            return z3.BoolVal(len(ty.elems) > 0)
        if isinstance(ty, TPy) and ty.kind == 'match':
            return v.t                       # a match object is truthy, None (no match) is falsy
        if ty is EXC or isinstance(ty, (TEnum, TObj, TPy)) or ty is CLSV:
            return z3.BoolVal(True)
        if isinstance(ty, TSet):
            x = z3.Const(fresh_name('mem'), ty.elem.sort())
            return z3.Exists([x], z3.Select(v.t, x))
        if isinstance(ty, TMap):
            raise Unsupported('truthiness of a dict')
        raise Unsupported(f'truthiness of {ty}')

    def eq(self, a, b):
        """z3 Bool for Python `a == b` on the supported value types (structural)."""
        if a.ty is NONE and b.ty is NONE:
            return z3.BoolVal(True)
        if a.ty is NONE:
            a, b = b, a
        if b.ty is NONE:
            if isinstance(a.ty, TOpt):
                if isinstance(a.ty.inner, TRef) and a.ty.inner.nullable:
                    # dict.get(k) on a map whose values may be None: absent, or present with value None
                    return z3.Or(a.ty.is_none(a.t), a.ty.val(a.t) == null())
                return a.ty.is_none(a.t)
            if isinstance(a.ty, TRef):
                return a.t == null() if a.ty.nullable else z3.BoolVal(False)
            return z3.BoolVal(False)
        if isinstance(a.ty, TOpt) and not isinstance(b.ty, TOpt):
            if a.ty.inner == b.ty or (isinstance(a.ty.inner, TRef) and isinstance(b.ty, TRef)):
                same = z3.And(a.ty.is_some(a.t), a.ty.val(a.t) == b.t)
                if isinstance(b.ty, TRef) and b.ty.nullable:
                    # a nullable reference holding None equals an absent Optional (both are Python's None); a present value of
                    # a non-nullable reference type is not None (type invariant of the container)
                    if isinstance(a.ty.inner, TRef) and not a.ty.inner.nullable:
                        same = z3.And(same, b.t != null())
                    return z3.Or(same, z3.And(a.ty.is_none(a.t), b.t == null()))
                return same
            return z3.BoolVal(False)
        if isinstance(b.ty, TOpt) and not isinstance(a.ty, TOpt):
            return self.eq(b, a)
        if isinstance(a.ty, TRef) and isinstance(b.ty, TRef):
            return a.t == b.t
        if isinstance(a.ty, TTuple) and isinstance(b.ty, TTuple):
            if len(a.ty.elems) != len(b.ty.elems):
                return z3.BoolVal(False)
            return z3.And([self.eq(V(x, a.ty.get(a.t, i)), V(y, b.ty.get(b.t, i)))
                           for i, (x, y) in enumerate(zip(a.ty.elems, b.ty.elems))] or [z3.BoolVal(True)])
        if isinstance(a.ty, TSeq) and isinstance(b.ty, TTuple):
            return self.eq(a, self.coerce(b, a.ty))
        if isinstance(b.ty, TSeq) and isinstance(a.ty, TTuple):
            return self.eq(self.coerce(a, b.ty), b)
        if a.ty == b.ty:
            if isinstance(a.ty, TPy):
                return z3.BoolVal(a.t is b.t)
            return a.t == b.t
        if a.ty is BOOL and b.ty is INT:
            return z3.If(a.t, 1, 0) == b.t
        if a.ty is INT and b.ty is BOOL:
            return a.t == z3.If(b.t, 1, 0)
        if isinstance(a.ty, TSeq) and isinstance(b.ty, TSeq):
            if a.ty.elem is NONE:
                return z3.Length(b.t) == 0
            if b.ty.elem is NONE:
                return z3.Length(a.t) == 0
            if isinstance(a.ty.elem, TRef) and isinstance(b.ty.elem, TRef):
                return a.t == b.t        # all references share one sort; the static class of the elements does not matter for ==
        # different types: never equal in Python for the value types we support
        return z3.BoolVal(False)


def _literal_units(t):
    k = t.decl().kind() if z3.is_app(t) else None
    if k == z3.Z3_OP_SEQ_EMPTY:
        return []
    if k == z3.Z3_OP_SEQ_UNIT:
        return [t.arg(0)]
    if k == z3.Z3_OP_SEQ_CONCAT:
        out = []
        for c in t.children():
            u = _literal_units(c)
            if u is None:
                return None
            out.extend(u)
        return out
    return None
