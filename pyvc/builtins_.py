"""Models of the builtin functions and methods the verified functions use.

String library functions without an SMT counterpart are uninterpreted; the axioms that the
proofs need are added by the sidecars (Registry.axiom) and bounded-validated against CPython.
"""
from __future__ import annotations
import ast
import z3
from .types import *      # noqa
from .values import *     # noqa

SS = z3.StringSort


class BuiltinMixin:
    builtin_methods = set()

    # uninterpreted string functions (shared names so that axioms can talk about them)
    def f_split(self):
        return self.UF('str_split', SS(), SS(), z3.SeqSort(SS()))

    def f_join(self):
        return self.UF('str_join', SS(), z3.SeqSort(SS()), SS())

    def f_is_int(self):
        return self.UF('is_int_literal', SS(), z3.BoolSort())

    def f_int_of(self):
        return self.UF('int_of', SS(), z3.IntSort())

    # ------------------------------------------------------------------ functions
    def call_builtin(self, name, args, kwargs, st, exits, e):
        line = getattr(e, 'lineno', 0)
        m = getattr(self, 'b_' + name, None)
        if m is None:
            raise Unsupported(f'builtin {name}')
        r = m(args, kwargs, st, exits, line)
        if r is None:
            return
        if isinstance(r, V):
            yield st, r
        else:
            yield from r

    def b_len(self, args, kw, st, exits, line):
        v = args[0]
        if v.ty is STR or isinstance(v.ty, TSeq):
            if isinstance(v.ty, TSeq) and v.ty.elem is NONE:
                return mk_int(0)
            return V(INT, z3.Length(v.t))
        if isinstance(v.ty, TTuple):
            return mk_int(len(v.ty.elems))
        if isinstance(v.ty, TRef):
            sv = self.seq_view(v, st)
            if sv is not None:
                return V(INT, z3.Length(sv.t))
            r = self.call_dunder(v, '__len__', [], st, exits, None)
            if r is not None:
                return r
        if isinstance(v.ty, TSet):
            f = self.UF('set_size_' + _san(v.ty.key), v.ty.sort(), z3.IntSort())
            self.fact(f(v.t) >= 0)
            return V(INT, f(v.t))
        if isinstance(v.ty, TMap):
            f = self.UF('map_size_' + _san(v.ty.key), v.ty.sort(), z3.IntSort())
            self.fact(f(v.t) >= 0)
            return V(INT, f(v.t))
        raise Unsupported(f'len of {v.ty}')

    def b_int(self, args, kw, st, exits, line):
        v = args[0]
        if v.ty is INT:
            return v
        if v.ty is BOOL:
            return V(INT, z3.If(v.t, 1, 0))
        if v.ty is STR:
            if not self.raise_if(st, z3.Not(self.f_is_int()(v.t)), 'ValueError', exits, line, 'int() of a non-numeral'):
                return None
            return V(INT, self.f_int_of()(v.t))
        raise Unsupported(f'int() of {v.ty}')

    def b_str(self, args, kw, st, exits, line):
        if not args:
            return mk_str('')
        return self.to_str(args[0])

    def b_repr(self, args, kw, st, exits, line):
        return self.to_str(args[0], repr_=True)

    def b_bool(self, args, kw, st, exits, line):
        return V(BOOL, self.truthy(args[0]))

    def b_range(self, args, kw, st, exits, line):
        if len(args) == 1:
            return V(RANGE, (z3.IntVal(0), args[0].t))
        if len(args) == 2:
            return V(RANGE, (args[0].t, args[1].t))
        raise Unsupported('range with step')

    def b_enumerate(self, args, kw, st, exits, line):
        start = args[1].t if len(args) > 1 else (kw['start'].t if 'start' in kw else z3.IntVal(0))
        return V(TPy('enumerate'), (args[0], start))

    def b_zip(self, args, kw, st, exits, line):
        return V(TPy('zip'), tuple(args))

    def b_reversed(self, args, kw, st, exits, line):
        return V(TPy('reversed'), args[0])

    def b_list(self, args, kw, st, exits, line):
        if not args:
            return V(TSeq(NONE), 'empty')
        return self.seq_of(args[0], st)

    def b_tuple(self, args, kw, st, exits, line):
        if not args:
            return V(TTuple([]), TTuple([]).mk([]))
        return self.seq_of(args[0], st)

    def b_print(self, args, kw, st, exits, line):
        return NONE_V

    def b_max(self, args, kw, st, exits, line):
        if len(args) == 2 and args[0].ty is INT and args[1].ty is INT:
            return V(INT, z3.If(args[0].t >= args[1].t, args[0].t, args[1].t))
        raise Unsupported('max')

    def b_min(self, args, kw, st, exits, line):
        if len(args) == 2 and args[0].ty is INT and args[1].ty is INT:
            return V(INT, z3.If(args[0].t <= args[1].t, args[0].t, args[1].t))
        raise Unsupported('min')

    def b_any(self, args, kw, st, exits, line):
        return self._anyall('any', args[0], st)

    def b_all(self, args, kw, st, exits, line):
        return self._anyall('all', args[0], st)

    def _anyall(self, which, v, st):
        r = self.iter_seq(v, st)
        if r is None:
            raise Unsupported(f'{which} over {v.ty}')
        n, g = r
        k = z3.Int(fresh_name('q'))
        body = self.truthy(g(k))
        rng = z3.And(k >= 0, k < n)
        if which == 'all':
            return V(BOOL, z3.ForAll([k], z3.Implies(rng, body)))
        return V(BOOL, z3.Exists([k], z3.And(rng, body)))

    def b_map(self, args, kw, st, exits, line):
        # lazy: consumed by any/all/list/for through iter_seq
        return V(TPy('map'), (args[0], args[1]))

    def b_type(self, args, kw, st, exits, line):
        v = args[0]
        if isinstance(v.ty, TRef):
            return V(CLSV, self.typeof(v.t))
        return V(TObj('type'), z3.Const('type_of_' + _san(v.ty.key), TObj('type').sort()))

    def b_islice(self, args, kw, st, exits, line):
        s_ = self.seq_of(args[0], st)
        n = z3.Length(s_.t)
        lo, hi = args[1].t, args[2].t
        if not self.raise_if(st, z3.Or(lo < 0, hi < 0), 'ValueError', exits, line, 'islice bounds'):
            return None
        lo2 = z3.If(lo > n, n, lo)
        hi2 = z3.If(hi > n, n, hi)
        hi2 = z3.If(hi2 < lo2, lo2, hi2)
        return V(s_.ty, z3.Extract(s_.t, lo2, hi2 - lo2))

    def b_getattr(self, args, kw, st, exits, line):
        # getattr(obj, 'literal', default): the attribute is a declared field (the default is for older Pythons)
        nm = z3.simplify(args[1].t) if args[1].ty is STR else None
        if nm is None or not z3.is_string_value(nm) or not isinstance(args[0].ty, TRef):
            raise Unsupported('getattr with a computed name')
        fty = self.field_ty(args[0].ty.cls, nm.as_string())
        if fty is None:
            raise Unsupported(f'getattr: {args[0].ty.cls}.{nm.as_string()} is not a declared field')
        return self.read_field(st, args[0], nm.as_string())

    def b_sorted(self, args, kw, st, exits, line):
        v = args[0]
        if 'reverse' in kw:
            raise Unsupported('sorted with reverse')
        if not isinstance(v.ty, TSet):
            # a permutation of the input (the order itself is not modelled; the key function is assumed pure and total)
            src = self.seq_of(v, st)
            if isinstance(src.ty, TSeq) and src.ty.elem is NONE:
                return src
            out = fresh(src.ty, 'sorted')
            n = z3.Length(src.t)
            perm = z3.Function(fresh_name('perm'), z3.IntSort(), z3.IntSort())
            inv = z3.Function(fresh_name('perminv'), z3.IntSort(), z3.IntSort())
            i = z3.Int(fresh_name('i'))
            st.assume(z3.Length(out.t) == n)
            st.assume(z3.ForAll([i], z3.Implies(z3.And(i >= 0, i < n),
                                               z3.And(perm(i) >= 0, perm(i) < n, out.t[i] == src.t[perm(i)], inv(perm(i)) == i)),
                                patterns=[out.t[i]]))
            st.assume(z3.ForAll([i], z3.Implies(z3.And(i >= 0, i < n),
                                               z3.And(inv(i) >= 0, inv(i) < n, perm(inv(i)) == i)), patterns=[inv(i)]))
            if 'key' in kw:
                self.assumptions_used['sorted:key'] = 'sort key functions are pure and total'
            return out
        if kw:
            raise Unsupported('sorted of a set with key')
        if isinstance(v.ty, TSet):
            # some ordering of the members (the order itself is not modelled): same size, same members
            f = self.UF('sorted_set_' + _san(v.ty.key), v.ty.sort(), z3.SeqSort(v.ty.elem.sort()))
            size = self.UF('set_size_' + _san(v.ty.key), v.ty.sort(), z3.IntSort())
            out = V(TSeq(v.ty.elem), f(v.t))
            self.fact(z3.Length(out.t) == size(v.t))
            return out
        raise Unsupported(f'sorted of {v.ty}')

    def b_iter(self, args, kw, st, exits, line):
        # a fresh iterator over a sequence, only ever consumed by next(): modelled by the sequence itself
        return self.seq_of(args[0], st)

    def b_next(self, args, kw, st, exits, line):
        # next() on a generator modelled as a sequence: its first element, StopIteration when empty
        s_ = self.seq_of(args[0], st)
        if isinstance(s_.ty, TSeq) and s_.ty.elem is NONE:
            if not self.spec_mode:
                exits.append(Outcome('raise', st, self.exc_val('StopIteration'), line, 'next() of an empty iterator'))
            return None
        if not self.raise_if(st, z3.Length(s_.t) == 0, 'StopIteration', exits, line, 'next() of an empty iterator'):
            return None
        return V(s_.ty.elem, s_.t[0])

    # ------------------------------------------------------------------ methods on builtin values
    def call_method(self, recv, name, args, kw, st, exits, e, recv_expr):
        line = getattr(e, 'lineno', 0)
        ty = recv.ty
        if isinstance(ty, TOpt):
            if not self.raise_if(st, ty.is_none(recv.t), 'AttributeError', exits, line, f'None.{name}'):
                return
            recv = V(ty.inner, ty.val(recv.t))
            ty = recv.ty
        if ty is STR:
            m = getattr(self, 'sm_' + name, None)
            if m is None:
                raise Unsupported(f'str.{name}')
            r = m(recv, args, kw, st, exits, line)
            if r is not None:
                yield st, r
            return
        if isinstance(ty, TSeq):
            if ty == BYTES and hasattr(self, 'bm_' + name):
                r = getattr(self, 'bm_' + name)(recv, args, kw, st, exits, line)
                if r is not None:
                    yield st, r
                return
            yield from self.list_method(recv, name, args, kw, st, exits, line, recv_expr)
            return
        if isinstance(ty, TMap):
            yield from self.map_method(recv, name, args, kw, st, exits, line, recv_expr)
            return
        if isinstance(ty, TSet):
            yield from self.set_method(recv, name, args, kw, st, exits, line, recv_expr)
            return
        if isinstance(ty, TRef):
            sv = self.seq_view(recv, st)
            if sv is not None:
                yield from self.deque_method(recv, sv, name, args, kw, st, exits, line)
                return
        if isinstance(ty, TPy) and ty.kind == 'super':
            inst, cls = recv.t
            c, m = self.src.lookup_method(self.src.find_class(inst.ty.cls) or cls, name, after=cls)
            if m is None:
                raise Unsupported(f'super().{name} not found')
            fr = FuncRef(c.module.relpath, f'{c.qualname}.{name}', m, cls=c)
            yield from self.call_func(fr, inst, args, kw, st, exits, e)
            return
        if isinstance(ty, TPy) and ty.kind == 'regex':
            # compiled pattern (text read from the real module): .match(s) is a prefix match, .fullmatch(s) a full one
            pat, flags = recv.t
            if name not in ('match', 'fullmatch'):
                raise Unsupported(f'regex method {name}')
            yield st, V(TPy('match'), self.regex_match_term(pat, flags, args[0].t, name))
            return
        if isinstance(ty, TObj):
            yield from self.call_external(f'<{ty.name}>.{name}', [recv] + list(args), kw, st, exits, e)
            return
        if isinstance(ty, TPy) and ty.kind == 'emptydict':
            raise Unsupported('method on untyped {}: declare the local in the sidecar')
        raise Unsupported(f'method {name} on {ty}')

    def regex_match_term(self, pat, flags, s_term, kind='match'):
        from .regex import to_z3, end_anchored
        flags = flags & ~32                   # re.UNICODE is the default for str patterns
        rx = to_z3(pat, flags)
        if kind == 'match' and not end_anchored(pat, flags):
            rx = z3.Concat(rx, z3.Star(z3.AllChar(z3.ReSort(z3.StringSort()))))
        return z3.InRe(s_term, rx)

    # --- str
    def sm_startswith(self, r, args, kw, st, exits, line):
        a = args[0]
        if isinstance(a.ty, TTuple):
            return V(BOOL, z3.Or([z3.PrefixOf(a.ty.get(a.t, i), r.t) for i in range(len(a.ty.elems))]))
        return V(BOOL, z3.PrefixOf(a.t, r.t))

    def sm_endswith(self, r, args, kw, st, exits, line):
        a = args[0]
        if isinstance(a.ty, TTuple):
            return V(BOOL, z3.Or([z3.SuffixOf(a.ty.get(a.t, i), r.t) for i in range(len(a.ty.elems))]))
        return V(BOOL, z3.SuffixOf(a.t, r.t))

    def sm_split(self, r, args, kw, st, exits, line):
        if not args:
            f = self.UF('str_split_ws', SS(), z3.SeqSort(SS()))
            return V(TSeq(STR), f(r.t))
        if len(args) == 2 or 'maxsplit' in kw:
            mx = args[1] if len(args) == 2 else kw['maxsplit']
            if z3.is_int_value(mx.t) and mx.t.as_long() == 1 and z3.is_string_value(args[0].t) and len(args[0].t.as_string()) > 0:
                # s.split(sep, 1): [s] when sep does not occur, else [head, rest] with s == head + sep + rest and sep not in head
                sep = args[0].t
                hd = self.UF('str_split1_head', SS(), SS(), SS())(r.t, sep)
                rs = self.UF('str_split1_rest', SS(), SS(), SS())(r.t, sep)
                self.fact(z3.Implies(z3.Contains(r.t, sep), z3.And(r.t == z3.Concat(hd, sep, rs), z3.Not(z3.Contains(hd, sep)))),
                          's.split(sep, 1): one piece (s itself) when sep does not occur, else head + sep + rest with sep not in head (CPython docs)')
                return V(TSeq(STR), z3.If(z3.Contains(r.t, sep), z3.Concat(z3.Unit(hd), z3.Unit(rs)), z3.Unit(r.t)))
            f = self.UF('str_split_max', SS(), SS(), z3.IntSort(), z3.SeqSort(SS()))
            out = V(TSeq(STR), f(r.t, args[0].t, mx.t))
            st.assume(z3.Length(out.t) >= 1)
            st.assume(z3.Length(out.t) <= mx.t + 1)
            return out
        out = V(TSeq(STR), self.f_split()(r.t, args[0].t))
        self.fact(z3.Length(out.t) >= 1, 'str.split(sep) returns at least one piece (CPython docs)')
        return out

    def sm_rsplit(self, r, args, kw, st, exits, line):
        if len(args) == 2:
            f = self.UF('str_rsplit_max', SS(), SS(), z3.IntSort(), z3.SeqSort(SS()))
            out = V(TSeq(STR), f(r.t, args[0].t, args[1].t))
            st.assume(z3.Length(out.t) >= 1)
            st.assume(z3.Length(out.t) <= args[1].t + 1)
            return out
        raise Unsupported('rsplit without maxsplit')

    def sm_splitlines(self, r, args, kw, st, exits, line):
        f = self.UF('str_splitlines', SS(), z3.SeqSort(SS()))
        return V(TSeq(STR), f(r.t))

    def sm_join(self, r, args, kw, st, exits, line):
        s = self.seq_of(args[0], st)
        if isinstance(s.ty, TSeq) and s.ty.elem is NONE:
            return mk_str('')
        if s.ty != TSeq(STR):
            raise Unsupported(f'join of {s.ty}')
        if _is_empty(s.t):
            return mk_str('')
        return V(STR, self.f_join()(r.t, s.t))

    def sm_strip(self, r, args, kw, st, exits, line):
        if args:
            return V(STR, self.UF('str_strip_chars', SS(), SS(), SS())(r.t, args[0].t))
        return V(STR, self.UF('str_strip', SS(), SS())(r.t))

    def sm_lstrip(self, r, args, kw, st, exits, line):
        if args:
            return V(STR, self.UF('str_lstrip_chars', SS(), SS(), SS())(r.t, args[0].t))
        return V(STR, self.UF('str_lstrip', SS(), SS())(r.t))

    def sm_rstrip(self, r, args, kw, st, exits, line):
        if args:
            return V(STR, self.UF('str_rstrip_chars', SS(), SS(), SS())(r.t, args[0].t))
        return V(STR, self.UF('str_rstrip', SS(), SS())(r.t))

    def sm_replace(self, r, args, kw, st, exits, line):
        out = V(STR, self.UF('str_replace_all', SS(), SS(), SS(), SS())(r.t, args[0].t, args[1].t))
        a, b = z3.simplify(args[0].t), z3.simplify(args[1].t)
        if z3.is_string_value(a) and z3.is_string_value(b):
            la, lb = len(a.as_string()), len(b.as_string())
            from .exprs import _unescape_z3
            sa, sb = _unescape_z3(a.as_string()), _unescape_z3(b.as_string())
            why = 'str.replace(a, b) with literal a, b: length and first character (CPython semantics, bounded-validated)'
            if len(sb) >= len(sa) >= 1:
                self.fact(z3.Length(out.t) >= z3.Length(r.t), why)
            if len(sa) == 1 and sa not in sb:
                # every occurrence of a single character replaced by text without it: none is left
                self.fact(z3.Not(z3.Contains(out.t, a)), why)
            if len(sa) == 1 and len(sb) >= 1:
                self.fact(z3.Implies(z3.Length(r.t) > 0,
                                     z3.SubString(out.t, 0, 1) == z3.If(z3.SubString(r.t, 0, 1) == a,
                                                                         z3.StringVal(sb[0]), z3.SubString(r.t, 0, 1))), why)
        return out

    def sm_lower(self, r, args, kw, st, exits, line):
        return V(STR, self.UF('str_lower', SS(), SS())(r.t))

    def sm_upper(self, r, args, kw, st, exits, line):
        return V(STR, self.UF('str_upper', SS(), SS())(r.t))

    def sm_isspace(self, r, args, kw, st, exits, line):
        return V(BOOL, self.UF('str_isspace', SS(), z3.BoolSort())(r.t))

    def sm_isidentifier(self, r, args, kw, st, exits, line):
        return V(BOOL, self.UF('str_isidentifier', SS(), z3.BoolSort())(r.t))

    def sm_find(self, r, args, kw, st, exits, line):
        return V(INT, z3.IndexOf(r.t, args[0].t, 0))

    def sm_index(self, r, args, kw, st, exits, line):
        if not self.raise_if(st, z3.Not(z3.Contains(r.t, args[0].t)), 'ValueError', exits, line, 'str.index: substring not found'):
            return None
        return V(INT, z3.IndexOf(r.t, args[0].t, 0))

    def sm_count(self, r, args, kw, st, exits, line):
        f = self.UF('str_count', SS(), SS(), z3.IntSort())
        st.assume(f(r.t, args[0].t) >= 0)
        return V(INT, f(r.t, args[0].t))

    def sm_encode(self, r, args, kw, st, exits, line):
        return V(BYTES, self.UF('str_encode', SS(), BYTES.sort())(r.t))

    def sm_format(self, r, args, kw, st, exits, line):
        raise Unsupported('str.format')

    # --- bytes
    def bm_startswith(self, r, args, kw, st, exits, line):
        return V(BOOL, z3.PrefixOf(args[0].t, r.t))

    def bm_split(self, r, args, kw, st, exits, line):
        if len(args) == 2:
            f = self.UF('bytes_split_max', BYTES.sort(), BYTES.sort(), z3.IntSort(), z3.SeqSort(BYTES.sort()))
            out = V(TSeq(BYTES), f(r.t, args[0].t, args[1].t))
            st.assume(z3.Length(out.t) >= 1)
            st.assume(z3.Length(out.t) <= args[1].t + 1)
            return out
        raise Unsupported('bytes.split')

    def bm_decode(self, r, args, kw, st, exits, line):
        ok = self.UF('bytes_is_utf8', BYTES.sort(), z3.BoolSort())
        if not self.raise_if(st, z3.Not(ok(r.t)), 'UnicodeDecodeError', exits, line, 'decode'):
            return None
        return V(STR, self.UF('bytes_decode', BYTES.sort(), SS())(r.t))

    def bm_join(self, r, args, kw, st, exits, line):
        s = self.seq_of(args[0], st)
        f = self.UF('bytes_join', BYTES.sort(), z3.SeqSort(BYTES.sort()), BYTES.sort())
        if isinstance(s.ty, TSeq) and s.ty.elem is NONE or _is_empty(s.t):
            return V(BYTES, z3.Empty(BYTES.sort()))     # sep.join([]) is empty (CPython)
        return V(BYTES, f(r.t, s.t))

    # --- list
    def list_method(self, recv, name, args, kw, st, exits, line, recv_expr):
        ty = recv.ty
        outs_states = None

        def writeback(newv):
            yield from self.write_through(recv_expr, newv, st, exits)
        if name == 'append':
            ety = ty.elem if ty.elem is not NONE else args[0].ty
            nty = TSeq(ety)
            base = self.coerce(recv, nty)
            nv = V(nty, z3.Concat(base.t, z3.Unit(self.coerce(args[0], ety).t)))
            for s2 in writeback(nv):
                yield s2, NONE_V
            return
        if name == 'extend':
            other = self.seq_of(args[0], st)
            nty = ty if ty.elem is not NONE else other.ty
            if other.ty.elem is NONE:
                yield st, NONE_V
                return
            nv = V(nty, z3.Concat(self.coerce(recv, nty).t, other.t))
            for s2 in writeback(nv):
                yield s2, NONE_V
            return
        if name == 'insert':
            n = z3.Length(recv.t)
            i = args[0].t
            pos = z3.If(i < 0, z3.If(i + n < 0, 0, i + n), z3.If(i > n, n, i))
            nv = V(ty, z3.Concat(z3.Extract(recv.t, 0, pos), z3.Unit(self.coerce(args[1], ty.elem).t),
                                 z3.Extract(recv.t, pos, n - pos)))
            for s2 in writeback(nv):
                yield s2, NONE_V
            return
        if name == 'pop':
            if ty.elem is NONE:
                if not self.spec_mode:
                    exits.append(Outcome('raise', st, self.exc_val('IndexError'), line, 'pop from empty list'))
                return
            n = z3.Length(recv.t)
            if args:
                i = args[0].t
                pos = z3.If(i < 0, n + i, i)
            else:
                pos = n - 1
            if not self.raise_if(st, z3.Or(pos < 0, pos >= n), 'IndexError', exits, line, 'pop index'):
                return
            val = V(ty.elem, recv.t[pos])
            nv = V(ty, z3.Concat(z3.Extract(recv.t, 0, pos), z3.Extract(recv.t, pos + 1, n - pos - 1)))
            for s2 in writeback(nv):
                yield s2, val
            return
        if name == 'remove':
            if ty.elem is NONE:
                if not self.spec_mode:
                    exits.append(Outcome('raise', st, self.exc_val('ValueError'), line, 'remove from empty list'))
                return
            x = self.coerce(args[0], ty.elem)
            if not self.raise_if(st, z3.Not(z3.Contains(recv.t, z3.Unit(x.t))), 'ValueError', exits, line,
                                 'list.remove(x): x not in list'):
                return
            pos = z3.IndexOf(recv.t, z3.Unit(x.t), 0)
            n = z3.Length(recv.t)
            nv = V(ty, z3.Concat(z3.Extract(recv.t, 0, pos), z3.Extract(recv.t, pos + 1, n - pos - 1)))
            if not self.spec_mode:
                # name the new list and state its elements pointwise (consequences of the definition above; the sequence
                # solver does not derive them under quantified invariants)
                nl = fresh(ty, 'removed')
                st.assume(nl.t == nv.t)
                j = z3.Int(fresh_name('j'))
                why = 'list.remove(x): first occurrence dropped, the other elements keep their order (CPython list semantics)'
                st.assume(z3.And(pos >= 0, pos < n, recv.t[pos] == x.t, z3.Length(nl.t) == n - 1))
                st.assume(z3.ForAll([j], z3.Implies(z3.And(j >= 0, j < pos), z3.And(nl.t[j] == recv.t[j], recv.t[j] != x.t)),
                                    patterns=[nl.t[j]]))
                st.assume(z3.ForAll([j], z3.Implies(z3.And(j >= pos, j < n - 1), nl.t[j] == recv.t[j + 1]), patterns=[nl.t[j]]))
                y = z3.Const(fresh_name('y'), ty.elem.sort())
                st.assume(z3.ForAll([y], z3.Implies(z3.Contains(nl.t, z3.Unit(y)), z3.Contains(recv.t, z3.Unit(y))),
                                    patterns=[z3.Contains(nl.t, z3.Unit(y))]))
                st.assume(z3.ForAll([y], z3.Implies(z3.And(y != x.t, z3.Contains(recv.t, z3.Unit(y))), z3.Contains(nl.t, z3.Unit(y))),
                                    patterns=[z3.Contains(recv.t, z3.Unit(y))]))
                # x is still a member only if it occurred twice: a second position (witness constant)
                q = z3.Int(fresh_name('q'))
                st.assume(z3.Implies(z3.Contains(nl.t, z3.Unit(x.t)), z3.And(q >= 0, q < n, q != pos, recv.t[q] == x.t)))
                self.assumptions_used['list.remove'] = why
                nv = nl
            for s2 in writeback(nv):
                yield s2, NONE_V
            return
        if name == 'index':
            x = self.coerce(args[0], ty.elem)
            if not self.raise_if(st, z3.Not(z3.Contains(recv.t, z3.Unit(x.t))), 'ValueError', exits, line, 'list.index'):
                return
            yield st, V(INT, z3.IndexOf(recv.t, z3.Unit(x.t), 0))
            return
        if name == 'sort':
            # in-place sort: the list becomes a permutation of itself (same model as sorted())
            out = self.b_sorted([recv], dict(kw), st, exits, line)
            for s2 in writeback(out):
                yield s2, NONE_V
            return
        if name == 'copy':
            yield st, recv
            return
        if name == 'clear':
            for s2 in writeback(V(ty, z3.Empty(ty.sort()))):
                yield s2, NONE_V
            return
        raise Unsupported(f'list.{name}')

    # --- deque-like objects (shape field __items__)
    def deque_method(self, recv, sv, name, args, kw, st, exits, line):
        ty = sv.ty
        n = z3.Length(sv.t)
        if name == 'popleft':
            if not self.raise_if(st, n == 0, 'IndexError', exits, line, 'pop from an empty deque'):
                return
            val = V(ty.elem, sv.t[0])
            self.write_field(st, recv, '__items__', V(ty, z3.Extract(sv.t, 1, n - 1)))
            yield st, val
            return
        if name == 'append':
            self.write_field(st, recv, '__items__', V(ty, z3.Concat(sv.t, z3.Unit(self.coerce(args[0], ty.elem).t))))
            yield st, NONE_V
            return
        if name == '__len__':
            yield st, V(INT, n)
            return
        raise Unsupported(f'deque.{name}')

    # --- dict
    def map_method(self, recv, name, args, kw, st, exits, line, recv_expr):
        ty = recv.ty
        if name == 'get':
            k = self.coerce(args[0], ty.k)
            cell = z3.Select(recv.t, k.t)
            if isinstance(ty.v, TRef) and not ty.v.nullable and not self.spec_mode:
                # type invariant of Map[K, Ref[C]]: a stored value is an object, not None
                st.assume(z3.Implies(ty.vopt.is_some(cell), ty.vopt.val(cell) != null()))
            if len(args) > 1:
                d = args[1]
                if isinstance(d.ty, TPy):
                    raise Unsupported('dict.get default')
                jt = _join(ty.v, d.ty)
                yield st, V(jt, z3.If(ty.vopt.is_some(cell), self.coerce(V(ty.v, ty.vopt.val(cell)), jt).t,
                                      self.coerce(d, jt).t))
            else:
                yield st, V(ty.vopt, cell)
            return
        if name in ('values', 'keys', 'items'):
            ety = {'values': ty.v, 'keys': ty.k, 'items': TTuple([ty.k, ty.v])}[name]
            f = self.UF(f'map_{name}_' + _san(ty.key), ty.sort(), z3.SeqSort(ety.sort()))
            out = V(TSeq(ety), f(recv.t))
            size = self.UF('map_size_' + _san(ty.key), ty.sort(), z3.IntSort())
            self.fact(z3.Length(out.t) == size(recv.t))
            yield st, out
            return
        if name == 'update':
            other = args[0]
            if other.ty != ty:
                raise Unsupported(f'dict.update with {other.ty}')
            k = z3.Const(fresh_name('uk'), ty.k.sort())
            nv = V(ty, z3.Lambda([k], z3.If(ty.vopt.is_some(z3.Select(other.t, k)), z3.Select(other.t, k),
                                            z3.Select(recv.t, k))))
            for s2 in self.assign(recv_expr, nv, st, exits):
                yield s2, NONE_V
            return
        if name == 'setdefault':
            k = self.coerce(args[0], ty.k)
            d = self.coerce(args[1], ty.v)
            cell = z3.Select(recv.t, k.t)
            present = ty.vopt.is_some(cell)
            val = V(ty.v, z3.If(present, ty.vopt.val(cell), d.t))
            nv = V(ty, z3.If(present, recv.t, z3.Store(recv.t, k.t, ty.vopt.some(d.t))))
            for s2 in self.write_through(recv_expr, nv, st, exits):
                yield s2, val
            return
        raise Unsupported(f'dict.{name}')

    def write_through(self, recv_expr, newv, st, exits):
        """in-place mutation of a container: rebind the receiver and, if it aliases a heap location
        (x = obj.d[k]), that location too"""
        if recv_expr is None:
            raise Unsupported('mutation of a temporary container')
        alias = st.env.get('$alias:' + recv_expr.id) if isinstance(recv_expr, ast.Name) else None
        for s2 in self.assign(recv_expr, newv, st, exits):
            if alias is not None:
                s2.env['$alias:' + recv_expr.id] = alias
                for s3 in self.assign(alias.t, newv, s2, exits):
                    yield s3
            else:
                yield s2

    def set_method(self, recv, name, args, kw, st, exits, line, recv_expr):
        ty = recv.ty
        if name == 'add':
            nv = V(ty, z3.Store(recv.t, self.coerce(args[0], ty.elem).t, z3.BoolVal(True)))
            for s2 in self.write_through(recv_expr, nv, st, exits):
                yield s2, NONE_V
            return
        if name == 'discard':
            nv = V(ty, z3.Store(recv.t, self.coerce(args[0], ty.elem).t, z3.BoolVal(False)))
            for s2 in self.write_through(recv_expr, nv, st, exits):
                yield s2, NONE_V
            return
        raise Unsupported(f'set.{name}')


def _join(a, b):
    from .exprs import _join_ty
    j = _join_ty(a, b)
    if j is None:
        raise Unsupported(f'cannot join {a} and {b}')
    return j


def _san(k):
    return ''.join(c if c.isalnum() else '_' for c in k)


def _is_empty(t):
    try:
        t = z3.simplify(t)
        return z3.is_app(t) and t.decl().kind() == z3.Z3_OP_SEQ_EMPTY
    except Exception:
        return False
