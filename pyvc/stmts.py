"""Statement semantics."""
from __future__ import annotations
import ast
import z3
from .types import *      # noqa
from .values import *     # noqa
from .contracts import Loop

MUTATORS = {'append', 'extend', 'pop', 'remove', 'insert', 'add', 'update', 'clear', 'popleft',
            'discard', 'sort', 'reverse', 'setdefault', 'appendleft'}


def assigned_names(stmts):
    """names (locals) and heap fields possibly modified by a statement list (syntactic)."""
    names, fields = set(), set()
    receivers = set()

    def tgt(t):
        if isinstance(t, ast.Name):
            names.add(t.id)
        elif isinstance(t, (ast.Tuple, ast.List)):
            for e in t.elts:
                tgt(e)
        elif isinstance(t, ast.Starred):
            tgt(t.value)
        elif isinstance(t, ast.Attribute):
            fields.add(t.attr)
        elif isinstance(t, ast.Subscript):
            base = t.value
            if isinstance(base, ast.Name):
                names.add(base.id)
            elif isinstance(base, ast.Attribute):
                fields.add(base.attr)

    def walk(node, nested=False):
        """pre-order walk that skips blocks which always leave the loop (last statement break/return/raise, no
        `continue` inside): their effects never reach the back edge.  (The back-edge frame check in run_loop
        makes this pruning safe: anything not havocked must be provably unchanged there.)"""
        yield node
        for name, val in ast.iter_fields(node):
            if isinstance(val, list) and val and isinstance(val[0], ast.stmt):
                if name in ('body', 'orelse') and isinstance(node, ast.If) and _leaves_loop(val, nested):
                    continue
                inner = nested or isinstance(node, (ast.For, ast.While))
                for c in val:
                    yield from walk(c, inner)
            elif isinstance(val, list):
                for c in val:
                    if isinstance(c, ast.AST):
                        yield from walk(c, nested)
            elif isinstance(val, ast.AST):
                yield from walk(val, nested)

    for s in stmts:
        for n in walk(s):
            if isinstance(n, (ast.FunctionDef, ast.Lambda)):
                continue
            if isinstance(n, ast.Assign):
                for t in n.targets:
                    tgt(t)
            elif isinstance(n, (ast.AugAssign, ast.AnnAssign)):
                tgt(n.target)
            elif isinstance(n, ast.For):
                tgt(n.target)
            elif isinstance(n, ast.NamedExpr):
                tgt(n.target)
            elif isinstance(n, ast.Delete):
                for t in n.targets:
                    tgt(t)
            elif isinstance(n, ast.ExceptHandler) and n.name:
                names.add(n.name)
            elif isinstance(n, (ast.Yield, ast.YieldFrom)):
                names.add('yielded')       # the generator's accumulator (ghost local)
            elif isinstance(n, ast.With):
                for it in n.items:
                    if it.optional_vars is not None:
                        tgt(it.optional_vars)
            elif isinstance(n, ast.Call) and isinstance(n.func, ast.Attribute) and n.func.attr in MUTATORS:
                r = n.func.value
                if isinstance(r, ast.Name):
                    receivers.add(r.id)
                elif isinstance(r, ast.Attribute):
                    fields.add(r.attr)
    assigned_names.last_receivers = receivers - names
    return names | receivers, fields


class StmtMixin:
    # ------------------------------------------------------------------ blocks
    def exec_block(self, stmts, st):
        outs = []
        cur = [st]
        for s in stmts:
            nxt = []
            for c in cur:
                for o in self.exec_stmt(s, c):
                    if o.kind == 'normal':
                        nxt.append(o.st)
                    else:
                        outs.append(o)
            cur = nxt
            if not cur:
                break
            if len(cur) + len(outs) > self.max_paths:
                raise Unsupported('path explosion')
        outs.extend(Outcome('normal', c) for c in cur)
        return outs

    def exec_stmt(self, s, st):
        m = getattr(self, 'x_' + type(s).__name__, None)
        if m is None:
            raise Unsupported(f'statement {type(s).__name__} at L{s.lineno}')
        return m(s, st)

    # ------------------------------------------------------------------ simple statements
    def x_Pass(self, s, st):
        return [Outcome('normal', st)]

    def x_Expr(self, s, st):
        if isinstance(s.value, ast.Constant):
            return [Outcome('normal', st)]
        if isinstance(s.value, (ast.Yield, ast.YieldFrom)):
            # a generator whose consumer reads everything: modelled by the sequence of yielded values, built eagerly in the
            # ghost local `yielded` (stated assumption: no observable interleaving with the consumer)
            if 'yielded' not in st.env:
                raise Unsupported('yield outside a function declared as generator (contract returns Seq[...])')
            outs = []
            if s.value.value is None:
                raise Unsupported('bare yield')
            for st2, v in self.ev(s.value.value, st, outs):
                acc = st2.env['yielded']
                if isinstance(s.value, ast.Yield):
                    item = self.coerce(v, acc.ty.elem, st2)
                    st2.env['yielded'] = V(acc.ty, z3.Concat(acc.t, z3.Unit(item.t)))
                else:
                    sv = self.coerce(self.seq_of(v, st2), acc.ty, st2)
                    st2.env['yielded'] = V(acc.ty, z3.Concat(acc.t, sv.t))
                outs.append(Outcome('normal', st2))
            return outs
        outs = []
        for st2, v in self.ev(s.value, st, outs):
            outs.append(Outcome('normal', st2))
        return outs

    def x_Import(self, s, st):
        for a in s.names:
            nm = a.asname or a.name.split('.')[0]
            st.env[nm] = V(MOD, a.name if a.asname else a.name.split('.')[0])
        return [Outcome('normal', st)]

    def x_ImportFrom(self, s, st):
        for a in s.names:
            nm = a.asname or a.name
            st.env[nm] = self.resolve_dotted(f'{s.module}.{a.name}') if not s.level else V(MOD, f'{s.module}.{a.name}')
        return [Outcome('normal', st)]

    def x_Global(self, s, st):
        raise Unsupported('global statement')

    def x_Nonlocal(self, s, st):
        # closures are inlined with a shared frame view: nonlocal names are written through
        st.notes.append(('nonlocal', tuple(s.names)))
        return [Outcome('normal', st)]

    def x_FunctionDef(self, s, st):
        st.env[s.name] = V(FUN, Closure(s, None, self.fstack[-1]))
        return [Outcome('normal', st)]

    def x_Assign(self, s, st):
        outs = []
        for st2, v in self.ev(s.value, st, outs):
            if len(s.targets) == 1 and isinstance(s.targets[0], ast.Name):
                nm = s.targets[0].id
                st2.env.pop('$alias:' + nm, None)
                if isinstance(s.value, (ast.Subscript, ast.Attribute)) and isinstance(v.ty, (TSeq, TSet, TMap)):
                    # `x = obj.d[k]` binds x to a mutable container that lives on the heap: in-place mutations
                    # through x are written through to that location
                    st2.env['$alias:' + nm] = V(TPy('lvalue'), s.value)
            cur = [st2]
            for t in s.targets:
                nxt = []
                for c in cur:
                    for c2 in self.assign(t, v, c, outs):
                        nxt.append(c2)
                cur = nxt
            outs.extend(Outcome('normal', c) for c in cur)
        return outs

    def x_AnnAssign(self, s, st):
        if s.value is None:
            return [Outcome('normal', st)]
        outs = []
        for st2, v in self.ev(s.value, st, outs):
            for c2 in self.assign(s.target, v, st2, outs):
                outs.append(Outcome('normal', c2))
        return outs

    def x_AugAssign(self, s, st):
        load = _as_load(s.target)
        binop = ast.BinOp(left=load, op=s.op, right=s.value)
        ast.copy_location(binop, s)
        ast.fix_missing_locations(binop)
        outs = []
        for st2, v in self.ev(binop, st, outs):
            for c2 in self.assign(s.target, v, st2, outs):
                outs.append(Outcome('normal', c2))
        return outs

    def assign(self, t, v, st, outs):
        """generator of states after binding target t to v"""
        if isinstance(t, ast.Name):
            st.env[t.id] = v
            yield st
        elif isinstance(t, (ast.Tuple, ast.List)):
            if any(isinstance(e, ast.Starred) for e in t.elts):
                raise Unsupported('starred assignment target')
            n = len(t.elts)
            if isinstance(v.ty, TTuple):
                if len(v.ty.elems) != n:
                    outs.append(Outcome('raise', st, self.exc_val('ValueError'), t.lineno, 'unpack arity'))
                    return
                items = [V(e, v.ty.get(v.t, i)) for i, e in enumerate(v.ty.elems)]
            elif isinstance(v.ty, TSeq):
                ok = z3.Length(v.t) == n
                bad = st.copy().assume(z3.Not(ok))
                if not self.spec_mode and self.feasible(bad):
                    outs.append(Outcome('raise', bad, self.exc_val('ValueError'), t.lineno, 'unpack arity'))
                st.assume(ok)
                if not self.feasible(st):
                    return
                items = [V(v.ty.elem, v.t[i]) for i in range(n)]
            else:
                raise Unsupported(f'unpacking a {v.ty}')
            cur = [st]
            for e, it in zip(t.elts, items):
                nxt = []
                for c in cur:
                    nxt.extend(self.assign(e, it, c, outs))
                cur = nxt
            yield from cur
        elif isinstance(t, ast.Attribute):
            for st2, r in self.ev(t.value, st, outs):
                if not isinstance(r.ty, TRef):
                    raise Unsupported(f'attribute store on {r.ty}')
                ci = self.src.find_class(r.ty.cls)
                setter = next(((c, c.setters[t.attr]) for c in (self.src.class_mro(ci) if ci is not None else [])
                               if t.attr in c.setters), None)
                if setter is not None:
                    # assignment to a property: its setter runs (by contract `C.attr.setter`, or inlined)
                    c, node = setter
                    fr = FuncRef(c.module.relpath, f'{c.qualname}.{t.attr}.setter', node, cls=c)
                    for st3, _ in self.call_func(fr, r, [v], {}, st2, outs, t):
                        yield st3
                    continue
                self.write_field(st2, r, t.attr, v)
                yield st2
        elif isinstance(t, ast.Subscript):
            for st2, base in self.ev(t.value, st, outs):
                for st3, idx in self.ev(t.slice, st2, outs):
                    newbase = self.store_subscript(base, idx, v, st3, outs, t.lineno)
                    if newbase is None:
                        continue
                    alias = st3.env.get('$alias:' + t.value.id) if isinstance(t.value, ast.Name) else None
                    if alias is not None:
                        # `x[k] = v` where x names a container that lives on the heap (x = obj.d): the store goes to that
                        # location (same object in Python), and x keeps naming it
                        for st4 in self.assign(alias.t, newbase, st3, outs):
                            st4.env[t.value.id] = newbase
                            st4.env['$alias:' + t.value.id] = alias
                            yield st4
                        continue
                    yield from self.assign(t.value, newbase, st3, outs)
        else:
            raise Unsupported(f'assignment target {type(t).__name__}')

    def x_Delete(self, s, st):
        outs = []
        cur = [st]
        for t in s.targets:
            nxt = []
            for c in cur:
                if isinstance(t, ast.Subscript):
                    for st2, base in self.ev(t.value, c, outs):
                        if isinstance(t.slice, ast.Slice):
                            for st3, (lo, hi) in self.ev_slice_bounds(t.slice, base, st2, outs):
                                n = z3.Length(base.t)
                                nb = V(base.ty, z3.Concat(z3.Extract(base.t, 0, lo), z3.Extract(base.t, hi, n - hi)))
                                nxt.extend(self.assign(t.value, nb, st3, outs))
                        else:
                            for st3, idx in self.ev(t.slice, st2, outs):
                                nb = self.del_subscript(base, idx, st3, outs, t.lineno)
                                if nb is not None:
                                    nxt.extend(self.assign(t.value, nb, st3, outs))
                elif isinstance(t, ast.Name):
                    c.env.pop(t.id, None)
                    nxt.append(c)
                else:
                    raise Unsupported('del target')
            cur = nxt
        outs.extend(Outcome('normal', c) for c in cur)
        return outs

    def x_Return(self, s, st):
        if s.value is None:
            return [Outcome('return', st, NONE_V, s.lineno)]
        outs = []
        for st2, v in self.ev(s.value, st, outs):
            outs.append(Outcome('return', st2, v, s.lineno))
        return outs

    def x_Break(self, s, st):
        return [Outcome('break', st, line=s.lineno)]

    def x_Continue(self, s, st):
        return [Outcome('continue', st, line=s.lineno)]

    def x_Raise(self, s, st):
        if s.exc is None:
            cur = st.env.get('$exc')
            if cur is None:
                raise Unsupported('bare raise outside handler')
            return [Outcome('raise', st, cur, s.lineno, 'reraise')]
        outs = []
        e = s.exc
        # raise X(...) / raise X / raise var
        name = self.exc_name_of(e.func if isinstance(e, ast.Call) else e, st)
        if name is not None:
            if isinstance(e, ast.Call):
                # evaluate the arguments for their side effects / exceptions (messages are not modelled)
                sts = [st]
                for a in e.args:
                    nxt = []
                    for c in sts:
                        if _is_pure_message(a):
                            nxt.append(c)
                        else:
                            for c2, _ in self.ev(a, c, outs):
                                nxt.append(c2)
                    sts = nxt
                for c in sts:
                    outs.append(Outcome('raise', c, self.exc_val(name), s.lineno, f'raise {name}'))
            else:
                outs.append(Outcome('raise', st, self.exc_val(name), s.lineno, f'raise {name}'))
            return outs
        for st2, v in self.ev(e, st, outs):
            if v.ty is EXC:
                outs.append(Outcome('raise', st2, v, s.lineno, 'raise value'))
            elif isinstance(v.ty, TOpt) and v.ty.inner is EXC:
                outs.append(Outcome('raise', st2, V(EXC, v.ty.val(v.t)), s.lineno, 'raise value'))
            else:
                raise Unsupported(f'raise of {v.ty}')
        return outs

    def exc_name_of(self, e, st):
        """Static resolution of an exception class expression; None if it is not one."""
        if isinstance(e, ast.Name):
            if e.id in st.env:
                return None
            if e.id in self.exc_codes:
                return e.id
            return None
        if isinstance(e, ast.Attribute):
            d = _dotted(e)
            if d in self.exc_codes:
                return d
            if e.attr in self.exc_codes and e.attr not in ('error',):
                return e.attr
        return None

    def x_Assert(self, s, st):
        outs = []
        for st2, v in self.ev(s.test, st, outs):
            t = self.truthy(v)
            bad = st2.copy().assume(z3.Not(t))
            if self.feasible(bad):
                outs.append(Outcome('raise', bad, self.exc_val('AssertionError'), s.lineno, 'assert'))
            ok = st2.assume(t)
            if self.feasible(ok):
                outs.append(Outcome('normal', ok))
        return outs

    def x_If(self, s, st):
        outs = []
        # constant-fold TYPE_CHECKING / version tests
        txt = ast.unparse(s.test)
        if txt == 'TYPE_CHECKING':
            return self.exec_block(s.orelse, st) if s.orelse else [Outcome('normal', st)]
        import re as _re
        mv = _re.fullmatch(r'sys\.version_info\s*(>=|<=|<|>)\s*\((\d+),\s*(\d+)\)', txt)
        if mv:
            # constant-folded for the interpreter the repository runs under (3.12); reported as an assumption
            cur = (3, 12)
            ref = (int(mv.group(2)), int(mv.group(3)))
            taken = {'>=': cur >= ref, '<=': cur <= ref, '<': cur < ref, '>': cur > ref}[mv.group(1)]
            self.assumptions_used['fold:version'] = 'sys.version_info branches are constant-folded for CPython 3.12'
            if taken:
                return self.exec_block(s.body, st)
            return self.exec_block(s.orelse, st) if s.orelse else [Outcome('normal', st)]
        for st2, v in self.ev(s.test, st, outs):
            t = z3.simplify(self.truthy(v, st2))
            if z3.is_true(t):
                outs.extend(self.exec_block(s.body, st2))
                continue
            if z3.is_false(t):
                outs.extend(self.exec_block(s.orelse, st2) if s.orelse else [Outcome('normal', st2)])
                continue
            a = st2.copy().assume(t)
            b = st2.assume(z3.Not(t))
            if self.feasible(a):
                outs.extend(self.exec_block(s.body, a))
            if self.feasible(b):
                outs.extend(self.exec_block(s.orelse, b) if s.orelse else [Outcome('normal', b)])
        return outs

    def x_With(self, s, st):
        # only as an opaque external resource: the context expression is evaluated (by contract),
        # the body runs, __exit__ is assumed not to swallow exceptions.
        outs = []
        cur = [st]
        for it in s.items:
            nxt = []
            for c in cur:
                for c2, v in self.ev(it.context_expr, c, outs):
                    if it.optional_vars is not None:
                        nxt.extend(self.assign(it.optional_vars, v, c2, outs))
                    else:
                        nxt.append(c2)
            cur = nxt
        for c in cur:
            outs.extend(self.exec_block(s.body, c))
        return outs

    # ------------------------------------------------------------------ try
    def x_Try(self, s, st):
        body_outs = self.exec_block(s.body, st)
        res = []
        for o in body_outs:
            if o.kind == 'normal':
                if s.orelse:
                    res.extend(self.exec_block(s.orelse, o.st))
                else:
                    res.append(o)
            elif o.kind == 'raise':
                res.extend(self.dispatch_handlers(s.handlers, o))
            else:
                res.append(o)
        if not s.finalbody:
            return res
        final = []
        for o in res:
            for fo in self.exec_block(s.finalbody, o.st):
                if fo.kind == 'normal':
                    final.append(Outcome(o.kind, fo.st, o.val, o.line, o.why))
                else:
                    final.append(fo)
        return final

    def dispatch_handlers(self, handlers, o):
        res = []
        st = o.st
        exc = o.val
        for h in handlers:
            if h.type is None:
                names = ['BaseException']
            else:
                elts = h.type.elts if isinstance(h.type, ast.Tuple) else [h.type]
                names = []
                for e in elts:
                    n = self.exc_name_of(e, st)
                    if n is None:
                        raise Unsupported(f'handler type {ast.unparse(e)}')
                    names.append(n)
            cond = z3.simplify(z3.Or([self.exc_is(exc.t, n) for n in names]))
            if z3.is_false(cond):
                continue
            m = st.copy().assume(cond)
            if self.feasible(m):
                prev = m.env.get('$exc')
                m.env['$exc'] = exc
                if h.name:
                    m.env[h.name] = exc
                for ho in self.exec_block(h.body, m):
                    if prev is None:
                        ho.st.env.pop('$exc', None)
                    else:
                        ho.st.env['$exc'] = prev
                    res.append(ho)
            if z3.is_true(cond):
                return res
            st = st.copy().assume(z3.Not(cond))
            if not self.feasible(st):
                return res
        res.append(Outcome('raise', st, exc, o.line, o.why))
        return res

    # ------------------------------------------------------------------ loops
    def loop_spec(self, node):
        ctx = self.fstack[-1]
        ordn = ctx.loop_ord.get(id(node))
        c = ctx.contract
        if c is None or ordn is None:
            return None, ordn
        spec = c.loops.get(ordn)
        if spec is None:
            # loops may also be keyed by a fragment of their header text (robust against edits elsewhere)
            try:
                head = ast.unparse(node.iter) if isinstance(node, ast.For) else ast.unparse(node.test)
                tgt = ast.unparse(node.target) if isinstance(node, ast.For) else ''
            except Exception:
                head, tgt = '', ''
            full = f'for {tgt} in {head}' if isinstance(node, ast.For) else f'while {head}'
            for k_, v_ in c.loops.items():
                if isinstance(k_, str) and k_ in full:
                    return v_, ordn
        return spec, ordn

    def x_While(self, s, st):
        spec, ordn = self.loop_spec(s)
        if spec is None:
            raise Unsupported(f'loop #{ordn} at L{s.lineno} has no invariant in the sidecar')
        return self.run_loop(s, st, spec, ordn, cond_expr=s.test, pre_body=None, step=None)

    def run_loop(self, s, st, spec, ordn, cond_expr, pre_body, step, idx_name=None, n_term=None):
        """Generic invariant-cut loop.
        cond_expr : ast expr (while) or None (for: cond is idx < n_term)
        pre_body  : callable(state) -> None, binds the loop target at the top of each iteration
        step      : callable(state) -> None, executed after the body (idx += 1)
        """
        outs = []
        tag = f'#{ordn}'
        # 1. invariant holds on entry
        for hnt in spec.init_hints:
            st.assume(self.instantiate(hnt, st))
        for k, inv in enumerate(spec.invariant):
            g = self.ev_spec(inv, st)
            self.oblige('inv-init', st, g, s.lineno, inv, tag=f'{tag}.{k}')
        # 2. havoc everything the body may modify
        names, fields = assigned_names(s.body + (s.orelse if False else []))
        if spec.modifies:
            for m in spec.modifies:
                if m in self.reg.ghosts:
                    pass
                fields.add(m)
        h = st.copy()
        pre = st.snapshot()
        recv_only = set(getattr(assigned_names, 'last_receivers', ()))
        # effects of local closures called in the body (nested defs mutating containers of this frame)
        for n in ast.walk(ast.Module(body=list(s.body), type_ignores=[])):
            if isinstance(n, ast.Call) and isinstance(n.func, ast.Name) and n.func.id in st.env:
                cv = st.env[n.func.id]
                if cv.ty is FUN and isinstance(cv.t, Closure) and not isinstance(cv.t.node, ast.Lambda):
                    cn, cf = assigned_names(cv.t.node.body)
                    crecv = set(getattr(assigned_names, 'last_receivers', ()))
                    clocal = {a.arg for a in cv.t.node.args.args} | {x.id for x in ast.walk(cv.t.node)
                                                                    if isinstance(x, ast.Name) and isinstance(x.ctx, ast.Store)}
                    for nm in crecv - clocal:
                        names.add(nm)
                    fields |= cf
        if '$alloc' in h.ghost:
            # allocation inside the body: the allocated set only grows
            old_a = h.ghost['$alloc']
            new_a = fresh(old_a.ty, 'alloc')
            r_ = z3.Const(fresh_name('r'), RefSort())
            h.ghost['$alloc'] = new_a
            h.assume(z3.ForAll([r_], z3.Implies(z3.Select(old_a.t, r_), z3.Select(new_a.t, r_))))
        for nm in sorted(names):
            if nm == idx_name:
                continue
            if nm in h.env:
                v = h.env[nm]
                if nm in recv_only and isinstance(v.ty, (TRef, TObj)):
                    continue        # x.m(...) on an object does not rebind x; its effect is on the heap (callee frame)
                if isinstance(v.ty, TPy):
                    raise Unsupported(f'loop reassigns python-level value {nm}')
                if v.ty is NONE:
                    raise Unsupported(f'loop variable {nm} starts as None: give it a type in the sidecar')
                h.env[nm] = fresh(v.ty, nm)
        modset = set()
        for f in sorted(fields):
            if f in h.heap:
                arr = h.heap[f]
                h.heap[f] = z3.Const(fresh_name('H_' + f), arr.sort())
                modset.add(f)
            elif f in h.ghost:
                h.ghost[f] = fresh(h.ghost[f].ty, f)
                modset.add(f)
            else:
                fty = self.any_field_ty(f)
                if fty is not None:
                    arr = self.heap_arr(st, f, fty)        # the pre-loop array (lazily created)
                    pre.heap[f] = arr
                    h.heap[f] = z3.Const(fresh_name('H_' + f), arr.sort())
                modset.add(f)
        if idx_name is not None:
            h.env[idx_name] = fresh(INT, idx_name)
            h.assume(h.env[idx_name].t >= 0)
            h.assume(h.env[idx_name].t <= n_term)
        inv_start = len(h.pc)
        for inv in spec.invariant:
            h.assume(self.ev_spec(inv, h, old=st.old))
        if not self.feasible(h):
            return outs
        var0 = None
        if spec.decreases:
            var0 = self.ev_spec_val(spec.decreases, h).t
        self.loop_mod_stack.append(modset)
        try:
            # 3. condition
            if cond_expr is not None:
                branches = []
                for st2, v in self.ev(cond_expr, h.copy(), outs):
                    t = self.truthy(v)
                    branches.append((st2, t))
            else:
                branches = [(h.copy(), h.env[idx_name].t < n_term)]
            for st2, t in branches:
                enter = st2.copy().assume(t)
                leave = st2.assume(z3.Not(t))
                if self.feasible(enter):
                    enter.env['$entry'] = V(TPy('entry'), enter.snapshot())
                    head_len = len(enter.pc)
                    if pre_body is not None:
                        pre_body(enter)
                    for o in self.exec_block(s.body, enter):
                        if o.kind in ('normal', 'continue'):
                            e = o.st
                            if step is not None:
                                step(e)
                            # frame of the loop: what was not havocked at the head must be unchanged at the back edge
                            for f_, arr in e.heap.items():
                                if f_ in modset:
                                    continue
                                base_arr = h.heap.get(f_)
                                if base_arr is None:
                                    if str(arr) == 'H_' + f_:
                                        continue
                                    raise Unsupported(f'loop body modifies {f_} (first touched inside): add it to the loop `modifies`')
                                if not z3.eq(arr, base_arr):
                                    self.oblige('loop-frame', e, arr == base_arr, s.lineno,
                                                f'{f_} unchanged along the back edge (not in the loop `modifies`)', tag=f'{tag}.{f_}')
                            for n_, hv in h.env.items():
                                if n_.startswith('$') or n_ == idx_name or n_ not in e.env or n_ in names:
                                    continue
                                ev_ = e.env[n_]
                                if isinstance(hv.ty, TPy) or hv.ty is NONE or ev_.ty != hv.ty:
                                    if ev_ is not hv and not (isinstance(hv.ty, TPy) or hv.ty is NONE):
                                        raise Unsupported(f'loop body changes the type of {n_}')
                                    continue
                                if ev_.t is not hv.t and not z3.eq(ev_.t, hv.t):
                                    self.oblige('loop-frame', e, ev_.t == hv.t, s.lineno,
                                                f'local {n_} unchanged along the back edge', tag=f'{tag}.{n_}')
                            for g_, gv in e.ghost.items():
                                if g_ in modset or g_ not in h.ghost or g_ == '$alloc':
                                    continue
                                if not z3.eq(gv.t, h.ghost[g_].t):
                                    self.oblige('loop-frame', e, gv.t == h.ghost[g_].t, s.lineno,
                                                f'ghost {g_} unchanged along the back edge', tag=f'{tag}.{g_}')
                            for hnt in spec.hints:
                                e.assume(self.instantiate(hnt, e))
                            proved = []
                            for k, a in enumerate(spec.asserts):
                                g = self.ev_spec(a, e, old=st.old)
                                self.oblige('loop-assert', e, g, s.lineno, a, tag=f'{tag}.{k}')
                                e = e.copy().assume(g)
                                proved.append(g)
                            if spec.focus and proved:
                                e = e.copy()
                                e.pc = e.pc[inv_start:head_len] + proved
                            for k, inv in enumerate(spec.invariant):
                                g = self.ev_spec(inv, e, old=st.old)
                                self.oblige('inv-preserve', e, g, s.lineno, inv, tag=f'{tag}.{k}')
                            if var0 is not None:
                                var1 = self.ev_spec_val(spec.decreases, e).t
                                self.oblige('variant', e, z3.And(var1 < var0, var0 >= 0), s.lineno,
                                            spec.decreases, tag=tag)
                        elif o.kind == 'break':
                            outs.append(Outcome('normal', o.st))
                        else:
                            outs.append(o)
                if self.feasible(leave):
                    if s.orelse:
                        outs.extend(self.exec_block(s.orelse, leave))
                    else:
                        outs.append(Outcome('normal', leave))
        finally:
            self.loop_mod_stack.pop()
        return outs

    def x_For(self, s, st):
        spec, ordn = self.loop_spec(s)
        outs = []
        res = []
        for st2, it in self.ev(s.iter, st, outs):
            res.extend(self.for_over(s, st2, it, spec, ordn, outs))
        return outs + res

    def for_over(self, s, st, it, spec, ordn, outs):
        # literal tuples / short concrete sequences: unroll
        if isinstance(it.ty, TTuple):
            items = [V(e, it.ty.get(it.t, i)) for i, e in enumerate(it.ty.elems)]
            return self.unroll_for(s, st, items)
        seqs = self.iter_seq(it, st)     # (length term, elem getter, elem type)
        if seqs is None:
            raise Unsupported(f'for over {it.ty} at L{s.lineno}')
        n, getter = seqs
        if spec is None:
            nn = z3.simplify(n)
            if z3.is_int_value(nn) and nn.as_long() <= 8:
                return self.unroll_for(s, st, [getter(z3.IntVal(i)) for i in range(nn.as_long())])
            raise Unsupported(f'loop #{ordn} at L{s.lineno} has no invariant in the sidecar')
        idx = spec.index or f'_i{ordn}'
        # the iterated sequence is a snapshot: mutation of the same variable inside the body is not supported
        names, _ = assigned_names(s.body)
        if isinstance(s.iter, ast.Name) and s.iter.id in names:
            raise Unsupported('loop body mutates the list it iterates')
        st.env[idx] = mk_int(0)

        def pre_body(e):
            k = e.env[idx].t
            item = getter(k)
            if isinstance(item.ty, TRef) and not item.ty.nullable:
                e.assume(item.t != null())        # type invariant of Seq[Ref[C]]: its elements are objects, not None
            for _ in self.assign(s.target, item, e, outs):
                pass

        def step(e):
            e.env[idx] = V(INT, e.env[idx].t + 1)
        return self.run_loop(s, st, spec, ordn, None, pre_body, step, idx_name=idx, n_term=n)

    def unroll_for(self, s, st, items):
        outs = []
        cur = [st]
        broke = []
        for itv in items:
            nxt = []
            for c in cur:
                for c2 in self.assign(s.target, itv, c, outs):
                    for o in self.exec_block(s.body, c2):
                        if o.kind in ('normal', 'continue'):
                            nxt.append(o.st)
                        elif o.kind == 'break':
                            broke.append(o.st)
                        else:
                            outs.append(o)
            cur = nxt
        for c in cur:
            if s.orelse:
                outs.extend(self.exec_block(s.orelse, c))
            else:
                outs.append(Outcome('normal', c))
        outs.extend(Outcome('normal', b) for b in broke)
        return outs


def _leaves_loop(block, nested=False):
    last = block[-1]
    if not isinstance(last, (ast.Return, ast.Raise) if nested else (ast.Break, ast.Return, ast.Raise)):
        return False
    for st_ in block:
        for n in ast.walk(st_):
            if isinstance(n, ast.Continue):
                return False
            if isinstance(n, (ast.For, ast.While)):
                return False
    return True


def _as_load(t):
    t2 = ast.parse(ast.unparse(t), mode='eval').body
    ast.copy_location(t2, t)
    for n in ast.walk(t2):
        ast.copy_location(n, t)
    return t2


def _dotted(e):
    parts = []
    while isinstance(e, ast.Attribute):
        parts.append(e.attr)
        e = e.value
    if isinstance(e, ast.Name):
        parts.append(e.id)
        return '.'.join(reversed(parts))
    return None


def _is_pure_message(a):
    """exception-message argument that cannot raise: literals, f-strings / % of names"""
    for n in ast.walk(a):
        if isinstance(n, (ast.Call, ast.Subscript, ast.Await, ast.Yield)):
            return False
    return True
