"""Expression semantics (code mode: implicit exceptions fork; spec mode: total, no forks)."""
from __future__ import annotations
import ast
import z3
from .types import *      # noqa
from .values import *     # noqa
from .stmts import _dotted


class SpecFork(Exception):
    pass


class ExprMixin:
    # ------------------------------------------------------------------ entry points
    def ev(self, e, st, exits):
        self.cur_state = st
        m = getattr(self, 'e_' + type(e).__name__, None)
        if m is None:
            raise Unsupported(f'expression {type(e).__name__} at L{getattr(e, "lineno", 0)}')
        return m(e, st, exits)

    def ev1(self, e, st):
        """spec-mode single-result evaluation"""
        exits = []
        res = list(self.ev(e, st, exits))
        if len(res) != 1 or exits:
            raise Unsupported(f'specification expression forks or may raise: {ast.unparse(e)}')
        if res[0][0] is not st:
            # facts added while evaluating (comprehension axioms): keep them
            st.pc[:] = res[0][0].pc
        return res[0][1]

    def ev_spec_val(self, text, st, old=None, extra=None):
        node = self._spec_ast(text)
        self.spec_mode += 1
        saved_cq, self.code_quant = self.code_quant, 0
        saved = st.old
        if old is not None:
            st.old = old
        saved_env = None
        if extra:
            saved_env = dict(st.env)
            st.env.update(extra)
        try:
            return self.ev1(node, st)
        finally:
            self.spec_mode -= 1
            self.code_quant = saved_cq
            st.old = saved
            if saved_env is not None:
                st.env.clear()
                st.env.update(saved_env)

    def ev_spec(self, text, st, old=None, extra=None):
        v = self.ev_spec_val(text, st, old, extra)
        return self.truthy(v)

    _spec_cache = {}

    def _spec_ast(self, text):
        if text not in self._spec_cache:
            self._spec_cache[text] = ast.parse(text.strip(), mode='eval').body
        return self._spec_cache[text]

    def raise_if(self, st, cond, excname, exits, line, why):
        """fork an implicit exception when `cond` is feasible; continue with not cond.
        returns False when the normal continuation is infeasible."""
        cond = z3.simplify(cond)
        if self.spec_mode:
            return True
        if z3.is_false(cond):
            return True
        bad = st.copy().assume(cond)
        if self.feasible(bad):
            exits.append(Outcome('raise', bad, self.exc_val(excname), line, why))
        st.assume(z3.Not(cond))
        if z3.is_true(cond):
            return False
        return self.feasible(st)

    # ------------------------------------------------------------------ atoms
    def e_Constant(self, e, st, exits):
        yield st, self.const(e.value)

    def const(self, c):
        if c is None:
            return NONE_V
        if isinstance(c, bool):
            return mk_bool(c)
        if isinstance(c, int):
            return mk_int(c)
        if isinstance(c, str):
            return mk_str(c)
        if isinstance(c, bytes):
            t = z3.Empty(BYTES.sort())
            if c:
                us = [z3.Unit(z3.IntVal(b)) for b in c]
                t = z3.Concat(*us) if len(us) > 1 else us[0]
            return V(BYTES, t)
        if c is Ellipsis:
            return V(TObj('Ellipsis'), z3.Const('Ellipsis', TObj('Ellipsis').sort()))
        raise Unsupported(f'constant {c!r}')

    def e_Name(self, e, st, exits):
        alias = st.env.get('$alias:' + e.id)
        if alias is not None and isinstance(alias.t, ast.Attribute) and not self.spec_mode:
            # a local that names a container living in an object's field (x = obj.d): read the field as it is now -
            # callees may have updated that same object in the meantime
            try:
                res = list(self.ev(alias.t, st, []))
            except Unsupported:
                res = []
            if len(res) == 1 and res[0][0] is st and res[0][1].ty == st.env[e.id].ty:
                yield st, res[0][1]
                return
        yield st, self.lookup(e.id, st, e)

    def lookup(self, name, st, node=None):
        if name in st.env:
            return st.env[name]
        if name in st.ghost:
            return st.ghost[name]
        if name in self.reg.specs:
            return V(FUN, self.reg.specs[name])
        if name in self.reg.enums and (self.spec_mode or not self.fstack or self.fstack[-1].relpath.startswith('<')):
            return V(TPy('enumcls'), self.reg.enums[name])
        ctx = self.fstack[-1] if self.fstack else None
        if ctx is not None:
            m = self.src.modules.get(ctx.relpath)
            if m is not None:
                if name in m.functions and '.' not in name:
                    return V(FUN, FuncRef(m.relpath, name, m.functions[name]))
                if name in m.classes:
                    return V(CLS, m.classes[name])
                if name in m.imports:
                    return self.resolve_dotted(m.imports[name])
                gv = getattr(self.reg, 'global_values', {})
                if isinstance(gv.get(f'{m.relpath}:{name}'), dict) and '__regex__' in gv[f'{m.relpath}:{name}']:
                    rx = gv[f'{m.relpath}:{name}']
                    self.assumptions_used[f'fact:{m.relpath}:{name}'] = \
                        f'compiled regex {m.relpath}:{name} = {rx["__regex__"]!r} (pattern read from the real module this run)'
                    return V(TPy('regex'), (rx['__regex__'], rx['flags']))
                if f'{m.relpath}:{name}' in gv and isinstance(gv[f'{m.relpath}:{name}'], (int, str, bool)):
                    self.assumptions_used[f'fact:{m.relpath}:{name}'] = \
                        f'module global {m.relpath}:{name} = {gv[f"{m.relpath}:{name}"]!r} (read from the real module this run)'
                    return self.const(gv[f'{m.relpath}:{name}'])
                if name in m.globals:
                    g = m.globals[name]
                    try:
                        val = ast.literal_eval(g)
                    except Exception:
                        val = _NOLIT
                    if val is not _NOLIT and isinstance(val, (int, str, bool, bytes, type(None))):
                        return self.const(val)
                    if val is not _NOLIT and isinstance(val, (tuple, list)) and val and \
                            (all(type(x) is str for x in val) or all(type(x) is int for x in val)):
                        # a literal tuple/list of strings or ints (never mutated: tuples; lists are only read by the bodies under contract)
                        ety = STR if type(val[0]) is str else INT
                        units = [z3.Unit(self.const(x).t) for x in val]
                        return V(TSeq(ety), z3.Concat(*units) if len(units) > 1 else units[0])
                    d = m.relpath[:-3].replace('/', '.').removesuffix('.__init__') + '.' + name
                    ev_ = getattr(self.reg, 'ext_values', {})
                    if d in ev_:
                        # a module-level singleton with a declared type: a distinguished constant
                        ty_ = parse_type(ev_[d], self.reg.enums)
                        return V(ty_, z3.Const('ext_' + ''.join(c if c.isalnum() else '_' for c in d), ty_.sort()))
                    return V(MOD, f'<global {m.relpath}:{name}>')
        if name in self.exc_codes:
            return V(CLS, ('exc', name))
        if name in ('True', 'False'):
            return mk_bool(name == 'True')
        if name in PY_BUILTINS:
            return V(FUN, ('builtin', name))
        if name in self.reg.external:
            return V(MOD, name)       # a module-level callable the sidecar gives an assumed contract (e.g. a functools.partial)
        raise Unsupported(f'unresolved name {name}')

    def resolve_dotted(self, dotted):
        """an imported name: repo function / class / module, or external"""
        parts = dotted.split('.')
        for i in range(len(parts), 0, -1):
            modname = '.'.join(parts[:i])
            m = self.src.by_dotted.get(modname)
            if m is not None:
                rest = parts[i:]
                if not rest:
                    return V(MOD, ('repo', m))
                q = '.'.join(rest)
                if q in m.functions:
                    return V(FUN, FuncRef(m.relpath, q, m.functions[q]))
                if q in m.classes:
                    return V(CLS, m.classes[q])
                if rest[0] in m.imports:
                    return self.resolve_dotted('.'.join([m.imports[rest[0]]] + rest[1:]))
                return V(MOD, f'<global {m.relpath}:{q}>')
        return V(MOD, dotted)

    # ------------------------------------------------------------------ operators
    def e_UnaryOp(self, e, st, exits):
        for st2, v in self.ev(e.operand, st, exits):
            if isinstance(e.op, ast.Not):
                yield st2, V(BOOL, z3.Not(self.truthy(v, st2)))
            elif isinstance(e.op, ast.USub) and v.ty is INT:
                yield st2, V(INT, -v.t)
            elif isinstance(e.op, ast.UAdd) and v.ty is INT:
                yield st2, v
            else:
                raise Unsupported(f'unary {type(e.op).__name__} on {v.ty}')

    def e_BinOp(self, e, st, exits):
        for st2, a in self.ev(e.left, st, exits):
            for st3, b in self.ev(e.right, st2, exits):
                yield from self.binop(e.op, a, b, st3, exits, e)

    def binop(self, op, a, b, st, exits, e):
        line = getattr(e, 'lineno', 0)
        if isinstance(a.ty, TOpt):
            a = self.coerce(a, a.ty.inner, st)       # checked: the path must prove it is not None
        if isinstance(b.ty, TOpt):
            b = self.coerce(b, b.ty.inner, st)
        if a.ty is BOOL and b.ty is INT:
            a = V(INT, z3.If(a.t, 1, 0))
        if b.ty is BOOL and a.ty is INT:
            b = V(INT, z3.If(b.t, 1, 0))
        if a.ty is INT and b.ty is INT:
            if isinstance(op, ast.Add):
                yield st, V(INT, a.t + b.t)
            elif isinstance(op, ast.Sub):
                yield st, V(INT, a.t - b.t)
            elif isinstance(op, ast.Mult):
                yield st, V(INT, a.t * b.t)
            elif isinstance(op, (ast.FloorDiv, ast.Mod)):
                if self.raise_if(st, b.t == 0, 'ZeroDivisionError', exits, line, 'division by zero'):
                    # Python floor semantics; z3 div/mod are Euclidean: equal for positive divisors
                    q = z3.If(b.t > 0, a.t / b.t, -((-a.t) / (-b.t))) if False else None
                    if isinstance(op, ast.FloorDiv):
                        yield st, V(INT, z3.If(b.t > 0, a.t / b.t, (-a.t) / (-b.t)))
                    else:
                        yield st, V(INT, z3.If(b.t > 0, a.t % b.t, -((-a.t) % (-b.t))))
            else:
                raise Unsupported(f'int op {type(op).__name__}')
            return
        if isinstance(op, ast.Add):
            if a.ty is STR and b.ty is STR:
                yield st, V(STR, z3.Concat(a.t, b.t))
                return
            if isinstance(a.ty, TSeq) and isinstance(b.ty, TSeq):
                ty = a.ty if a.ty.elem is not NONE else b.ty
                yield st, V(ty, z3.Concat(self.coerce(a, ty).t, self.coerce(b, ty).t))
                return
            if isinstance(a.ty, TSeq) and isinstance(b.ty, TTuple):
                yield st, V(a.ty, z3.Concat(a.t, self.coerce(b, a.ty).t))
                return
            if isinstance(a.ty, TTuple) and isinstance(b.ty, TTuple):
                ty = TTuple(a.ty.elems + b.ty.elems)
                items = [a.ty.get(a.t, i) for i in range(len(a.ty.elems))] + \
                        [b.ty.get(b.t, i) for i in range(len(b.ty.elems))]
                yield st, V(ty, ty.mk(items))
                return
        if isinstance(op, ast.Mod) and a.ty is STR:
            yield st, self.str_format(a, b, st)
            return
        if isinstance(op, ast.Mult) and a.ty is STR and b.ty is INT:
            f = self.UF('str_repeat', z3.StringSort(), z3.IntSort(), z3.StringSort())
            yield st, V(STR, f(a.t, b.t))
            return
        raise Unsupported(f'binop {type(op).__name__} on {a.ty},{b.ty} at L{line}')

    def str_format(self, fmt, args, st):
        """'%s[%s]' % (a, b) with a literal format and %s/%d/%r only on Str/Int arguments"""
        f = z3.simplify(fmt.t)
        if not z3.is_string_value(f):
            raise Unsupported('non-literal % format')
        text = f.as_string()
        text = _unescape_z3(text)
        if isinstance(args.ty, TTuple):
            items = [V(ty, args.ty.get(args.t, i)) for i, ty in enumerate(args.ty.elems)]
        else:
            items = [args]
        out = []
        i = 0
        k = 0
        buf = ''
        while i < len(text):
            c = text[i]
            if c == '%' and i + 1 < len(text):
                d = text[i + 1]
                if d == '%':
                    buf += '%'
                    i += 2
                    continue
                if d in 'sdr':
                    if buf:
                        out.append(z3.StringVal(buf))
                        buf = ''
                    if k >= len(items):
                        raise Unsupported('% format arity')
                    out.append(self.to_str(items[k], repr_=(d == 'r')).t)
                    k += 1
                    i += 2
                    continue
                raise Unsupported(f'% directive {d}')
            buf += c
            i += 1
        if buf:
            out.append(z3.StringVal(buf))
        if k != len(items):
            raise Unsupported('% format arity')
        if not out:
            return mk_str('')
        return V(STR, z3.Concat(*out) if len(out) > 1 else out[0])

    def to_str(self, v, repr_=False):
        if v.ty is STR and not repr_:
            return v
        if v.ty is STR and repr_:
            return V(STR, self.UF('repr_str', z3.StringSort(), z3.StringSort())(v.t))
        if v.ty is INT:
            return V(STR, self.UF('str_of_int', z3.IntSort(), z3.StringSort())(v.t))
        if isinstance(v.ty, TOpt) and not repr_:
            # str(None) is 'None'; otherwise the text of the value
            inner = self.to_str(V(v.ty.inner, v.ty.val(v.t)))
            return V(STR, z3.If(v.ty.is_some(v.t), inner.t, z3.StringVal('None')))
        if v.ty is EXC:
            # the message of an exception instance: exceptions are modelled by their class only, so nothing is known about it
            return V(STR, z3.Const(fresh_name('excmsg'), z3.StringSort()))
        if isinstance(v.ty, (TObj, TRef, TEnum, TOpt, TSeq, TTuple)) or v.ty in (BOOL, CLSV):
            f = self.UF('str_of_' + ''.join(c if c.isalnum() else '_' for c in v.ty.key), v.ty.sort(), z3.StringSort())
            return V(STR, f(v.t))
        raise Unsupported(f'str() of {v.ty}')

    def e_BoolOp(self, e, st, exits):
        yield from self._boolop(e.op, e.values, st, exits)

    def _boolop(self, op, values, st, exits):
        is_and = isinstance(op, ast.And)
        for st2, a in self.ev(values[0], st, exits):
            if len(values) == 1:
                yield st2, a
                continue
            ta = z3.simplify(self.truthy(a, st2))
            go = ta if is_and else z3.Not(ta)         # condition under which the rest is evaluated
            if z3.is_false(go):
                yield st2, a
                continue
            cont = st2.copy().assume(go)
            if not z3.is_true(go) and not self.spec_mode and not self.feasible(cont):
                yield st2, a
                continue
            sub_exits = []
            lc = len(cont.pc)
            rest = list(self._boolop(op, values[1:], cont, sub_exits))
            exits.extend(sub_exits)
            if z3.is_true(go):
                yield from rest
                continue
            if len(rest) == 1 and (rest[0][1].ty == a.ty) and not isinstance(a.ty, TPy) and \
                    (self.spec_mode or _same_heap(rest[0][0], st2)):
                # merge: value = If(go, rest, a); facts learnt on the rest-path become implications
                # (an operand with a heap effect - a call that modifies something - is not merged: the paths fork below)
                rst, rv = rest[0]
                extra = rst.pc[lc:]
                m = st2
                for f in extra:
                    m.assume(z3.Implies(go, f))
                yield m, V(a.ty, z3.If(go, rv.t, a.t))
                continue
            if self.spec_mode:
                if len(rest) == 1:
                    rst, rv = rest[0]
                    extra = rst.pc[lc:]
                    for f in extra:
                        st2.assume(z3.Implies(go, f))
                    tb = self.truthy(rv)
                    yield st2, V(BOOL, z3.And(ta, tb) if is_and else z3.Or(ta, tb))
                    continue
                raise Unsupported('boolean operator forks in a specification')
            # fork
            short = st2.copy().assume(z3.Not(go))
            if self.feasible(short):
                yield short, a
            yield from rest

    def e_IfExp(self, e, st, exits):
        for st2, c in self.ev(e.test, st, exits):
            t = z3.simplify(self.truthy(c))
            if z3.is_true(t):
                yield from self.ev(e.body, st2, exits)
                continue
            if z3.is_false(t):
                yield from self.ev(e.orelse, st2, exits)
                continue
            a = st2.copy().assume(t)
            b = st2.copy().assume(z3.Not(t))
            la, lb = len(a.pc), len(b.pc)       # facts learnt while evaluating a branch are appended after these
            ra = list(self.ev(e.body, a, exits)) if (self.spec_mode or self.feasible(a)) else []
            rb = list(self.ev(e.orelse, b, exits)) if (self.spec_mode or self.feasible(b)) else []
            if len(ra) == 1 and len(rb) == 1 and _same_heap(ra[0][0], st2) and _same_heap(rb[0][0], st2):
                va, vb = ra[0][1], rb[0][1]
                ty = _join_ty(va.ty, vb.ty)
                if ty is not None and not isinstance(ty, TPy):
                    for f in ra[0][0].pc[la:]:
                        st2.assume(z3.Implies(t, f))
                    for f in rb[0][0].pc[lb:]:
                        st2.assume(z3.Implies(z3.Not(t), f))
                    yield st2, V(ty, z3.If(t, self.coerce(va, ty).t, self.coerce(vb, ty).t))
                    continue
            if self.spec_mode:
                raise Unsupported('conditional expression forks in a specification')
            yield from ra
            yield from rb

    def e_Compare(self, e, st, exits):
        def go(left_v, ops, comps, st0, acc):
            if not ops:
                yield st0, V(BOOL, z3.And(acc) if len(acc) > 1 else acc[0])
                return
            for st1, r in self.ev(comps[0], st0, exits):
                c = self.compare(ops[0], left_v, r, st1, exits, e)
                if c is None:
                    continue
                yield from go(r, ops[1:], comps[1:], st1, acc + [c])
        for st2, l in self.ev(e.left, st, exits):
            yield from go(l, e.ops, e.comparators, st2, [])

    def compare(self, op, a, b, st, exits, e):
        if isinstance(op, (ast.Eq, ast.Is)):
            return self.eq(a, b)
        if isinstance(op, (ast.NotEq, ast.IsNot)):
            return z3.Not(self.eq(a, b))
        if isinstance(op, (ast.In, ast.NotIn)):
            c = self.contains(b, a, st, exits, e)
            return c if isinstance(op, ast.In) else z3.Not(c)
        if isinstance(a.ty, TOpt):
            a = self.coerce(a, a.ty.inner, st)      # code: the path must prove it is not None; specs: guarded by the author
        if isinstance(b.ty, TOpt):
            b = self.coerce(b, b.ty.inner, st)
        if a.ty is INT and b.ty is INT:
            return {ast.Lt: a.t < b.t, ast.LtE: a.t <= b.t, ast.Gt: a.t > b.t, ast.GtE: a.t >= b.t}[type(op)]
        if a.ty is STR and b.ty is STR:
            lt = lambda x, y: z3.StrLT(x, y) if hasattr(z3, 'StrLT') else x < y  # noqa
            return {ast.Lt: a.t < b.t, ast.LtE: a.t <= b.t, ast.Gt: b.t < a.t, ast.GtE: b.t <= a.t}[type(op)]
        raise Unsupported(f'comparison {type(op).__name__} on {a.ty},{b.ty}')

    def contains(self, container, item, st, exits, e):
        if isinstance(container.ty, TOpt):
            container = self.coerce(container, container.ty.inner, st)      # the path must have excluded None
        ty = container.ty
        if ty is STR:
            if item.ty is not STR:
                raise Unsupported('in str with non-str')
            return z3.Contains(container.t, item.t)
        if isinstance(ty, TSeq):
            if ty.elem is NONE:
                return z3.BoolVal(False)
            it = self.coerce_for_elem(item, ty.elem)
            if it is None:
                return z3.BoolVal(False)
            return z3.Contains(container.t, z3.Unit(it.t))
        if isinstance(ty, TTuple):
            return z3.Or([self.eq(V(t, ty.get(container.t, i)), item) for i, t in enumerate(ty.elems)] or [z3.BoolVal(False)])
        if isinstance(ty, TMap):
            k = self.coerce(item, ty.k)
            return ty.vopt.is_some(z3.Select(container.t, k.t))
        if isinstance(ty, TSet):
            k = self.coerce(item, ty.elem)
            return z3.Select(container.t, k.t)
        if isinstance(ty, TRef):
            r = self.call_dunder(container, '__contains__', [item], st, exits, e)
            if r is not None:
                return self.truthy(r)
        raise Unsupported(f'`in` on {ty}')

    def coerce_for_elem(self, item, ety):
        try:
            return self.coerce(item, ety)
        except Unsupported:
            if isinstance(item.ty, TOpt) and item.ty.inner == ety:
                return None
            raise

    # ------------------------------------------------------------------ containers
    def e_Tuple(self, e, st, exits):
        for st2, vals in self.ev_list(e.elts, st, exits):
            ty = TTuple([v.ty for v in vals])
            if any(isinstance(v.ty, TPy) or v.ty is NONE for v in vals):
                yield st2, V(TPy('pytuple'), tuple(vals))
            else:
                yield st2, V(ty, ty.mk([v.t for v in vals]))

    def e_List(self, e, st, exits):
        if not e.elts:
            yield st, V(TSeq(NONE), 'empty')
            return
        for st2, vals in self.ev_list(e.elts, st, exits):
            ety = vals[0].ty
            for v in vals[1:]:
                j = _join_ty(ety, v.ty)
                if j is None:
                    raise Unsupported('heterogeneous list literal')
                ety = j
            ty = TSeq(ety)
            us = [z3.Unit(self.coerce(v, ety).t) for v in vals]
            yield st2, V(ty, z3.Concat(*us) if len(us) > 1 else us[0])

    def ev_list(self, exprs, st, exits):
        if not exprs:
            yield st, []
            return
        if isinstance(exprs[0], ast.Starred):
            raise Unsupported('starred element')
        for st2, v in self.ev(exprs[0], st, exits):
            for st3, rest in self.ev_list(exprs[1:], st2, exits):
                yield st3, [v] + rest

    def e_JoinedStr(self, e, st, exits):
        parts = []
        for v in e.values:
            if isinstance(v, ast.Constant):
                parts.append(v)
            elif isinstance(v, ast.FormattedValue):
                if v.format_spec is not None:
                    raise Unsupported('f-string format spec')
                parts.append(v)
        def go(i, st0, acc):
            if i == len(parts):
                if not acc:
                    yield st0, mk_str('')
                else:
                    yield st0, V(STR, z3.Concat(*acc) if len(acc) > 1 else acc[0])
                return
            p = parts[i]
            if isinstance(p, ast.Constant):
                yield from go(i + 1, st0, acc + [z3.StringVal(p.value)])
            else:
                for st1, v in self.ev(p.value, st0, exits):
                    s = self.to_str(v, repr_=(p.conversion == ord('r')))
                    yield from go(i + 1, st1, acc + [s.t])
        yield from go(0, st, [])

    def e_Lambda(self, e, st, exits):
        yield st, V(FUN, Closure(e, dict(st.env), self.fstack[-1] if self.fstack else None))

    def e_NamedExpr(self, e, st, exits):
        for st2, v in self.ev(e.value, st, exits):
            st2.env[e.target.id] = v
            yield st2, v

    # ------------------------------------------------------------------ subscripts
    def e_Subscript(self, e, st, exits):
        for st2, base in self.ev(e.value, st, exits):
            if isinstance(e.slice, ast.Slice):
                for st3, (lo, hi) in self.ev_slice_bounds(e.slice, base, st2, exits):
                    if base.ty is STR or isinstance(base.ty, TSeq):
                        if isinstance(base.ty, TSeq) and base.ty.elem is NONE:
                            yield st3, base
                        else:
                            yield st3, V(base.ty, z3.Extract(base.t, lo, hi - lo))
                    else:
                        raise Unsupported(f'slice of {base.ty}')
                continue
            for st3, idx in self.ev(e.slice, st2, exits):
                r = self.load_subscript(base, idx, st3, exits, e)
                if r is not None:
                    yield st3, r

    def ev_slice_bounds(self, sl, base, st, exits):
        """normalised (lo, hi) with 0 <= lo <= hi <= len  (Python clamping semantics)"""
        if sl.step is not None:
            raise Unsupported('slice step')
        if isinstance(base.ty, TSeq) and base.ty.elem is NONE:
            yield st, (z3.IntVal(0), z3.IntVal(0))
            return
        if isinstance(base.ty, TRef):
            raise Unsupported('slice of object')
        n = z3.Length(base.t)

        def norm(v):
            v = z3.simplify(v)
            if z3.is_int_value(v) and v.as_long() >= 0 or self.spec_mode and not z3.is_int_value(v):
                # specification expressions use non-negative bounds only (rule of the contract language)
                return z3.If(v > n, n, v)
            if not z3.is_int_value(v) and self.entails_lia(st, v >= 0):
                if self.entails_lia(st, v <= n):
                    return v
                return z3.If(v > n, n, v)
            return z3.If(v < 0, z3.If(v + n < 0, 0, v + n), z3.If(v > n, n, v))

        def bounds(st0, lo_v, hi_v):
            lo = z3.IntVal(0) if lo_v is None else norm(lo_v.t)
            hi = n if hi_v is None else norm(hi_v.t)
            if not (hi_v is not None and lo_v is not None and not self.spec_mode and self.entails_lia(st, lo <= hi)):
                hi = z3.If(hi < lo, lo, hi)
            return st0, (z3.simplify(lo), z3.simplify(hi))
        if sl.lower is None and sl.upper is None:
            yield bounds(st, None, None)
        elif sl.lower is None:
            for st1, h in self.ev(sl.upper, st, exits):
                yield bounds(st1, None, self._as_int(h))
        elif sl.upper is None:
            for st1, l in self.ev(sl.lower, st, exits):
                yield bounds(st1, self._as_int(l), None)
        else:
            for st1, l in self.ev(sl.lower, st, exits):
                for st2, h in self.ev(sl.upper, st1, exits):
                    yield bounds(st2, self._as_int(l), self._as_int(h))

    def _as_int(self, v):
        if v.ty is NONE:
            return None
        if v.ty is not INT:
            raise Unsupported(f'slice bound of type {v.ty}')
        return v

    def load_subscript(self, base, idx, st, exits, e):
        line = getattr(e, 'lineno', 0)
        ty = base.ty
        if ty is STR or isinstance(ty, TSeq):
            if idx.ty is not INT:
                raise Unsupported(f'index of type {idx.ty}')
            if isinstance(ty, TSeq) and ty.elem is NONE:
                if not self.spec_mode:
                    exits.append(Outcome('raise', st, self.exc_val('IndexError'), line, 'index into []'))
                    return None
                raise Unsupported('index into empty literal')
            n = z3.Length(base.t)
            i = z3.simplify(idx.t)
            if z3.is_int_value(i) and i.as_long() < 0:
                pos = n + i
            elif z3.is_int_value(i) or self.spec_mode:
                # specification expressions index with non-negative positions only (rule of the contract language)
                pos = idx.t
            elif self.entails_lia(st, idx.t >= 0):
                pos = idx.t
            else:
                pos = z3.If(i < 0, n + i, i)
            if not self.raise_if(st, z3.Or(pos < 0, pos >= n), 'IndexError', exits, line,
                                 f'index out of range: {ast.unparse(e) if isinstance(e, ast.AST) else e}'):
                return None
            if ty is STR:
                return V(STR, z3.SubString(base.t, pos, 1))
            out = V(ty.elem, base.t[pos])
            if isinstance(ty.elem, TRef) and not ty.elem.nullable and not self.spec_mode:
                st.assume(out.t != null())      # type invariant of Seq[Ref[C]]: elements are objects, not None
            return out
        if isinstance(ty, TTuple):
            i = z3.simplify(idx.t)
            if not z3.is_int_value(i):
                raise Unsupported('symbolic tuple index')
            k = i.as_long()
            if k < 0:
                k += len(ty.elems)
            if not 0 <= k < len(ty.elems):
                if not self.spec_mode:
                    exits.append(Outcome('raise', st, self.exc_val('IndexError'), line, 'tuple index'))
                return None
            return V(ty.elems[k], ty.get(base.t, k))
        if isinstance(ty, TMap):
            k = self.coerce(idx, ty.k)
            cell = z3.Select(base.t, k.t)
            if ty.total:
                if isinstance(ty.v, TSeq):
                    dflt = z3.Empty(ty.v.sort())
                elif isinstance(ty.v, TSet):
                    dflt = z3.K(ty.v.elem.sort(), z3.BoolVal(False))
                else:
                    raise Unsupported('defaultdict of a non-list/set default')
                return V(ty.v, z3.If(ty.vopt.is_some(cell), ty.vopt.val(cell), dflt))
            if not self.raise_if(st, ty.vopt.is_none(cell), 'KeyError', exits, line, 'missing key'):
                return None
            if isinstance(ty.v, TRef) and not ty.v.nullable and not self.spec_mode:
                st.assume(ty.vopt.val(cell) != null())      # type invariant of Map[K, Ref[C]]
            return V(ty.v, ty.vopt.val(cell))
        if isinstance(ty, TRef):
            sv = self.seq_view(base, st)
            if sv is not None:
                return self.load_subscript(sv, idx, st, exits, e)
            r = self.call_dunder(base, '__getitem__', [idx], st, exits, e)
            if r is not None:
                return r
        raise Unsupported(f'subscript of {ty}')

    def store_subscript(self, base, idx, v, st, exits, line):
        ty = base.ty
        if isinstance(ty, TSeq):
            n = z3.Length(base.t)
            pos = z3.If(idx.t < 0, n + idx.t, idx.t)
            if not self.raise_if(st, z3.Or(pos < 0, pos >= n), 'IndexError', exits, line, 'store index'):
                return None
            val = self.coerce(v, ty.elem)
            return V(ty, z3.Concat(z3.Extract(base.t, 0, pos), z3.Unit(val.t), z3.Extract(base.t, pos + 1, n - pos - 1)))
        if isinstance(ty, TMap):
            k = self.coerce(idx, ty.k)
            val = self.coerce(v, ty.v)
            new = V(ty, z3.Store(base.t, k.t, ty.vopt.some(val.t)))
            self.map_update_facts(ty, base.t, new.t, val.t)
            return new
        raise Unsupported(f'subscript store on {ty}')

    def del_subscript(self, base, idx, st, exits, line):
        ty = base.ty
        if isinstance(ty, TMap):
            k = self.coerce(idx, ty.k)
            if not self.raise_if(st, ty.vopt.is_none(z3.Select(base.t, k.t)), 'KeyError', exits, line, 'del missing key'):
                return None
            new = V(ty, z3.Store(base.t, k.t, ty.vopt.none()))
            self.map_update_facts(ty, base.t, new.t, None)
            return new
        if isinstance(ty, TSeq):
            n = z3.Length(base.t)
            pos = z3.If(idx.t < 0, n + idx.t, idx.t)
            if not self.raise_if(st, z3.Or(pos < 0, pos >= n), 'IndexError', exits, line, 'del index'):
                return None
            return V(ty, z3.Concat(z3.Extract(base.t, 0, pos), z3.Extract(base.t, pos + 1, n - pos - 1)))
        raise Unsupported(f'del on {ty}')

    def map_update_facts(self, ty, old_t, new_t, added):
        """dict views after d[k] = v / del d[k]: every value of the new dict is the stored value or a value of the old one
        (CPython dict semantics; emitted only where .values() of that map type is used)"""
        from .builtins_ import _san
        nm = 'map_values_' + _san(ty.key)
        if nm not in self.uf:
            return
        f = self.uf[nm]
        i = z3.Int(fresh_name('mv'))
        nv, ov = f(new_t), f(old_t)
        w = z3.Function(fresh_name('mvw'), z3.IntSort(), z3.IntSort())      # witness: where the value sat in the old dict
        inold = z3.And(w(i) >= 0, w(i) < z3.Length(ov), ov[w(i)] == nv[i])
        body = inold if added is None else z3.Or(nv[i] == added, inold)
        self.fact(z3.ForAll([i], z3.Implies(z3.And(i >= 0, i < z3.Length(nv)), body), patterns=[nv[i]]),
                  'dict.values() after an update holds the stored value and old values only (CPython dict)')

    # ------------------------------------------------------------------ attributes
    def e_Attribute(self, e, st, exits):
        d = _dotted(e)
        if d is not None and isinstance(e.value, ast.Name) and e.value.id not in st.env and e.value.id not in st.ghost:
            # module.attr / Class.attr without a local receiver
            base = None
            try:
                base = self.lookup(e.value.id, st)
            except Unsupported:
                base = None
            if base is not None and base.ty is MOD:
                yield st, self.mod_attr(base, e.attr)
                return
            if base is not None and base.ty is CLS:
                yield st, self.cls_attr(base, e.attr, st)
                return
        for st2, r in self.ev(e.value, st, exits):
            v = self.get_attr(r, e.attr, st2, exits, e)
            if v is not None:
                yield st2, v

    def mod_attr(self, base, attr):
        p = base.t
        if isinstance(p, tuple) and p[0] == 'repo':
            m = p[1]
            if attr in m.functions:
                return V(FUN, FuncRef(m.relpath, attr, m.functions[attr]))
            if attr in m.classes:
                return V(CLS, m.classes[attr])
            if attr in m.imports:
                return self.resolve_dotted(m.imports[attr])
            if attr in m.globals:
                # a module-level alias of an imported function or class (`taglink = linker.taglink`)
                d = _dotted(m.globals[attr])
                if d is not None and d.split('.')[0] in m.imports:
                    parts = d.split('.')
                    r = self.resolve_dotted('.'.join([m.imports[parts[0]]] + parts[1:]))
                    if r.ty in (FUN, CLS):
                        return r
            if m.relpath.endswith('__init__.py'):
                # a submodule of a package (bound on the package by `import pkg.sub`)
                sub = self.src.by_dotted.get(m.relpath[:-len('/__init__.py')].replace('/', '.') + '.' + attr)
                if sub is not None:
                    return V(MOD, ('repo', sub))
            return V(MOD, f'<global {m.relpath}:{attr}>')
        if isinstance(p, str):
            d = f'{p}.{attr}'
            ev_ = getattr(self.reg, 'ext_values', {})
            if d in ev_:
                # an external singleton / constant with a declared type: a distinguished constant
                ty_ = parse_type(ev_[d], self.reg.enums)
                return V(ty_, z3.Const('ext_' + ''.join(c if c.isalnum() else '_' for c in d), ty_.sort()))
            fv = getattr(self.reg, 'fact_values', {})
            if d in fv and isinstance(fv[d], (int, str, bool)):
                self.assumptions_used['fact:' + d] = f'external constant {d} = {fv[d]!r} (read from the installed package this run)'
                return self.const(fv[d])
            if d in self.exc_codes:
                return V(CLS, ('exc', d))
            r = self.resolve_dotted(d)
            return r
        raise Unsupported(f'module attribute {attr}')

    def cls_attr(self, base, attr, st):
        ci = base.t
        if isinstance(ci, tuple):
            raise Unsupported('attribute of exception class')
        for c in self.src.class_mro(ci):
            if attr in c.nested:
                n = c.nested[attr]
                if n.name in self.exc_codes:
                    return V(CLS, ('exc', n.name))
                return V(CLS, n)
            if attr in c.methods:
                return V(FUN, FuncRef(c.module.relpath, f'{c.qualname}.{attr}', c.methods[attr], cls=c))
            if attr in c.class_attrs:
                en = self.reg.enums.get(c.name)
                if en is not None and (attr in en.members or (en.aliases and attr in en.aliases)):
                    return V(en, en.member(attr))
                try:
                    return self.const(ast.literal_eval(c.class_attrs[attr]))
                except Exception:
                    raise Unsupported(f'class attribute {c.name}.{attr}')
        raise Unsupported(f'class attribute {ci.name}.{attr}')

    def get_attr(self, r, attr, st, exits, e):
        ty = r.ty
        line = getattr(e, 'lineno', 0)
        if isinstance(ty, TOpt):
            # attribute access on an Optional: None -> AttributeError
            if not self.raise_if(st, ty.is_none(r.t), 'AttributeError', exits, line, f'None.{attr}'):
                return None
            r = V(ty.inner, ty.val(r.t))
            ty = r.ty
        if ty is NONE:
            if not self.spec_mode:
                exits.append(Outcome('raise', st, self.exc_val('AttributeError'), line, f'None.{attr}'))
            return None
        if isinstance(ty, TRef):
            if ty.nullable:
                if not self.raise_if(st, r.t == null(), 'AttributeError', exits, line, f'None.{attr}'):
                    return None
            ci = self.src.find_class(ty.cls)
            if ci is not None:
                c, m = self.src.lookup_method(ci, attr)
                if m is not None:
                    fr = FuncRef(c.module.relpath, f'{c.qualname}.{attr}', m, cls=c)
                    if attr in c.props:
                        return self.call_property(r, fr, st, exits, e)
                    return V(BOUND, Bound(r, attr, fr, ci))
                # nested classes reachable through the instance (self.SkipNode)
                for c in self.src.class_mro(ci):
                    if attr in c.nested:
                        n = c.nested[attr]
                        if n.name in self.exc_codes:
                            return V(CLS, ('exc', n.name))
                        return V(CLS, n)
            fty = self.field_ty(ty.cls, attr)
            if fty is not None:
                return self.read_field(st, r, attr)
            if ci is not None:
                for c in self.src.class_mro(ci):
                    if attr in c.class_attrs:
                        try:
                            return self.const(ast.literal_eval(c.class_attrs[attr]))
                        except Exception:
                            break
            # methods of a builtin sequence base class (deque): modelled on the __items__ view
            if self.field_ty(ty.cls, '__items__') is not None:
                return V(BOUND, Bound(r, attr, None, ci))
            # narrowing: the path established isinstance(r, Sub) for a subclass that has the attribute
            if ci is not None and not self.spec_mode:
                for sub in self.src.subclasses_of(ty.cls):
                    c2, m2 = self.src.lookup_method(sub, attr)
                    has_field = self.field_ty(sub.name, attr) is not None
                    if (m2 is None and not has_field) or not self.entails(st, self.isinstance_term(r.t, sub.name)):
                        continue
                    return self.get_attr(V(TRef(sub.name, ty.nullable), r.t), attr, st, exits, e)
            raise Unsupported(f'attribute {ty.cls}.{attr}: not a declared field or method')
        if isinstance(ty, TObj) and f'<{ty.name}>.@{attr}' in self.reg.external:
            return self.ext_attribute(r, f'<{ty.name}>.@{attr}', st, exits, e)
        if ty is EXC and attr == '__class__':
            return V(CLSV, r.t)
        if ty is CLSV and attr == '__name__':
            return V(STR, self.UF('class_name', z3.IntSort(), z3.StringSort())(r.t))
        if isinstance(ty, TEnum):
            if attr == 'name':
                return V(STR, self.UF('enum_name_' + ty.name, ty.sort(), z3.StringSort())(r.t))
            if attr == 'value':
                return V(INT, self.UF('enum_value_' + ty.name, ty.sort(), z3.IntSort())(r.t))
        if isinstance(ty, TPy) and ty.kind == 'super':
            inst, cls = r.t
            c, m = self.src.lookup_method(self.src.find_class(inst.ty.cls) or cls, attr, after=cls)
            if m is None:
                raise Unsupported(f'super().{attr} not found')
            fr = FuncRef(c.module.relpath, f'{c.qualname}.{attr}', m, cls=c)
            if attr in c.props:
                return self.call_property(inst, fr, st, exits, e)
            return V(BOUND, Bound(inst, attr, fr, c))
        if isinstance(ty, TPy) and ty.kind == 'enumcls':
            return V(r.t, r.t.member(attr))
        if ty is CLS:
            return self.cls_attr(r, attr, st)
        if ty is MOD:
            return self.mod_attr(r, attr)
        # builtin value methods
        return V(BOUND, Bound(r, attr, None, None))

    def e_Starred(self, e, st, exits):
        raise Unsupported('starred expression')

    def e_Dict(self, e, st, exits):
        if e.keys:
            raise Unsupported('non-empty dict literal')
        yield st, V(TPy('emptydict'), 'emptydict')

    def e_Set(self, e, st, exits):
        raise Unsupported('set literal')


_NOLIT = object()

PY_BUILTINS = {'len', 'int', 'str', 'any', 'all', 'isinstance', 'range', 'enumerate', 'zip', 'reversed',
               'sorted', 'list', 'tuple', 'set', 'dict', 'getattr', 'hasattr', 'bool', 'max', 'min', 'repr',
               'super', 'map', 'filter', 'next', 'iter', 'print', 'type', 'cast', 'issubclass', 'sum', 'ord', 'chr',
               'abs', 'id', 'callable', 'frozenset', 'open', 'bytes', 'object', 'islice'}


def _same_heap(a, b):
    """no heap/ghost effect between b (before) and a (after); arrays first touched in between (lazily
    created initial arrays) are adopted by b"""
    for k in a.heap:
        if k not in b.heap:
            if str(a.heap[k]) != 'H_' + k:
                return False
            b.heap[k] = a.heap[k]
            continue
        if a.heap[k] is not b.heap[k] and not z3.eq(a.heap[k], b.heap[k]):
            return False
    for k in a.ghost:
        if k not in b.ghost:
            return False
        if a.ghost[k].t is not b.ghost[k].t and not z3.eq(a.ghost[k].t, b.ghost[k].t):
            return False
    return True


def _join_ty(a, b):
    if a == b:
        return a
    if a is NONE and isinstance(b, TOpt):
        return b
    if b is NONE and isinstance(a, TOpt):
        return a
    if a is NONE and isinstance(b, TRef):
        return TRef(b.cls, True)
    if b is NONE and isinstance(a, TRef):
        return TRef(a.cls, True)
    if isinstance(a, TRef) and isinstance(b, TRef):
        # all references share one sort; the static class of a join is only used for field/method lookup
        return TRef(a.cls if a.cls == b.cls else 'Documentable', a.nullable or b.nullable)
    if a is NONE and not isinstance(b, TPy):
        return TOpt(b)
    if b is NONE and not isinstance(a, TPy):
        return TOpt(a)
    if isinstance(a, TOpt) and a.inner == b:
        return a
    if isinstance(b, TOpt) and b.inner == a:
        return b
    if isinstance(a, TSeq) and a.elem is NONE and isinstance(b, TSeq):
        return b
    if isinstance(b, TSeq) and b.elem is NONE and isinstance(a, TSeq):
        return a
    return None


def _unescape_z3(s):
    # z3's as_string() escapes non-printables as \u{..}
    import re
    return re.sub(r'\\u\{([0-9a-fA-F]+)\}', lambda m: chr(int(m.group(1), 16)), s)
