"""Check driver: ./check <PID> [--tier quick|thorough]   |   ./check replay <file>

Exit codes: 0 held / 1 violation (VIOLATION line printed) / 2 undecided without stand-in / 3 checker crash.
`unknown`, timeouts and tracebacks are never mapped to 1.
"""
from __future__ import annotations
import argparse
import importlib
import json
import os
import subprocess
import sys
import time
import traceback

VERIF = os.path.dirname(os.path.dirname(os.path.abspath(__file__)))
sys.path.insert(0, VERIF)

from pyvc.source import SourceIndex          # noqa: E402
from pyvc.contracts import Registry          # noqa: E402
from pyvc.verifier import Verifier, load_specs, load_enums   # noqa: E402
from pyvc.solve import discharge             # noqa: E402
from pyvc.types import Unsupported           # noqa: E402

NATIVE_PY = '/venv/bin/python'
OUT = os.environ.get('VERIF_OUT', VERIF)      # evidence/replays/.work root (scratch runs redirect it)
TRUSTED_BASE = [
    'pyvc VC generator (ast -> z3) and its builtin models of Python semantics',
    'z3 4.x/5.x (python3-vt wheel) and cvc5 1.0.3 as back ends',
    "CPython's ast.parse returning the AST of the file it is given",
    'mathematical integers = Python int (no machine arithmetic assumed)',
]


def load_registry(pid):
    reg = Registry()
    reg.pid = pid
    low = pid.lower()
    shared = os.path.join(VERIF, 'specs', 'shared.py')
    if os.path.exists(shared):
        load_specs(reg, shared)
    mod = importlib.import_module(f'contracts.{low}')
    for extra in getattr(mod, 'SPECS', []):
        load_specs(reg, os.path.join(VERIF, 'specs', f'{extra}.py'))
    sp = os.path.join(VERIF, 'specs', f'{low}.py')
    if os.path.exists(sp):
        load_specs(reg, sp)
    mod.register(reg)
    return reg, mod


def load_facts(reg):
    """values of module-level globals the verified bodies branch on (e.g. version switches), read from the real
    modules under /venv/bin/python on every run"""
    req = getattr(reg, 'fact_globals', [])
    exprs = getattr(reg, 'fact_exprs', [])
    reg.global_values = {}
    reg.fact_values = {}
    if not req and not exprs:
        return
    env = dict(os.environ)
    env['PYTHONPATH'] = os.environ.get('VERIF_REPO', '/repo') + os.pathsep + VERIF
    try:
        p = subprocess.run([NATIVE_PY, '-m', 'replay.facts', json.dumps(req), json.dumps(exprs)], cwd=VERIF, env=env, capture_output=True,
                           text=True, timeout=120)
        vals = json.loads(p.stdout.strip().splitlines()[-1])
    except Exception:
        vals = {}
    for k, val in vals.items():
        if k.startswith('expr:'):
            if not (isinstance(val, dict) and 'error' in val):
                reg.fact_values[k[5:]] = val
        elif not isinstance(val, dict) or '__regex__' in val:
            reg.global_values[k] = val
    hook = getattr(reg, 'after_facts', None)
    if hook:
        hook(reg)


def known_findings():
    p = os.path.join(VERIF, 'known_findings.json')
    if not os.path.exists(p):
        return []
    return json.load(open(p)).get('findings', [])


def run_native(pid, tier, seed, focus=None, timeout=None):
    """bounded native evaluation of the contracts on the real code (under /venv/bin/python)."""
    if timeout is None:
        # above the sum of the per-function budgets of any harness (quick: <= 700 s, thorough: <= 3000 s), with room for a loaded machine
        timeout = 1800 if tier == 'quick' else 10800
    work = os.path.join(OUT, '.work')
    os.makedirs(work, exist_ok=True)
    out = os.path.join(work, f'{pid}.native.json')
    if os.path.exists(out):
        os.unlink(out)
    env = dict(os.environ)
    repo = os.environ.get('VERIF_REPO', '/repo')
    env['PYTHONPATH'] = repo + os.pathsep + VERIF
    env['PYTHONHASHSEED'] = '0'
    cmd = [NATIVE_PY, '-m', 'replay.run', pid, '--tier', tier, '--seed', str(seed), '--out', out]
    if focus:
        cmd += ['--focus', ','.join(focus)]
    try:
        p = subprocess.run(cmd, cwd=VERIF, env=env, capture_output=True, text=True, timeout=timeout)
    except subprocess.TimeoutExpired:
        return {'error': 'native harness timeout', 'failures': [], 'evaluations': 0, 'functions': {}}
    if not os.path.exists(out):
        return {'error': 'native harness crashed: ' + (p.stderr or p.stdout)[-1500:], 'failures': [],
                'evaluations': 0, 'functions': {}}
    return json.load(open(out))


def main(argv=None):
    ap = argparse.ArgumentParser()
    ap.add_argument('pid')
    ap.add_argument('rest', nargs='*')
    ap.add_argument('--tier', default=os.environ.get('VERIF_TIER', 'quick'))
    a = ap.parse_args(argv)
    if a.pid == 'replay':
        return replay(a.rest[0])
    tier = a.tier if a.tier in ('quick', 'thorough') else 'quick'
    try:
        seed = int(os.environ.get('VERIF_SEED', '0') or 0)
    except ValueError:
        seed = 0
    try:
        return check(a.pid, tier, seed)
    except Exception:
        traceback.print_exc()
        print(f'CHECKER-CRASH property={a.pid}')
        return 3


def check(pid, tier, seed):
    t0 = time.time()
    reg, mod = load_registry(pid)
    src = SourceIndex()
    load_enums(reg, src)
    load_facts(reg)
    v = Verifier(src, reg, pid)
    func_reports = []
    for key, c in reg.contracts.items():
        if c.assumed or not c.verify:
            continue
        rep = v.verify(c)
        func_reports.append(rep)
    for (lpid, name, vars_, hyps, goal, hints) in reg.lemmas:
        try:
            v.prove_lemma(lpid, name, vars_, hyps, goal, hints)
        except Unsupported as ex:
            func_reports.append({'function': f'lemma:{name}', 'status': 'undecided', 'reason': str(ex), 'obligations': 0})
    gen_s = time.time() - t0
    timeout_ms = 10000 if tier == 'quick' else 60000
    t1 = time.time()
    results = discharge(v.obligations, v.global_axioms, timeout_ms=timeout_ms, seed=seed)
    solve_wall = time.time() - t1
    solver_time = sum(r.get('time', 0) for r in results)

    # known findings at the obligation level: a function with failed obligations and a listed finding is verified
    # again under the finding's exclusion clause; only if *everything* then discharges are the failures attributed
    # to the finding (any other violation of the same contract still fails).
    kf_all = [f for f in known_findings() if f.get('property') == pid]
    obl_known = []
    excluded = []
    pairs = list(zip(v.obligations, results))
    for key, c in reg.contracts.items():
        if c.assumed or not c.verify:
            continue
        fkey = f'{c.file}:{c.qualname}'
        mine = [(ob, r) for ob, r in pairs if _fn_match(ob.func, fkey)]
        if not any(r['status'] == 'failed' for _, r in mine):
            continue
        entries = [f for f in kf_all if f.get('assume') and _fn_match(f.get('function', ''), fkey)]
        if not entries:
            continue
        import copy
        c2 = copy.copy(c)
        c2.requires = list(c.requires) + [f['assume'] for f in entries]
        v2 = Verifier(src, reg, pid)
        rep2 = v2.verify(c2)
        res2 = discharge(v2.obligations, v2.global_axioms, timeout_ms=timeout_ms, seed=seed)
        if rep2['status'] == 'ok' and all(r['status'] == 'discharged' for r in res2):
            pairs = [(ob, r) for ob, r in pairs if not _fn_match(ob.func, fkey)] + list(zip(v2.obligations, res2))
            obl_known.extend(entries)
            excluded.append({'function': fkey, 'assumed_away': [f['assume'] for f in entries],
                             'finding': [f.get('id') for f in entries]})
            v.assumptions_used.update(v2.assumptions_used)
    all_obs = [ob for ob, _ in pairs]
    results = [r for _, r in pairs]
    v.obligations = all_obs
    solver_time = sum(r.get('time', 0) for r in results)
    failed = [(ob, r) for ob, r in zip(v.obligations, results) if r['status'] == 'failed']
    unknown = [(ob, r) for ob, r in zip(v.obligations, results) if r['status'] == 'unknown']
    discharged = [r for r in results if r['status'] == 'discharged']
    undecided_funcs = [r for r in func_reports if r['status'] == 'undecided']
    vacuous = [r for r in func_reports if r['status'] == 'vacuous']

    # native phase: bounded evaluation of the same contracts on the real code.
    # quick: always for functions with failed/unknown/undecided obligations (stand-in + replay search) and a
    #        small cross-check sample for the rest; thorough: the full small scope.
    focus = sorted({ob.func for ob, _ in failed + unknown} |
                   {r['function'] for r in undecided_funcs})
    native = run_native(pid, tier, seed)
    nat_fail = native.get('failures', [])

    kf = kf_all
    violations = []
    known_hit = []

    def is_known(fn, failure):
        """a native failure is a known finding only if it matches the *specific* witness of an entry"""
        for f in kf:
            if f.get('function') and not f.get('match_any_function') and not _fn_match(f['function'], fn):
                continue
            wks = f.get('witness_any') or ([f['witness_key']] if f.get('witness_key') else [])
            merged = dict(failure.get('case') or {}) if isinstance(failure.get('case'), dict) else {}
            merged.update({k: v for k, v in failure.items() if k != 'case'})
            for wk in wks:
                if all(merged.get(k) == val for k, val in wk.items()):
                    return f
        return None

    os.makedirs(os.path.join(OUT, 'replays', pid), exist_ok=True)

    def write_replay(tag, payload):
        safe = ''.join(c if c.isalnum() or c in '._-' else '_' for c in tag)[:120]
        path = os.path.join('replays', pid, safe + '.json')
        json.dump(payload, open(os.path.join(OUT, path), 'w'), indent=1, default=str)
        return path

    # 1. failing inputs found natively (real code vs contract): always violations unless listed
    seen_fn_fail = set()
    for f in nat_fail:
        k = is_known(f.get('function', ''), f)
        if k is not None:
            known_hit.append((k, f))
            continue
        seen_fn_fail.add(f.get('function', ''))
        path = write_replay('native_' + f.get('function', 'x') + '_' + str(len(violations)),
                            {'property': pid, 'kind': 'native-contract-failure', **f,
                             'failed_obligations': [ob.name for ob, _ in failed if _fn_match(ob.func, f.get('function', ''))],
                             'undecided_obligations': [ob.name + ' :: ' + r.get('reason', '') for ob, r in unknown if _fn_match(ob.func, f.get('function', ''))],
                             'replay_cmd': f'./check replay {{this file}}'})
        violations.append((path, False, f))
    # 2. failed obligations without a native witness
    replayed = {}
    model_hit_funcs = set()
    for ob, r in failed:
        # 2a. the solver's counter-model, replayed on the real function (pure module-level functions over strings/ints/lists)
        hit = _replay_model(pid, ob, r, reg, replayed) if ob.func not in model_hit_funcs else None
        if hit is not None:
            model_hit_funcs.add(ob.func)
        elif any(_fn_match(ob.func, fn) for fn in seen_fn_fail) or ob.func in model_hit_funcs:
            continue
        if hit is not None:
            k = is_known(hit.get('function', ''), hit)
            if k is not None:
                known_hit.append((k, hit))
                continue
            path = write_replay('model_' + ob.name, {'property': pid, 'kind': 'model-replay', **hit, 'obligation': ob.name,
                                                     'clause': ob.detail, 'solver': r.get('backend'), 'model': r.get('model'),
                                                     'replay_cmd': './check replay {this file}'})
            violations.insert(0, (path, False, hit))        # the verifier's own counterexample, confirmed on the real code, comes first
            seen_fn_fail.add(hit.get('function', ''))
            continue
        path = write_replay('obl_' + ob.name, {'property': pid, 'kind': 'failed-obligation', 'obligation': ob.name,
                                               'clause': ob.detail, 'line': ob.line,
                                               'solver': r.get('backend'), 'model': r.get('model'),
                                               'model_text': r.get('model_text'),
                                               'note': 'the verifier refuted this obligation; no failing concrete input was found by the bounded native search'})
        violations.append((path, True, {'obligation': ob.name}))

    bounded = []
    for ob, r in unknown:
        bounded.append({'obligation': ob.name, 'reason': r.get('reason', ''), 'cvc5': r.get('cvc5', '')})
    for r in undecided_funcs:
        bounded.append({'function': r['function'], 'reason': r['reason']})
    stand_in_ok = native.get('error') is None
    # every function that is not fully discharged must have been exercised by the native stand-in
    missing_standin = []
    if bounded:
        covered = native.get('functions', {})
        for b in bounded:
            fn = b.get('function') or ''
            if 'obligation' in b:
                fn = b['obligation'].split('/')[1]
            if not any(_fn_match(fn, k) and n > 0 for k, n in covered.items()):
                missing_standin.append(fn)

    n_ob = len(v.obligations)
    n_dis = len(discharged)
    level = 'proof' if (not bounded and not vacuous and n_ob > 0 and n_ob == n_dis) else 'other'
    samples = []
    for ob, r in list(zip(v.obligations, results))[:400]:
        if len(samples) >= 6:
            break
        if r['backend'] != 'simplifier' and ob.kind in ('post', 'raises-only', 'inv-preserve', 'lemma', 'call-pre'):
            samples.append({'obligation': ob.name, 'clause': ob.detail, 'status': r['status'], 'backend': r['backend'],
                            'time_s': r['time'], 'goal': str(ob.goal)[:300]})
    if not samples and v.obligations:
        ob, r = v.obligations[0], results[0]
        samples.append({'obligation': ob.name, 'clause': ob.detail, 'status': r['status'], 'backend': r['backend']})
    backends = {}
    for r in results:
        backends[r['backend']] = backends.get(r['backend'], 0) + 1
    assumptions = sorted(set(v.assumptions_used.values())) + list(getattr(mod, 'ASSUMPTIONS', []))
    ev = {
        'property_id': pid, 'tier': tier, 'seed': seed, 'level': level,
        'coverage': {
            'obligations': n_ob, 'discharged': n_dis,
            'checker_cmd': f'./check {pid} --tier {tier}',
            'trusted_base': TRUSTED_BASE + list(getattr(mod, 'TRUSTED', [])),
            'functions_under_contract': [r['function'] for r in func_reports],
            'function_reports': func_reports,
            'by_backend': backends,
            'solver_time_s': round(solver_time, 3), 'solve_wall_s': round(solve_wall, 3), 'vcgen_s': round(gen_s, 3),
            'failed_obligations': [ob.name for ob, _ in failed],
            'bounded': bounded,
            'vacuity': {'functions_with_unsat_pre_or_zero_obligations': [r['function'] for r in vacuous],
                        'feasibility_checks': v.feas_checks},
            'native_bounded': {k: native.get(k) for k in ('evaluations', 'functions', 'bounds', 'error', 'distinct')},
            'known_findings_hit': sorted({k.get('id') for k, _ in known_hit} | {k.get('id') for k in obl_known}),
            'known_findings_excluded': excluded,
            'samples': samples,
            'explanation': ('every obligation generated from the current source was discharged' if level == 'proof' else
                            'some obligations were not discharged by the deductive back ends; those are decided by a bounded '
                            'native evaluation of the same contracts on the real code (labelled bounded, not proved): ' +
                            json.dumps(bounded)[:1500]),
            'evaluations': max(1, int(native.get('evaluations') or 0) + n_ob),
            'distinct_nontrivial': max(2, int(native.get('distinct') or 0) + n_dis),
            'rule': 'obligations: one per (function, clause, path end / call site / loop); native: enumerated small-scope inputs of the replay builders, distinct by input value',
        },
        'assumptions': assumptions,
        'wall_s': round(time.time() - t0, 3),
        'violations': len(violations),
    }
    os.makedirs(os.path.join(OUT, 'evidence'), exist_ok=True)
    json.dump(ev, open(os.path.join(OUT, 'evidence', f'{pid}.json'), 'w'), indent=1, default=str)

    for k, f in known_hit[:0]:
        pass
    printed = set()
    for k, f in known_hit + [(k, None) for k in obl_known]:
        if k.get('id') in printed:
            continue
        printed.add(k.get('id'))
        print(f"KNOWN-FINDING: property={pid} {k.get('what', k.get('id'))}")
    print(f'{pid}: {n_dis}/{n_ob} obligations discharged ({backends}); functions: '
          f'{sum(1 for r in func_reports if r["status"] == "ok")} ok, {len(undecided_funcs)} undecided, {len(vacuous)} vacuous; '
          f'native evaluations: {native.get("evaluations")}; level={level}; {round(time.time() - t0, 1)}s')
    if native.get('error'):
        print('native harness:', native['error'])
    for b in bounded:
        print('  bounded/undecided:', json.dumps(b)[:300])
    for ob, r in failed:
        print('  FAILED obligation:', ob.name, '|', ob.detail[:100], '| model:', json.dumps(r.get('model'))[:200])
    if violations:
        for path, noinput, info in violations[:4]:
            print(f'VIOLATION property={pid} replay={path}' + (' no-failing-input-found' if noinput else ''))
        if len(violations) > 4:
            print(f'  ... and {len(violations) - 4} more (see replays/{pid}/)')
        return 1
    if vacuous:
        print('vacuity check failed:', vacuous)
        return 3
    if native.get('error'):
        return 3
    if missing_standin:
        print('undecided without stand-in:', missing_standin)
        return 2
    return 0


def _fn_match(a, b):
    """'pydoctor.sphinx._parseInventoryLine' vs 'pydoctor/sphinx.py:_parseInventoryLine' etc."""
    def norm(x):
        x = x.replace('.py:', '.').replace('/', '.')
        return x
    a, b = norm(a), norm(b)
    return a == b or a.endswith('.' + b) or b.endswith('.' + a)


_SIMPLE = {'Str', 'Int', 'Bool', 'Seq[Str]', 'Seq[Int]', 'Bytes', 'Seq[Seq[Str]]'}


def _replay_model(pid, ob, r, reg, cache):
    """-> failure dict (function, case, observed, required) when the real function violates its contract on the model's input"""
    relpath = qual = None
    for (rp, q) in reg.contracts:
        if rp[:-3].replace('/', '.').removesuffix('.__init__') + '.' + q == ob.func:
            relpath, qual = rp, q
            break
    if relpath is None:
        return None
    fkey = f'{relpath}:{qual}'
    c = reg.contracts.get((relpath, qual))
    if c is None or '.' in qual or '#' in qual or c.region or not c.params or not isinstance(r.get('model'), dict):
        return None
    if any(str(t) not in _SIMPLE for t in c.params.values()):
        return None
    default = {'Str': '', 'Int': 0, 'Bool': False}
    kwargs = {}
    for nm, t in c.params.items():
        v = r['model'].get(nm, default.get(str(t), []))
        if isinstance(v, (dict,)) or (isinstance(v, str) and str(t) not in ('Str',)):
            return None
        kwargs[nm] = v
    key = (fkey, json.dumps(kwargs, sort_keys=True, default=str))
    if key in cache:
        return cache[key]
    env = dict(os.environ)
    env['PYTHONPATH'] = os.environ.get('VERIF_REPO', '/repo') + os.pathsep + VERIF
    try:
        p = subprocess.run([NATIVE_PY, '-m', 'replay.model', pid, relpath, qual, json.dumps(kwargs)], cwd=VERIF, env=env,
                           capture_output=True, text=True, timeout=60)
        out = json.loads(p.stdout.strip().splitlines()[-1])
    except Exception:
        cache[key] = None
        return None
    f = out.get('failure')
    cache[key] = None if not f else {'function': fkey, 'case': kwargs, 'observed': f.get('observed'), 'required': f.get('required'),
                                     'class': 'model-replay'}
    return cache[key]


def replay(path):
    p = path if os.path.isabs(path) else os.path.join(OUT, path)
    data = json.load(open(p))
    pid = data['property']
    if data.get('kind') == 'failed-obligation':
        print(json.dumps(data, indent=1)[:3000])
        print('no concrete input recorded for this obligation; re-run ./check', pid)
        return 1
    env = dict(os.environ)
    repo = os.environ.get('VERIF_REPO', '/repo')
    env['PYTHONPATH'] = repo + os.pathsep + VERIF
    if data.get('kind') == 'model-replay':
        relpath, qual = data['function'].split(':', 1)
        pr = subprocess.run([NATIVE_PY, '-m', 'replay.model', pid, relpath, qual, json.dumps(data['case'])], cwd=VERIF, env=env,
                            capture_output=True, text=True)
        print(f"replay of the solver's counter-model on {data['function']}{data['case']!r}:", pr.stdout.strip())
        return pr.returncode
    pr = subprocess.run([NATIVE_PY, '-m', 'replay.run', pid, '--replay', p], cwd=VERIF, env=env)
    return pr.returncode


if __name__ == '__main__':
    sys.exit(main())
