"""Python `re` pattern -> z3 regular expression (mechanical, via re._parser).

Supported: literals, classes (incl. negated, ranges, \\d \\s \\w categories over ASCII), '.', alternation,
groups (non-capturing semantics), ?, *, +, {m,n}, non-greedy variants (same language), (?s:...) flag groups,
\\Z / $ at the very end and ^ at the very start (anchors are dropped: membership is a full match).
Anything else raises Unsupported.  Characters are restricted to the range the pattern mentions plus
all other code points via z3's AllChar.
"""
from __future__ import annotations
import z3
from .types import Unsupported

try:
    import re._parser as sre_parse
    import re._constants as sre_c
except ImportError:      # Python < 3.11
    import sre_parse
    import sre_constants as sre_c

_WS = ' \t\n\r\x0b\x0c'


def _chars(cs):
    return z3.Union(*[z3.Re(z3.StringVal(c)) for c in cs]) if len(cs) > 1 else z3.Re(z3.StringVal(cs[0]))


def _category(cat):
    if cat == sre_c.CATEGORY_DIGIT:
        return z3.Range('0', '9')
    if cat == sre_c.CATEGORY_SPACE:
        return _chars(list(_WS))
    if cat == sre_c.CATEGORY_WORD:
        return z3.Union(z3.Range('a', 'z'), z3.Range('A', 'Z'), z3.Range('0', '9'), z3.Re('_'))
    raise Unsupported(f'regex category {cat} (ASCII approximations of \\d \\s \\w only)')


def _allchar():
    return z3.AllChar(z3.ReSort(z3.StringSort()))


def _item(op, av, dotall):
    if op == sre_c.LITERAL:
        return z3.Re(z3.StringVal(chr(av)))
    if op == sre_c.NOT_LITERAL:
        return z3.Intersect(_allchar(), z3.Complement(z3.Re(z3.StringVal(chr(av)))))
    if op == sre_c.ANY:
        if dotall:
            return _allchar()
        return z3.Intersect(_allchar(), z3.Complement(z3.Re(z3.StringVal('\n'))))
    if op == sre_c.IN:
        neg = False
        parts = []
        for o, a in av:
            if o == sre_c.NEGATE:
                neg = True
            elif o == sre_c.LITERAL:
                parts.append(z3.Re(z3.StringVal(chr(a))))
            elif o == sre_c.RANGE:
                parts.append(z3.Range(chr(a[0]), chr(a[1])))
            elif o == sre_c.CATEGORY:
                parts.append(_category(a))
            else:
                raise Unsupported(f'regex class item {o}')
        u = z3.Union(*parts) if len(parts) > 1 else parts[0]
        if neg:
            return z3.Intersect(_allchar(), z3.Complement(u))
        return u
    if op == sre_c.BRANCH:
        alts = [_seq(x, dotall) for x in av[1]]
        return z3.Union(*alts) if len(alts) > 1 else alts[0]
    if op == sre_c.SUBPATTERN:
        group, add_flags, del_flags, p = av
        d = dotall or bool(add_flags & sre_c.SRE_FLAG_DOTALL)
        return _seq(p, d)
    if op in (sre_c.MAX_REPEAT, sre_c.MIN_REPEAT):
        lo, hi, p = av
        inner = _seq(p, dotall)
        if hi == sre_c.MAXREPEAT:
            if lo == 0:
                return z3.Star(inner)
            if lo == 1:
                return z3.Plus(inner)
            return z3.Concat(*([inner] * lo + [z3.Star(inner)]))
        if lo == 0 and hi == 1:
            return z3.Option(inner)
        return z3.Loop(inner, lo, hi)
    if op == sre_c.CATEGORY:
        return _category(av)
    raise Unsupported(f'regex construct {op}')


def _seq(p, dotall):
    items = list(p)
    out = []
    for i, (op, av) in enumerate(items):
        if op == sre_c.AT:
            if av in (sre_c.AT_END_STRING,) and i == len(items) - 1:
                continue
            if av in (sre_c.AT_BEGINNING, sre_c.AT_BEGINNING_STRING) and i == 0:
                continue
            if av == sre_c.AT_END and i == len(items) - 1:
                # `$` also matches before a trailing newline
                out.append(z3.Option(z3.Re(z3.StringVal('\n'))))
                continue
            raise Unsupported(f'regex anchor {av} in the middle of a pattern')
        out.append(_item(op, av, dotall))
    if not out:
        return z3.Re(z3.StringVal(''))
    return z3.Concat(*out) if len(out) > 1 else out[0]


def to_z3(pattern, flags=0):
    p = sre_parse.parse(pattern, flags)
    dotall = bool(p.state.flags & sre_c.SRE_FLAG_DOTALL)
    if p.state.flags & (sre_c.SRE_FLAG_IGNORECASE | sre_c.SRE_FLAG_MULTILINE | sre_c.SRE_FLAG_VERBOSE):
        raise Unsupported('regex flags i/m/x')
    return _seq(p, dotall)


def end_anchored(pattern, flags=0):
    """every top-level alternative of the pattern ends with $ or \\Z (so that a prefix match is a full match)"""
    p = sre_parse.parse(pattern, flags)

    def seq_ends(items):
        items = list(items)
        if not items:
            return False
        op, av = items[-1]
        if op == sre_c.AT and av in (sre_c.AT_END, sre_c.AT_END_STRING):
            return True
        if op == sre_c.SUBPATTERN:
            return seq_ends(av[3])
        if op == sre_c.BRANCH:
            return all(seq_ends(x) for x in av[1])
        return False
    return seq_ends(p)
