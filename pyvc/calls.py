"""Calls: by contract, inlined, spec functions, comprehensions."""
from __future__ import annotations
import ast
import z3
from .types import *      # noqa
from .values import *     # noqa
from .stmts import _dotted, MUTATORS
from .exprs import _join_ty, _same_heap


_REC_CACHE = {}
STD_AS_BUILTIN = {'itertools.islice': 'islice', 'typing.cast': 'cast'}


class SpecFn:
    def __init__(self, name, node, params, ret, opaque=False, native=None):
        self.name = name
        self.node = node
        self.params = params      # list of (name, type text)
        self.ret = ret            # type text
        self.opaque = opaque
        self.native = native
        self.reads = []           # heap fields (implicit parameters)


class CallMixin:
    # ------------------------------------------------------------------ Call
    def e_Call(self, e, st, exits):
        f = e.func
        # special forms ------------------------------------------------------
        if isinstance(f, ast.Name) and f.id not in st.env:
            if f.id == 'old':
                if st.old is None:
                    raise Unsupported('old() without a pre-state')
                o = st.old
                tmp = st.copy()
                tmp.env = dict(o.env)
                for k_, v_ in st.env.items():       # bound variables of enclosing quantifiers, `result`, lets
                    tmp.env.setdefault(k_, v_)
                tmp.heap = dict(o.heap)
                tmp.ghost = dict(o.ghost)
                tmp.old = None
                v = self.ev1(e.args[0], tmp)
                st.pc[:] = tmp.pc
                yield st, v
                return
            if f.id == 'ext':
                d = e.args[0].value
                ev_ = getattr(self.reg, 'ext_values', {})
                if d not in ev_:
                    raise Unsupported(f'ext(): {d} is not a declared external constant')
                ty_ = parse_type(ev_[d], self.reg.enums)
                yield st, V(ty_, z3.Const('ext_' + ''.join(c if c.isalnum() else '_' for c in d), ty_.sort()))
                return
            if f.id == 'none_of':
                ty = TOpt(parse_type(e.args[0].value, self.reg.enums))
                yield st, V(ty, ty.none())
                return
            if f.id == 'called':
                yield st, mk_bool(any(k.startswith(f'$arg:{e.args[0].value}:') for k in st.env))
                return
            if f.id == 'arg_of':
                key = f'$arg:{e.args[0].value}:{e.args[1].value}'
                if key not in st.env:
                    raise Unsupported(f'arg_of: no call of {e.args[0].value} on this path')
                yield st, st.env[key]
                return
            if f.id == 'unfold':
                # unfold(f(args)): the defining equation of an opaque (non-recursive) spec function at these arguments
                call = e.args[0]
                if not (isinstance(call, ast.Call) and isinstance(call.func, ast.Name) and call.func.id in self.reg.specs):
                    raise Unsupported('unfold() needs a spec function application')
                sf = self.reg.specs[call.func.id]
                if sf.node is None or sf.opaque or _is_recursive(sf):
                    raise Unsupported('unfold() of an opaque/recursive spec function')
                args = [self.ev1(a, st) for a in call.args]
                ptys = [parse_type(t, self.reg.enums) for _, t in sf.params]
                rty = parse_type(sf.ret, self.reg.enums)
                cargs = [self.coerce(a, t, st) for a, t in zip(args, ptys)]
                # only this application is opened; helper specs inside keep their opaque status
                body = self._expand_spec(sf, cargs, rty, st)
                uf = self.spec_apply(sf, args, st)
                yield st, V(BOOL, uf.t == body.t)
                return
            if f.id == 'entry':
                # entry(expr): value of expr in the state at the head of the current loop iteration
                ent = st.env.get('$entry')
                if ent is None:
                    raise Unsupported('entry(x) outside a loop body')
                o = ent.t
                tmp = st.copy()
                tmp.env = dict(o.env)
                for k_, v_ in st.env.items():
                    tmp.env.setdefault(k_, v_)
                tmp.heap = dict(o.heap)
                tmp.ghost = dict(o.ghost)
                v = self.ev1(e.args[0], tmp)
                st.pc[:] = tmp.pc
                yield st, v
                return
            if f.id == 'implies':
                a = self.truthy(self.ev1(e.args[0], st))
                if z3.is_false(z3.simplify(a)):
                    yield st, mk_bool(True)         # the consequent may not even be well-defined (arg_of of a call not made)
                    return
                b = self.truthy(self.ev1(e.args[1], st))
                yield st, V(BOOL, z3.Implies(a, b))
                return
            if f.id == 'forall':
                # forall('Str', lambda k: body): unbounded universal quantifier of the contract language
                ty = parse_type(e.args[0].value, self.reg.enums)
                lam = e.args[1]
                if not isinstance(lam, ast.Lambda) or len(lam.args.args) != 1:
                    raise Unsupported('forall needs a one-argument lambda')
                bv = z3.Const(fresh_name('fa_' + lam.args.args[0].arg), ty.sort())
                saved = dict(st.env)
                st.env[lam.args.args[0].arg] = V(ty, bv)
                base = len(st.pc)
                try:
                    body = self.truthy(self.ev1q(lam.body, st))
                finally:
                    st.env = saved
                if len(st.pc) != base:
                    raise Unsupported('forall body introduces facts')
                yield st, V(BOOL, z3.ForAll([bv], body))
                return
            if f.id == 're_pmatch':
                # re_pmatch(pattern, flags, s): compiled_pattern.match(s) is not None
                v = self.ev1(e.args[2], st)
                yield st, V(BOOL, self.regex_match_term(e.args[0].value, e.args[1].value, v.t, 'match'))
                return
            if f.id == 're_match':
                from .regex import to_z3
                pat = e.args[0]
                if not (isinstance(pat, ast.Constant) and isinstance(pat.value, str)):
                    raise Unsupported('re_match needs a literal pattern')
                v = self.ev1(e.args[1], st)
                yield st, V(BOOL, z3.InRe(v.t, to_z3(pat.value)))
                return
            if f.id == 'cast':
                yield from self.ev(e.args[1], st, exits)
                return
            if f.id in ('any', 'all') and len(e.args) == 1 and isinstance(e.args[0], (ast.GeneratorExp, ast.ListComp)):
                yield from self.quantified(f.id, e.args[0], st, exits)
                return
            if f.id == 'super' and not e.args:
                ctx = self.fstack[-1]
                yield st, V(TPy('super'), (st.env.get('self') or st.env.get('cls'), ctx.cls))
                return
            if f.id == 'isinstance':
                yield from self.do_isinstance(e, st, exits)
                return
        # evaluate callee ----------------------------------------------------
        recv_expr = f.value if isinstance(f, ast.Attribute) else None
        for st2, callee in self.ev(f, st, exits):
            for st3, (args, kwargs) in self.ev_args(e, st2, exits):
                yield from self.apply(callee, args, kwargs, st3, exits, e, recv_expr)

    def ev_args(self, e, st, exits):
        def go(i, st0, acc):
            if i == len(e.args):
                yield st0, acc
                return
            a = e.args[i]
            if isinstance(a, ast.Starred):
                for st1, v in self.ev(a.value, st0, exits):
                    yield from go(i + 1, st1, acc + [('*', v)])
            else:
                for st1, v in self.ev(a, st0, exits):
                    yield from go(i + 1, st1, acc + [v])

        def gok(j, st0, acc):
            if j == len(e.keywords):
                yield st0, acc
                return
            k = e.keywords[j]
            if k.arg is None:
                raise Unsupported('**kwargs call')
            for st1, v in self.ev(k.value, st0, exits):
                d = dict(acc)
                d[k.arg] = v
                yield from gok(j + 1, st1, d)
        for st1, args in go(0, st, []):
            for st2, kw in gok(0, st1, {}):
                yield st2, (args, kw)

    def do_isinstance(self, e, st, exits):
        for st2, v in self.ev(e.args[0], st, exits):
            names = []
            elts = e.args[1].elts if isinstance(e.args[1], ast.Tuple) else [e.args[1]]
            for c in elts:
                d = _dotted(c)
                if d is None:
                    raise Unsupported('isinstance with computed class')
                nm = d.split('.')[-1]
                # module-level aliases of classes (`_ModuleT = Module`)
                ctx = self.fstack[-1] if self.fstack else None
                mi = self.src.modules.get(ctx.relpath) if ctx else None
                seen_alias = set()
                while mi is not None and nm in mi.globals and isinstance(mi.globals[nm], ast.Name) and nm not in seen_alias:
                    seen_alias.add(nm)
                    nm = mi.globals[nm].id
                names.append(nm)
            if isinstance(v.ty, TOpt):
                inner = V(v.ty.inner, v.ty.val(v.t))
                r = self._isinst(inner, names)
                yield st2, V(BOOL, z3.And(v.ty.is_some(v.t), r))
            else:
                yield st2, V(BOOL, self._isinst(v, names))

    def _isinst(self, v, names):
        if isinstance(v.ty, TRef):
            conds = [self.isinstance_term(v.t, n) for n in names]
            r = z3.Or(conds)
            if v.ty.nullable:
                r = z3.And(v.t != null(), r)
            return r
        if v.ty is NONE:
            return z3.BoolVal(False)
        simple = {STR: 'str', INT: 'int', BOOL: 'bool'}
        if v.ty in simple:
            nm = simple[v.ty]
            ok = nm in names or (nm == 'bool' and 'int' in names)
            return z3.BoolVal(ok)
        if isinstance(v.ty, TSeq):
            return z3.BoolVal('list' in names or (v.ty == BYTES and 'bytes' in names))
        if isinstance(v.ty, TTuple):
            return z3.BoolVal('tuple' in names)
        if v.ty is EXC:
            return z3.Or([self.exc_is(v.t, n) for n in names if n in self.exc_codes] or [z3.BoolVal(False)])
        if isinstance(v.ty, TEnum):
            # enum-encoded singleton classes (ast operator nodes): isinstance(op, ast.Pow) <=> op is the Pow member
            ms = [n for n in names if n in v.ty.members]
            return z3.Or([v.t == v.ty.member(n) for n in ms] or [z3.BoolVal(False)])
        if isinstance(v.ty, TObj):
            f = self.UF('isinst_' + v.ty.name, v.ty.sort(), z3.StringSort(), z3.BoolSort())
            return z3.Or([f(v.t, z3.StringVal(n)) for n in names])
        raise Unsupported(f'isinstance on {v.ty}')

    # ------------------------------------------------------------------ apply
    def apply(self, callee, args, kwargs, st, exits, e, recv_expr=None):
        ty = callee.ty
        p = callee.t
        line = getattr(e, 'lineno', 0)
        if ty is FUN:
            if isinstance(p, Closure):
                yield from self.inline_closure(p, args, kwargs, st, exits, e)
                return
            if isinstance(p, FuncRef):
                self_v = None
                if p.cls is not None and p.qualname.split('.')[-1] in p.cls.classmethods:
                    self_v = V(CLS, p.cls)
                yield from self.call_func(p, self_v, args, kwargs, st, exits, e)
                return
            if isinstance(p, SpecFn):
                yield st, self.spec_apply(p, args, st)
                return
            if isinstance(p, tuple) and p[0] == 'builtin':
                yield from self.call_builtin(p[1], args, kwargs, st, exits, e)
                return
        if ty is BOUND:
            b = p
            if b.func is not None:
                yield from self.call_func(b.func, b.recv, args, kwargs, st, exits, e)
                return
            yield from self.call_method(b.recv, b.name, args, kwargs, st, exits, e, recv_expr)
            return
        if ty is CLS:
            if isinstance(p, tuple) and p[0] == 'exc':
                yield st, self.exc_val(p[1])
                return
            yield from self.construct(p, args, kwargs, st, exits, e)
            return
        if ty is MOD:
            name = p if isinstance(p, str) else None
            if name in STD_AS_BUILTIN and name not in self.reg.external:
                yield from self.call_builtin(STD_AS_BUILTIN[name], args, kwargs, st, exits, e)
                return
            if name is not None:
                yield from self.call_external(name, args, kwargs, st, exits, e)
                return
        if isinstance(ty, TPy) and ty.kind == 'super':
            raise Unsupported('call of super object')
        if isinstance(ty, TObj) and f'<{ty.name}>.__call__' in self.reg.external:
            yield from self.call_external(f'<{ty.name}>.__call__', [callee] + args, kwargs, st, exits, e)
            return
        if isinstance(ty, TObj) and ty.name.startswith('Callable'):
            yield from self.call_external('<param>' + ty.name, [callee] + args, kwargs, st, exits, e)
            return
        raise Unsupported(f'call of {ty} at L{line}')

    # ------------------------------------------------------------------ repo functions
    def bind_params(self, node, self_v, args, kwargs, st, exits):
        """-> dict param name -> V ; defaults evaluated (constants only)"""
        a = node.args
        params = [x.arg for x in a.posonlyargs + a.args]
        bound = {}
        pos = list(args)
        if self_v is not None and params:
            bound[params[0]] = self_v
            params = params[1:]
        flat = []
        for x in pos:
            if isinstance(x, tuple) and x[0] == '*':
                v = x[1]
                if isinstance(v.ty, TTuple):
                    flat.extend(V(t, v.ty.get(v.t, i)) for i, t in enumerate(v.ty.elems))
                elif a.vararg is not None and len(flat) >= len(params):
                    flat.append(('*', v))
                else:
                    raise Unsupported('star-args of unknown length into positional parameters')
            else:
                flat.append(x)
        rest = []
        for i, v in enumerate(flat):
            if i < len(params):
                bound[params[i]] = v
            else:
                rest.append(v)
        if rest or a.vararg is not None:
            if a.vararg is None:
                raise Unsupported('too many positional arguments')
            bound[a.vararg.arg] = self.pack_varargs(rest)
        for k, v in kwargs.items():
            bound[k] = v
        defaults = a.defaults
        allpos = [x.arg for x in a.posonlyargs + a.args]
        for i, d in enumerate(defaults):
            nm = allpos[len(allpos) - len(defaults) + i]
            if nm not in bound:
                bound[nm] = self.ev1(d, st)
        for x, d in zip(a.kwonlyargs, a.kw_defaults):
            if x.arg not in bound:
                if d is None:
                    raise Unsupported(f'missing keyword-only argument {x.arg}')
                bound[x.arg] = self.ev1(d, st)
        for nm in allpos:
            if nm not in bound:
                raise Unsupported(f'missing argument {nm}')
        return bound

    def pack_varargs(self, rest):
        """*args as a sequence value: either a single starred Seq, or a tuple of same-typed values"""
        if len(rest) == 1 and isinstance(rest[0], tuple):
            return rest[0][1]
        if any(isinstance(r, tuple) for r in rest):
            # f(*xs, y): concatenate
            parts = []
            ety = None
            for r in rest:
                if isinstance(r, tuple):
                    ety = r[1].ty.elem
            for r in rest:
                if isinstance(r, tuple):
                    parts.append(r[1].t)
                else:
                    parts.append(z3.Unit(self.coerce(r, ety).t))
            return V(TSeq(ety), z3.Concat(*parts))
        if not rest:
            return V(TSeq(NONE), 'empty')
        ety = rest[0].ty
        us = [z3.Unit(self.coerce(r, ety).t) for r in rest]
        return V(TSeq(ety), z3.Concat(*us) if len(us) > 1 else us[0])

    def find_contract(self, fr):
        return self.reg.contracts.get((fr.relpath, fr.qualname))

    def call_func(self, fr, self_v, args, kwargs, st, exits, e):
        c = self.find_contract(fr)
        # methods reached through a subclass receiver: contract may be keyed on the defining class
        if c is None or c.inline:
            if c is None and not self.auto_inline_ok(fr):
                raise Unsupported(f'call of {fr.relpath}:{fr.qualname} which has no contract')
            yield from self.inline_func(fr, self_v, args, kwargs, st, exits, e, c)
            return
        yield from self.call_by_contract(c, fr.node, self_v, args, kwargs, st, exits, e)

    def auto_inline_ok(self, fr):
        return False

    def call_property(self, recv, fr, st, exits, e):
        """property read: by contract or inlined; must yield exactly one value"""
        sub = []
        res = list(self.call_func(fr, recv, [], {}, st, sub, e))
        exits.extend(sub)
        return self._single(res, st, fr.qualname)

    def ext_attribute(self, recv, key, st, exits, e):
        """attribute read on an external object (assumed contract '<Obj>.@attr': may raise AttributeError)"""
        sub = []
        res = list(self.call_external(key, [recv], {}, st, sub, e))
        exits.extend(sub)
        return self._single(res, st, key)

    def _single(self, res, st, what):
        if len(res) == 1:
            if res[0][0] is not st:
                # state was copied inside: transplant
                st.pc[:] = res[0][0].pc
                st.heap = res[0][0].heap
                st.ghost = res[0][0].ghost
            return res[0][1]
        if not res:
            return None
        # merge same-typed results
        ty = res[0][1].ty
        if all(r[1].ty == ty for r in res) and all(_same_heap(r[0], st) for r in res) and not isinstance(ty, TPy):
            base_len = len(st.pc)
            val = res[-1][1].t
            conds = []
            for rst, rv in res:
                extra = rst.pc[base_len:]
                conds.append((z3.And(extra) if extra else z3.BoolVal(True), rv.t))
            out = conds[-1][1]
            for cnd, t in reversed(conds[:-1]):
                out = z3.If(cnd, t, out)
            st.assume(z3.Or([c for c, _ in conds]))
            return V(ty, out)
        raise Unsupported(f'property {what} forks')

    def call_dunder(self, recv, name, args, st, exits, e):
        ci = self.src.find_class(recv.ty.cls)
        if ci is None:
            return None
        c, m = self.src.lookup_method(ci, name)
        if m is None:
            return None
        fr = FuncRef(c.module.relpath, f'{c.qualname}.{name}', m, cls=c)
        sub = []
        res = list(self.call_func(fr, recv, args, {}, st, sub, e))
        exits.extend(sub)
        if len(res) != 1:
            raise Unsupported(f'{name} forks')
        if res[0][0] is not st:
            st.pc[:] = res[0][0].pc
            st.heap = res[0][0].heap
            st.ghost = res[0][0].ghost
        return res[0][1]

    # ------------------------------------------------------------------ inlining
    def inline_func(self, fr, self_v, args, kwargs, st, exits, e, contract):
        if self.inline_depth > 12:
            raise Unsupported('inline depth')
        from .engine import FuncCtx
        bound = self.bind_params(fr.node, self_v, args, kwargs, st, exits)
        if contract is not None:
            for nm, tt in contract.params.items():
                if nm in bound:
                    bound[nm] = self.coerce(bound[nm], parse_type(tt, self.reg.enums), st)
        ctx = FuncCtx(fr.relpath, fr.qualname, fr.node, fr.cls, contract)
        yield from self._run_inline(fr.node.body, bound, ctx, st, exits)

    def inline_closure(self, cl, args, kwargs, st, exits, e):
        node = cl.node
        if isinstance(node, ast.Lambda):
            bound = self.bind_params(node, None, args, kwargs, st, exits)
            env = dict(cl.env or st.env)
            env.update(bound)
            saved = st.env
            st.env = env
            try:
                res = list(self.ev(node.body, st, exits))
            finally:
                pass
            for st2, v in res:
                st2.env = dict(saved)
                yield st2, v
            st.env = saved
            return
        bound = self.bind_params(node, None, args, kwargs, st, exits)
        ctx = cl.owner
        # nested def: runs in (a copy of) the enclosing frame, writes to nonlocal names are kept
        nonlocals = set()
        for n in ast.walk(node):
            if isinstance(n, ast.Nonlocal):
                nonlocals.update(n.names)
        # free variables of the closure that name mutable containers of the enclosing frame: in-place
        # mutations (xs.append(...), d[k] = v) are visible outside, like in Python
        local_names = set(bound)
        for n in ast.walk(node):
            if isinstance(n, ast.Name) and isinstance(n.ctx, ast.Store):
                local_names.add(n.id)
        for k_, v_ in st.env.items():
            if k_ not in local_names and not k_.startswith('$') and isinstance(v_.ty, (TSeq, TMap, TSet)):
                nonlocals.add(k_)
        outer = dict(st.env)
        env = dict(outer)
        env.update(bound)
        from .engine import FuncCtx
        ctx2 = FuncCtx(ctx.relpath, ctx.qualname + '.<locals>.' + node.name, node, ctx.cls, ctx.contract)
        # loop ordinals of a nested def continue the numbering of the enclosing function
        ctx2.loop_ord = ctx.loop_ord
        yield from self._run_inline(node.body, env, ctx2, st, exits, restore=outer, keep=nonlocals)

    def _run_inline(self, body, env, ctx, st, exits, restore=None, keep=()):
        saved_env = st.env if restore is None else restore
        st.env = env
        self.fstack.append(ctx)
        self.inline_depth += 1
        try:
            outs = self.exec_block(body, st)
        finally:
            self.fstack.pop()
            self.inline_depth -= 1
        for o in outs:
            new_env = dict(saved_env)
            for k in keep:
                if k in o.st.env:
                    new_env[k] = o.st.env[k]
            if '$exc' in o.st.env and '$exc' in saved_env:
                new_env['$exc'] = saved_env['$exc']
            o.st.env = new_env
            if o.kind == 'return':
                yield o.st, o.val
            elif o.kind == 'normal':
                yield o.st, NONE_V
            elif o.kind == 'raise':
                exits.append(o)
            else:
                raise Unsupported(f'{o.kind} escaping a function body')

    # ------------------------------------------------------------------ by contract
    def call_by_contract(self, c, node, self_v, args, kwargs, st, exits, e, bound=None):
        line = getattr(e, 'lineno', 0)
        if bound is None:
            bound = self.bind_params(node, self_v, args, kwargs, st, exits)
        for nm, tt in c.params.items():
            if nm in bound and tt != 'Any':
                bound[nm] = self.coerce(bound[nm], parse_type(tt, self.reg.enums), st)
        if c.self_type and 'self' in bound:
            bound['self'] = self.coerce(bound['self'], parse_type(c.self_type, self.reg.enums), st)
        if self.binder_depth > 0 and not (c.pure and not c.modifies):
            raise Unsupported(f'call of non-pure {c.qualname} under a bound variable (comprehension/quantifier)')
        key = f'{c.file}:{c.qualname}'
        if c.assumed:
            self.assumptions_used[key] = f'assumed contract of {c.qualname}' + (f' ({c.source})' if c.source else '')
        self.callees_used.add(key)
        # evaluate clauses in the callee's parameter environment
        cenv = dict(bound)
        caller_env = st.env
        caller_env[f'$arg:{c.qualname}:'] = NONE_V       # called('callee')
        for pn, pv in bound.items():      # arg_of('callee', 'param') in later hints/asserts of the caller
            if not isinstance(pv.ty, TPy):
                caller_env[f'$arg:{c.qualname}:{pn}'] = pv
        st.env = cenv
        try:
            for nm, tx in c.lets.items():
                cenv[nm] = self.ev_spec_val(tx, st)
            # (only inside contract/spec text: a comprehension of the *code* is evaluated under ev1q as well, and there the
            # callee's contract is all the caller knows about it)
            spec_pure = bool(self.spec_mode) and not self.code_quant and c.pure and not c.modifies
            for k, r in enumerate(c.requires):
                if spec_pure:
                    break      # inside a specification a pure query is just its (uninterpreted) value
                g = self.ev_spec(r, st)
                st.env = caller_env
                self.oblige('call-pre', st, g, line, f'{c.qualname}: requires {r}', tag=f'[{c.qualname}#{k}]')
                st.env = cenv
                st.assume(g)
            pre = st.snapshot()
            # havoc the frame
            for m in c.modifies:
                if m in st.ghost:
                    st.ghost[m] = fresh(st.ghost[m].ty, m)
                else:
                    if m in st.heap:
                        st.heap[m] = z3.Const(fresh_name('H_' + m), st.heap[m].sort())
                    else:
                        fty = self.any_field_ty(m)
                        if fty is None:
                            raise Unsupported(f'modifies {m}: unknown field/ghost')
                        self.heap_arr(st, m, fty)
                        pre.heap[m] = st.heap[m]
                        st.heap[m] = z3.Const(fresh_name('H_' + m), st.heap[m].sort())
            # exceptional outcomes
            if c.raises is None:
                exc, cond = self.any_exc('BaseException')
                bad = st.copy().assume(cond)
                bad.env = dict(caller_env)         # (its own environment: a handler's bindings must not leak into the normal path)
                exits.append(Outcome('raise', bad, exc, line, f'{c.qualname} (unspecified exceptions)'))
            else:
                for ename, cond_tx in c.raises.items():
                    bad = st.copy()
                    bad.env = dict(cenv)
                    if ename.startswith('any:'):
                        exc, cnd = self.any_exc(ename[4:])
                        bad.assume(cnd)
                    else:
                        exc = self.exc_val(ename)
                    g = self.ev_spec(cond_tx, bad, old=pre)
                    bad.assume(g)
                    bad.env = dict(caller_env)
                    if self.feasible(bad):
                        exits.append(Outcome('raise', bad, exc, line, f'{c.qualname} raises {ename}'))
            # normal outcome
            rty = parse_type(c.returns, self.reg.enums) if c.returns else NONE
            if rty is NONE:
                res = NONE_V
            elif c.pure and not c.modifies and c.result_is:
                res = self.coerce(self.ev_spec_val(c.result_is, st), rty, None)
            elif c.pure and not c.modifies:
                res = self.pure_result(c, rty, bound, st)
            else:
                res = fresh(rty, 'r_' + c.qualname.split('.')[-1])
                if isinstance(rty, TRef) and not rty.nullable:
                    st.assume(res.t != null())
            cenv['result'] = res
            for en in c.ensures:
                if 'arg_of(' in en:
                    continue      # clauses about the callee's own calls are checked in the callee, not exported
                if spec_pure and not c.assumed:
                    continue
                st.assume(self.ev_spec(en, st, old=pre))
            st.env = caller_env
            if self.spec_mode or self.feasible(st):
                yield st, res
        finally:
            st.env = caller_env

    def pure_result(self, c, rty, bound, st):
        """result of a pure callee = uninterpreted function of its arguments (and of the heap fields it reads)"""
        argv = [bound[k] for k in bound if not isinstance(bound[k].ty, TPy) and bound[k].ty is not NONE]
        sorts = [a.ty.sort() for a in argv]
        terms = [a.t for a in argv]
        for fld in c.reads:
            fty = self.any_field_ty(fld)
            arr = self.heap_arr(st, fld, fty)
            sorts.append(arr.sort())
            terms.append(arr)
        f = self.UF('pure_' + c.qualname.replace('.', '_'), *(sorts + [rty.sort()]))
        return V(rty, f(*terms))

    def contract_reads(self, c):
        return getattr(c, '_reads', [])

    def any_field_ty(self, fname):
        for sh in self.reg.shapes.values():
            if fname in sh.fields:
                return parse_type(sh.fields[fname], self.reg.enums)
        return None

    def check_loop_frame(self, m):
        for ms in self.loop_mod_stack:
            if m not in ms:
                raise Unsupported(f'callee modifies {m} inside a loop whose sidecar `modifies` does not list it')

    def call_external(self, name, args, kwargs, st, exits, e):
        c = self.reg.external.get(name)
        if c is None:
            raise Unsupported(f'call of external {name} without an assumed contract')
        names = list(c.params.keys())
        bound = {}
        for i, a in enumerate(args):
            if isinstance(a, tuple):
                raise Unsupported('star-args to external')
            if i < len(names):
                bound[names[i]] = a
        for k, v in kwargs.items():
            bound[k] = v
        bound['__nargs__'] = mk_int(len(args) + len(kwargs))
        yield from self.call_by_contract(c, None, None, args, kwargs, st, exits, e, bound=bound)

    # ------------------------------------------------------------------ construction
    def construct(self, ci, args, kwargs, st, exits, e):
        name = ci.name
        sh = self.reg.shapes.get(name)
        if sh is None:
            raise Unsupported(f'construction of {name}: no shape')
        ty = TRef(name)
        r = fresh(ty, 'new_' + name)
        alloc = st.ghost.get('$alloc')
        if alloc is None:
            alloc = V(TSet(ty), z3.Const('alloc0', z3.ArraySort(RefSort(), z3.BoolSort())))
        st.assume(z3.Not(z3.Select(alloc.t, r.t)))
        st.assume(r.t != null())
        st.assume(self.typeof(r.t) == self.cls_code(name))
        st.ghost['$alloc'] = V(alloc.ty, z3.Store(alloc.t, r.t, z3.BoolVal(True)))
        c, m = self.src.lookup_method(ci, '__init__')
        if '__items__' in sh.fields and m is None:
            # subclass of a builtin sequence type (deque/list): constructor copies the iterable
            ity = parse_type(sh.fields['__items__'], self.reg.enums)
            if args:
                src = self.seq_of(args[0], st)
                self.write_field(st, r, '__items__', V(ity, self.coerce(src, ity).t))
            else:
                self.write_field(st, r, '__items__', V(ity, z3.Empty(ity.sort())))
            yield st, r
            return
        if m is None:
            # attrs / NamedTuple-like record: keyword arguments initialise the declared fields
            for k_, v_ in kwargs.items():
                self.write_field(st, r, k_, v_)
            if args:
                raise Unsupported(f'positional construction of record class {name}')
            yield st, r
            return
        fr = FuncRef(c.module.relpath, f'{c.qualname}.__init__', m, cls=c)
        for st2, _ in self.call_func(fr, r, args, kwargs, st, exits, e):
            yield st2, r

    # ------------------------------------------------------------------ spec functions
    def spec_decl(self, sf):
        # the definition depends on which helper specs are opaque in the current contract
        used = {n.func.id for n in ast.walk(sf.node) if isinstance(n, ast.Call) and isinstance(n.func, ast.Name)} \
            if sf.node is not None else set()
        okey = tuple(sorted(used & self.cur_opaque))
        ckey = (sf.name, okey)
        zname = sf.name if not okey else sf.name + '!o' + '_'.join(okey)
        if ckey in self.specfns:
            return self.specfns[ckey]
        if ckey in _REC_CACHE and not (sf.opaque or sf.node is None):
            self.specfns[ckey] = _REC_CACHE[ckey]      # z3 recursive definitions are global to the context
            return self.specfns[ckey]
        ptys = [parse_type(t, self.reg.enums) for _, t in sf.params]
        rty = parse_type(sf.ret, self.reg.enums)
        htys = [self.any_field_ty(f) for f in sf.reads]
        if any(h is None for h in htys):
            raise Unsupported(f'spec function {sf.name} reads an undeclared field')
        hsorts = [z3.ArraySort(RefSort(), h.sort()) for h in htys]
        sorts = [t.sort() for t in ptys] + hsorts + [rty.sort()]
        if sf.opaque or sf.node is None:
            f = z3.Function(sf.name, *sorts)
            self.specfns[ckey] = (f, ptys, rty)
            return self.specfns[ckey]
        f = z3.RecFunction(zname, *sorts)
        self.specfns[ckey] = (f, ptys, rty)
        params = [z3.Const(f'{sf.name}!{n}', t.sort()) for (n, _), t in zip(sf.params, ptys)]
        hparams = [z3.Const(f'{sf.name}!H_{f}', hs) for f, hs in zip(sf.reads, hsorts)]
        st0 = State()
        st0.env = {n: V(t, p) for (n, _), t, p in zip(sf.params, ptys, params)}
        st0.heap = {f: hp for f, hp in zip(sf.reads, hparams)}
        self._spec_heap_guard.append(set(sf.reads))
        from .engine import FuncCtx
        ctx = FuncCtx('<spec>', sf.name, sf.node, None, None)
        self.fstack.append(ctx)
        self.spec_mode += 1
        try:
            outs = self.exec_block(sf.node.body, st0)
        finally:
            self.spec_mode -= 1
            self.fstack.pop()
            self._spec_heap_guard.pop()
        cases = []
        for o in outs:
            if o.kind != 'return':
                raise Unsupported(f'spec function {sf.name}: path ends with {o.kind}')
            if set(o.st.heap) - set(sf.reads):
                raise Unsupported(f'spec function {sf.name} reads fields {set(o.st.heap) - set(sf.reads)} not listed in @reads')
            cases.append((z3.And(o.st.pc) if o.st.pc else z3.BoolVal(True), self.coerce(o.val, rty).t))
        body = cases[-1][1]
        for cnd, t in reversed(cases[:-1]):
            body = z3.If(cnd, t, body)
        z3.RecAddDefinition(f, params + hparams, body)
        _REC_CACHE[ckey] = self.specfns[ckey]
        return self.specfns[ckey]

    def spec_apply(self, sf, args, st):
        """recursive spec functions are z3 recursive definitions; non-recursive ones are expanded in place
        (macros) unless the contract being verified lists them as opaque, in which case they are uninterpreted."""
        ptys = [parse_type(t, self.reg.enums) for _, t in sf.params]
        rty = parse_type(sf.ret, self.reg.enums)
        if len(args) != len(ptys):
            raise Unsupported(f'spec function {sf.name} arity')
        cargs = [self.coerce(a, t, st) for a, t in zip(args, ptys)]
        if sf.node is not None and not sf.opaque and not _is_recursive(sf) and sf.name not in self.cur_opaque:
            if sf.name in self._expanding:
                raise Unsupported(f'mutually recursive spec function {sf.name}')
            self._expanding.add(sf.name)
            try:
                return self._expand_spec(sf, cargs, rty, st)
            finally:
                self._expanding.discard(sf.name)
        hterms = []
        for fld in sf.reads:
            hterms.append(self.heap_arr(st, fld, self.any_field_ty(fld)))
        if sf.node is not None and not sf.opaque and _is_recursive(sf) and sf.name not in self.cur_opaque:
            f, _, _ = self.spec_decl(sf)
        else:
            f = self.UF(sf.name, *([t.sort() for t in ptys] + [h.sort() for h in hterms] + [rty.sort()]))
        return V(rty, f(*([a.t for a in cargs] + hterms)))

    def _expand_spec(self, sf, cargs, rty, st):
        from .engine import FuncCtx
        sub = State()
        sub.env = {n: a for (n, _), a in zip(sf.params, cargs)}
        sub.heap = dict(st.heap)          # a macro sees the heap of the state it is expanded in
        sub.ghost = dict(st.ghost)
        ctx = FuncCtx('<spec>', sf.name, sf.node, None, None)
        self.fstack.append(ctx)
        self.spec_mode += 1
        saved_cq, self.code_quant = self.code_quant, 0
        try:
            outs = self.exec_block(sf.node.body, sub)
        finally:
            self.spec_mode -= 1
            self.code_quant = saved_cq
            self.fstack.pop()
        cases = []
        for o in outs:
            if o.kind != 'return':
                raise Unsupported(f'spec function {sf.name}: path ends with {o.kind}')
            cases.append((z3.And(o.st.pc) if o.st.pc else z3.BoolVal(True), self.coerce(o.val, rty).t))
            for k2, a2 in o.st.heap.items():
                st.heap.setdefault(k2, a2)      # heap arrays first touched inside the macro
        body = cases[-1][1]
        for cnd, t in reversed(cases[:-1]):
            body = z3.If(cnd, t, body)
        return V(rty, body)

    # ------------------------------------------------------------------ comprehensions / quantifiers
    def iter_seq(self, it, st):
        """-> (length term, getter(index term) -> V) for iterable values, else None"""
        ty = it.ty
        if isinstance(ty, TSeq):
            if ty.elem is NONE:
                return z3.IntVal(0), (lambda k: NONE_V)
            return z3.Length(it.t), (lambda k: V(ty.elem, it.t[k]))
        if ty is STR:
            return z3.Length(it.t), (lambda k: V(STR, z3.SubString(it.t, k, 1)))
        if isinstance(ty, TSet) and st is not None and not self.spec_mode:
            # iterating a set: SOME enumeration of its members - every member once, in an order nothing is known about
            # (CPython: the order depends on the hash seed).  A fresh sequence per iteration.
            en = fresh(TSeq(ty.elem), 'set_enum')
            i, j = z3.Int(fresh_name('i')), z3.Int(fresh_name('j'))
            y = z3.Const(fresh_name('y'), ty.elem.sort())
            n = z3.Length(en.t)
            st.assume(z3.ForAll([i], z3.Implies(z3.And(i >= 0, i < n), z3.Select(it.t, en.t[i])), patterns=[en.t[i]]))
            st.assume(z3.ForAll([y], z3.Implies(z3.Select(it.t, y), z3.Contains(en.t, z3.Unit(y))), patterns=[z3.Select(it.t, y)]))
            st.assume(z3.ForAll([i, j], z3.Implies(z3.And(i >= 0, i < j, j < n), en.t[i] != en.t[j])))
            # the first instances, ground (comparisons with one- and two-element lists need exactly these)
            st.assume(z3.Implies(n >= 1, z3.Select(it.t, en.t[0])))
            st.assume(z3.Implies(n >= 2, z3.And(z3.Select(it.t, en.t[1]), en.t[0] != en.t[1])))
            self.assumptions_used['set-iteration'] = 'iteration over a set yields its members in an unspecified order (hash-seed dependent)'
            return n, (lambda k: V(ty.elem, en.t[k]))
        if ty is RANGE:
            lo, hi = it.t
            n = z3.If(hi > lo, hi - lo, 0)
            return z3.simplify(n), (lambda k: V(INT, lo + k))
        if isinstance(ty, TPy) and ty.kind == 'enumerate':
            inner, start = it.t
            r = self.iter_seq(inner, st)
            if r is None:
                return None
            n, g = r

            def get(k):
                x = g(k)
                tt = TTuple([INT, x.ty])
                return V(tt, tt.mk([k + start, x.t]))
            return n, get
        if isinstance(ty, TPy) and ty.kind == 'zip':
            parts = [self.iter_seq(x, st) for x in it.t]
            if any(p is None for p in parts):
                return None
            n = parts[0][0]
            for p in parts[1:]:
                n = z3.If(p[0] < n, p[0], n)

            def getz(k):
                xs = [p[1](k) for p in parts]
                tt = TTuple([x.ty for x in xs])
                return V(tt, tt.mk([x.t for x in xs]))
            return z3.simplify(n), getz
        if isinstance(ty, TPy) and ty.kind == 'map':
            fn, inner = it.t
            r = self.iter_seq(inner, st)
            if r is None:
                return None
            n, g = r

            def getm(k):
                sub = st.copy()
                base = len(sub.pc)
                ex = []
                self.binder_depth += 1
                try:
                    res = list(self.apply(fn, [g(k)], {}, sub, ex, None))
                finally:
                    self.binder_depth -= 1
                if len(res) != 1 or ex or res[0][0].pc[base:]:
                    raise Unsupported('map(): the function forks, may raise or has a contract with postconditions')
                return res[0][1]
            return n, getm
        if isinstance(ty, TPy) and ty.kind == 'reversed':
            r = self.iter_seq(it.t, st)
            if r is None:
                return None
            n, g = r
            return n, (lambda k: g(n - 1 - k))
        if isinstance(ty, TRef):
            sv = self.seq_view(it, st)
            if sv is not None:
                return self.iter_seq(sv, st)
        return None

    def seq_view(self, v, st):
        if isinstance(v.ty, TRef):
            fty = self.field_ty(v.ty.cls, '__items__')
            if fty is not None:
                return self.read_field(st, v, '__items__')
        return None

    def seq_of(self, v, st):
        """materialise an iterable as a Seq value"""
        if isinstance(v.ty, TSeq):
            return v
        if isinstance(v.ty, TTuple):
            if not v.ty.elems:
                return V(TSeq(NONE), 'empty')
            return self.coerce(v, TSeq(v.ty.elems[0]))
        sv = self.seq_view(v, st) if isinstance(v.ty, TRef) else None
        if sv is not None:
            return sv
        r = self.iter_seq(v, st)
        if r is None:
            raise Unsupported(f'cannot iterate {v.ty}')
        n, g = r
        k = z3.Int(fresh_name('k'))
        sample = g(k)
        sty = TSeq(sample.ty)
        out = fresh(sty, 'seq')
        st.assume(z3.Length(out.t) == n)
        st.assume(z3.ForAll([k], z3.Implies(z3.And(k >= 0, k < n), out.t[k] == sample.t),
                            patterns=[out.t[k]]))
        return out

    def quantified(self, which, comp, st, exits):
        """any()/all() over a single-generator comprehension -> quantifier"""
        if len(comp.generators) != 1:
            raise Unsupported('nested generators in any/all')
        gen = comp.generators[0]
        for st2, it in self.ev(gen.iter, st, exits):
            r = self.iter_seq(it, st2)
            if isinstance(it.ty, TTuple):
                # small literal: expand
                vals = []
                items = [V(t, it.ty.get(it.t, i)) for i, t in enumerate(it.ty.elems)]
                cur = z3.BoolVal(which == 'all')
                terms = []
                for x in items:
                    sub = st2.copy()
                    list(self.assign(gen.target, x, sub, exits))
                    conds = [self.truthy(self.ev1q(c, sub)) for c in gen.ifs]
                    body = self.truthy(self.ev1q(comp.elt, sub))
                    st2.pc[:] = sub.pc
                    if which == 'all':
                        terms.append(z3.Implies(z3.And(conds), body) if conds else body)
                    else:
                        terms.append(z3.And(conds + [body]))
                yield st2, V(BOOL, (z3.And(terms) if which == 'all' else z3.Or(terms)) if terms else cur)
                continue
            if r is None:
                raise Unsupported(f'any/all over {it.ty}')
            n, g = r
            if it.ty is RANGE:
                # quantify over the range itself (no index shifting: keeps instantiation terms recognisable)
                lo_, hi_ = it.t
                k = z3.Int(fresh_name('q'))
                sub = st2.copy()
                rng = z3.And(k >= lo_, k < hi_)
                sub.assume(rng)
                base = len(sub.pc)
                list(self.assign(gen.target, V(INT, k), sub, exits))
                self.binder_depth += 1
                try:
                    conds = [self.truthy(self.ev1q(c, sub)) for c in gen.ifs]
                    body = self.truthy(self.ev1q(comp.elt, sub))
                finally:
                    self.binder_depth -= 1
                extra = sub.pc[base:]
                if extra:
                    st2.assume(z3.ForAll([k], z3.Implies(rng, z3.And(extra))))
                if which == 'all':
                    yield st2, V(BOOL, z3.ForAll([k], z3.Implies(z3.And([rng] + conds), body)))
                else:
                    yield st2, V(BOOL, z3.Exists([k], z3.And([rng] + conds + [body])))
                continue
            nn = z3.simplify(n)
            if z3.is_int_value(nn) and nn.as_long() == 0:
                yield st2, mk_bool(which == 'all')
                continue
            k = z3.Int(fresh_name('q'))
            sub = st2.copy()
            sub.assume(z3.And(k >= 0, k < n))
            base = len(sub.pc)
            list(self.assign(gen.target, g(k), sub, exits))
            self.binder_depth += 1
            try:
                conds = [self.truthy(self.ev1q(c, sub)) for c in gen.ifs]
                body = self.truthy(self.ev1q(comp.elt, sub))
            finally:
                self.binder_depth -= 1
            extra = sub.pc[base:]
            # facts produced while evaluating the body (postconditions of pure callees at the bound variable)
            # hold for every value in range: they are assumed universally
            rng = z3.And(k >= 0, k < n)
            if extra:
                st2.assume(z3.ForAll([k], z3.Implies(rng, z3.And(extra))))
            if which == 'all':
                q = z3.ForAll([k], z3.Implies(z3.And([rng] + conds), body))
            else:
                q = z3.Exists([k], z3.And([rng] + conds + [body]))
            yield st2, V(BOOL, q)

    def alloc_comprehension(self, e, gen, g, n, k, rng, sub, st):
        """[C(x) for x in xs] where C is a sequence-like class without __init__ (a deque subclass):
        a sequence of fresh, pairwise distinct objects whose items are copies of the arguments"""
        elt = e.elt
        if gen.ifs or not (isinstance(elt, ast.Call) and isinstance(elt.func, ast.Name) and len(elt.args) == 1
                           and not elt.keywords):
            return None
        try:
            cv = self.lookup(elt.func.id, st)
        except Unsupported:
            return None
        if cv.ty is not CLS or isinstance(cv.t, tuple):
            return None
        ci = cv.t
        sh = self.reg.shapes.get(ci.name)
        if sh is None or '__items__' not in sh.fields:
            return None
        if self.src.lookup_method(ci, '__init__')[1] is not None:
            return None
        ity = parse_type(sh.fields['__items__'], self.reg.enums)
        arg = self.ev1q(elt.args[0], sub)
        src = self.seq_of(arg, sub)
        if sub.pc[len(st.pc) + 1:]:
            raise Unsupported('allocating comprehension: argument introduces facts')
        rty = TRef(ci.name)
        out = fresh(TSeq(rty), 'newobjs')
        alloc = st.ghost.get('$alloc')
        if alloc is None:
            alloc = V(TSet(rty), z3.Const('alloc0', z3.ArraySort(RefSort(), z3.BoolSort())))
        j = z3.Int(fresh_name('j'))
        st.assume(z3.Length(out.t) == n)
        st.assume(z3.ForAll([k], z3.Implies(rng, z3.And(z3.Not(z3.Select(alloc.t, out.t[k])), out.t[k] != null(),
                                                       self.typeof(out.t[k]) == self.cls_code(ci.name))),
                            patterns=[out.t[k]]))
        st.assume(z3.ForAll([k, j], z3.Implies(z3.And(rng, j >= 0, j < n, j != k), out.t[k] != out.t[j]),
                            patterns=[z3.MultiPattern(out.t[k], out.t[j])]))
        old = self.heap_arr(st, '__items__', ity)
        new = z3.Const(fresh_name('H___items__'), old.sort())
        r = z3.Const(fresh_name('r'), RefSort())
        st.assume(z3.ForAll([k], z3.Implies(rng, z3.Select(new, out.t[k]) == self.coerce(src, ity).t),
                            patterns=[out.t[k]]))
        st.assume(z3.ForAll([r], z3.Implies(z3.Select(alloc.t, r), z3.Select(new, r) == z3.Select(old, r)),
                            patterns=[z3.Select(new, r)]))
        st.heap['__items__'] = new
        na = z3.Const(fresh_name('alloc'), alloc.t.sort())
        st.assume(z3.ForAll([r], z3.Implies(z3.Select(alloc.t, r), z3.Select(na, r)), patterns=[z3.Select(na, r)]))
        st.assume(z3.ForAll([k], z3.Implies(rng, z3.Select(na, out.t[k])), patterns=[out.t[k]]))
        st.ghost['$alloc'] = V(alloc.ty, na)
        return out

    def ev1q(self, e, st):
        code = not self.spec_mode          # the body of a comprehension of the verified code (not of a contract clause)
        self.spec_mode += 1
        if code:
            self.code_quant += 1
        try:
            return self.ev1(e, st)
        finally:
            self.spec_mode -= 1
            if code:
                self.code_quant -= 1

    def e_GeneratorExp(self, e, st, exits):
        yield from self.e_ListComp(e, st, exits)

    def e_ListComp(self, e, st, exits):
        if len(e.generators) != 1:
            raise Unsupported('nested comprehension')
        gen = e.generators[0]
        for st2, it in self.ev(gen.iter, st, exits):
            if isinstance(it.ty, TTuple):
                it = self.seq_of(it, st2)
            r = self.iter_seq(it, st2)
            if r is None:
                raise Unsupported(f'comprehension over {it.ty}')
            n, g = r
            nn = z3.simplify(n)
            if z3.is_int_value(nn) and nn.as_long() <= 6 and not gen.ifs:
                # literal length: evaluate element-wise (exceptions inside are honoured)
                def go(i, st0, acc):
                    if i == nn.as_long():
                        if not acc:
                            yield st0, V(TSeq(NONE), 'empty')
                        else:
                            ety = acc[0].ty
                            us = [z3.Unit(self.coerce(a, ety).t) for a in acc]
                            yield st0, V(TSeq(ety), z3.Concat(*us) if len(us) > 1 else us[0])
                        return
                    saved = dict(st0.env)
                    for st1 in self.assign(gen.target, g(z3.IntVal(i)), st0, exits):
                        for st2_, v in self.ev(e.elt, st1, exits):
                            st2_.env = dict(saved)
                            yield from go(i + 1, st2_, acc + [v])
                yield from go(0, st2, [])
                continue
            k = z3.Int(fresh_name('c'))
            sub = st2.copy()
            rng = z3.And(k >= 0, k < n)
            sub.assume(rng)
            base = len(sub.pc)
            list(self.assign(gen.target, g(k), sub, exits))
            sub_exits = []
            alloc = self.alloc_comprehension(e, gen, g, n, k, rng, sub, st2)
            if alloc is not None:
                yield st2, alloc
                continue
            self.binder_depth += 1
            try:
                res = list(self.ev(e.elt, sub, sub_exits))
            finally:
                self.binder_depth -= 1
            if sub_exits and not self.spec_mode:
                # an element computation that may raise: the exception escapes the comprehension
                for o in sub_exits:
                    o.st.env = dict(st2.env)
                    exits.append(o)
            if len(res) != 1:
                raise Unsupported('comprehension element forks')
            rst, elt = res[0]
            if not _same_heap(rst, st2):
                raise Unsupported('comprehension element with heap effect')
            extra = rst.pc[base:]
            if isinstance(elt.ty, TPy) or elt.ty is NONE:
                raise Unsupported(f'comprehension of {elt.ty}')
            sty = TSeq(elt.ty)
            out = fresh(sty, 'comp')
            if not gen.ifs:
                st2.assume(z3.Length(out.t) == n)
                body = out.t[k] == elt.t
                if extra:
                    body = z3.And([body] + extra)
                pats = [out.t[k]]
                try:
                    src_t = g(k).t
                    if z3.is_app(src_t) and src_t.num_args() > 0 and not isinstance(g(k).ty, TPy):
                        pats.append(src_t)        # alternative trigger: the source element
                except Exception:
                    pass
                st2.assume(z3.ForAll([k], z3.Implies(rng, body), patterns=pats))
            else:
                conds = [self.truthy(self.ev1q(c, sub)) for c in gen.ifs]
                j = z3.Int(fresh_name('j'))
                wit = z3.Function(fresh_name('wit'), z3.IntSort(), z3.IntSort())
                pos = z3.Function(fresh_name('pos'), z3.IntSort(), z3.IntSort())
                m = z3.Length(out.t)
                st2.assume(m <= n)
                # (a) every output element comes from a source element that passes the filter, order preserving
                sub_elt = lambda kk: z3.substitute(elt.t, (k, kk))            # noqa
                sub_cnd = lambda kk: z3.substitute(z3.And(conds), (k, kk))    # noqa
                st2.assume(z3.ForAll([j], z3.Implies(z3.And(j >= 0, j < m),
                           z3.And(wit(j) >= 0, wit(j) < n, sub_cnd(wit(j)), out.t[j] == sub_elt(wit(j)),
                                  pos(wit(j)) == j)), patterns=[out.t[j]]))
                st2.assume(z3.ForAll([j], z3.Implies(z3.And(j > 0, j < m), wit(j - 1) < wit(j)), patterns=[wit(j)]))
                # (b) every passing source element occurs
                st2.assume(z3.ForAll([k], z3.Implies(z3.And(rng, z3.And(conds)),
                           z3.And(pos(k) >= 0, pos(k) < m, wit(pos(k)) == k)), patterns=[pos(k)]))
                if extra:
                    raise Unsupported('filtered comprehension element introduces facts')
            yield st2, out


def _is_recursive(sf):
    for n in ast.walk(sf.node):
        if isinstance(n, ast.Call) and isinstance(n.func, ast.Name) and n.func.id == sf.name:
            return True
    return False
