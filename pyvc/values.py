"""Symbolic values, states, outcomes, obligations."""
from __future__ import annotations
import itertools
import z3
from .types import *  # noqa

_fresh = itertools.count()


def fresh_name(base):
    return f'{base}!{next(_fresh)}'


class V:
    """A symbolic value: type + z3 term (or Python payload for TPy types)."""
    __slots__ = ('ty', 't')

    def __init__(self, ty, t):
        self.ty = ty
        self.t = t

    def __repr__(self):
        return f'<{self.ty}: {self.t}>'


NONE_V = V(NONE, None)


def mk_int(i):
    return V(INT, z3.IntVal(i))


def mk_bool(b):
    return V(BOOL, z3.BoolVal(b))


def mk_str(s):
    return V(STR, z3.StringVal(s))


def fresh(ty, base='v'):
    return V(ty, z3.Const(fresh_name(base), ty.sort()))


class Closure:
    """nested def / lambda with its defining environment"""

    def __init__(self, node, env, owner):
        self.node = node
        self.env = env
        self.owner = owner        # FuncCtx it was defined in


class FuncRef:
    """A function of the repository (module-level function or method)."""

    def __init__(self, relpath, qualname, node, cls=None):
        self.relpath = relpath
        self.qualname = qualname
        self.node = node
        self.cls = cls


class Bound:
    def __init__(self, recv, name, func=None, cls=None, is_super=False):
        self.recv = recv          # V
        self.name = name
        self.func = func          # FuncRef or None (builtin method)
        self.cls = cls
        self.is_super = is_super


class ExtRef:
    """dotted external callable, e.g. 'zlib.decompress'"""

    def __init__(self, dotted):
        self.dotted = dotted


class State:
    __slots__ = ('pc', 'env', 'heap', 'ghost', 'old', 'depth', 'notes')

    def __init__(self):
        self.pc = []              # list of z3 Bool
        self.env = {}             # name -> V   (current frame)
        self.heap = {}            # field -> z3 array term
        self.ghost = {}           # ghost name -> V
        self.old = None           # snapshot State for old(...)
        self.depth = 0
        self.notes = []

    def copy(self):
        s = State()
        s.pc = list(self.pc)
        s.env = dict(self.env)
        s.heap = dict(self.heap)
        s.ghost = dict(self.ghost)
        s.old = self.old
        s.depth = self.depth
        s.notes = self.notes
        return s

    def assume(self, b):
        if z3.is_true(b):
            return self
        self.pc.append(b)
        return self

    def snapshot(self):
        s = State()
        s.pc = []
        s.env = dict(self.env)
        s.heap = dict(self.heap)
        s.ghost = dict(self.ghost)
        return s


class Outcome:
    """kind: 'normal' | 'break' | 'continue' | 'return' | 'raise' """
    __slots__ = ('kind', 'st', 'val', 'line', 'why')

    def __init__(self, kind, st, val=None, line=0, why=''):
        self.kind = kind
        self.st = st
        self.val = val
        self.line = line
        self.why = why


class Obligation:
    def __init__(self, name, kind, hyps, goal, line=0, inputs=None, detail='', func=''):
        self.name = name
        self.kind = kind
        self.hyps = list(hyps)
        self.goal = goal
        self.line = line
        self.inputs = inputs or {}    # name -> z3 term to evaluate in a counter-model
        self.detail = detail
        self.func = func
