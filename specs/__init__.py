def opaque(f):
    """marks a spec function that the solver sees as uninterpreted (native body used for replay only)"""
    return f
