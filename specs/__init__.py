def opaque(f):
    """marks a spec function that the solver sees as uninterpreted (native body used for replay only)"""
    return f


def reads(*fields):
    """heap fields a (recursive) spec function depends on: they become implicit parameters of its SMT definition"""
    def deco(f):
        f.__reads__ = fields
        return f
    return deco
