"""C17 spec functions: Sphinx inventory line syntax (A.4 of DESIGN.md).

Spec functions are plain Python in the verified subset: the same text is translated to SMT
(recursive definitions) and executed natively for replay / bounded evaluation."""
from specs import opaque, reads
try:                                   # native side only (real classes for isinstance)
    from pydoctor.model import Module, Class, Function, Attribute, DocumentableKind
except Exception:                      # the VC generator never imports pydoctor
    pass


@opaque
def is_int_literal(s: 'Str') -> 'Bool':
    try:
        int(s)
        return True
    except ValueError:
        return False


@opaque
def int_of(s: 'Str') -> 'Int':
    return int(s)


def first_int(parts: 'Seq[Str]', k: 'Int') -> 'Int':
    """least index >= k whose token is an integer literal; len(parts) when there is none"""
    if k >= len(parts):
        return len(parts)
    if is_int_literal(parts[k]):
        return k
    return first_int(parts, k + 1)


def p_idx(line: 'Str') -> 'Int':
    return first_int(line.split(' '), 2)


def parse_ok(line: 'Str') -> 'Bool':
    """the line has a priority column (first integer token at index >= 2), a location column
    after it and a non-empty display name after that"""
    parts = line.split(' ')
    p = first_int(parts, 2)
    return p + 1 < len(parts) and ' '.join(parts[p + 2:]) != ''


def p_name(line: 'Str') -> 'Str':
    parts = line.split(' ')
    return ' '.join(parts[:first_int(parts, 2) - 1])


def p_type(line: 'Str') -> 'Str':
    parts = line.split(' ')
    return parts[first_int(parts, 2) - 1]


def p_prio(line: 'Str') -> 'Int':
    parts = line.split(' ')
    return int_of(parts[first_int(parts, 2)])


def p_loc(line: 'Str') -> 'Str':
    parts = line.split(' ')
    return parts[first_int(parts, 2) + 1]


def p_disp(line: 'Str') -> 'Str':
    parts = line.split(' ')
    return ' '.join(parts[first_int(parts, 2) + 2:])


def usable(line: 'Str') -> 'Bool':
    """a line pydoctor's reader must keep: well-formed and in the Python domain"""
    return parse_ok(line) and p_type(line).startswith('py:')


def n_bad(lines: 'Seq[Str]', k: 'Int') -> 'Int':
    """number of malformed lines among lines[:k]"""
    if k <= 0:
        return 0
    return n_bad(lines, k - 1) + (0 if parse_ok(lines[k - 1]) else 1)


# ---- writer -------------------------------------------------------------------------------------------

def inv_dom(o: 'Ref[Documentable]') -> 'Str':
    """Sphinx object type by documented class (statement: 'mapping its qualified name to the page ...')"""
    if isinstance(o, Module):
        return 'module'
    if isinstance(o, Class):
        return 'class'
    if isinstance(o, Function):
        return 'function' if o.kind is DocumentableKind.FUNCTION else 'method'
    if isinstance(o, Attribute):
        return 'attribute'
    return 'obj'


def inv_line(o: 'Ref[Documentable]') -> 'Str':
    return o.fullName() + ' py:' + inv_dom(o) + ' -1 ' + o.url + ' -\n'


@reads('contents', 'name', 'parent', 'kind')
def inv_upto(objs: 'Seq[Ref[Documentable]]', k: 'Int') -> 'Bytes':
    """inventory text for objs[:k]: pre-order, exactly one line per visible object, nothing below a hidden one"""
    if k <= 0:
        return b''
    o = objs[k - 1]
    if not o.isVisible:
        return inv_upto(objs, k - 1)
    return inv_upto(objs, k - 1) + inv_line(o).encode('utf-8') + inv_upto(list(o.contents.values()), len(o.contents))
