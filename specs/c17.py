"""C17 spec functions: Sphinx inventory line syntax (A.4 of DESIGN.md)."""
import re
from specs import opaque

_INT = re.compile(r'\s*[+-]?[0-9]+(_[0-9]+)*\s*\Z')


@opaque
def is_int_literal(s: 'Str') -> 'Bool':
    try:
        int(s)
        return True
    except ValueError:
        return False


@opaque
def int_of(s: 'Str') -> 'Int':
    return int(s)


def first_int(parts: 'Seq[Str]', k: 'Int') -> 'Int':
    """least index >= k whose token is an integer literal; len(parts) when there is none"""
    if k >= len(parts):
        return len(parts)
    if is_int_literal(parts[k]):
        return k
    return first_int(parts, k + 1)
