"""C19 spec functions: the documented walk (visitor.py docstrings, `When`).

Events: (0, none_of('Obj[Ext]'), n) main visit | (1, e, n) extension e visits n | (2, none_of('Obj[Ext]'), n) main depart | (3, e, n) e departs n.
act(n): what the main visitor's visit_X(n) does: 0 returns, 1 SkipChildren, 2 SkipSiblings, 3 SkipNode, 4 SkipDeparture."""
from specs import opaque, reads


def none_of(ty):
    return None


@opaque
def act(n: 'Obj[Node]') -> 'Int':
    return _ACT(n)


@opaque
def children_of(n: 'Obj[Node]') -> 'Seq[Obj[Node]]':
    return list(_CHILDREN(n))


def ev_seq(code: 'Int', exts: 'Seq[Obj[Ext]]', n: 'Obj[Node]', k: 'Int') -> 'Seq[Tuple[Int,Opt[Obj[Ext]],Obj[Node]]]':
    """events of the first k extensions of `exts` on node n, in list order"""
    if k <= 0:
        return []
    return ev_seq(code, exts, n, k - 1) + [(code, exts[k - 1], n)]


@reads('extensions', '_visitors')
def open_spec(v: 'Ref[Visitor]', n: 'Obj[Node]') -> 'Seq[Tuple[Int,Opt[Obj[Ext]],Obj[Node]]]':
    """BEFORE and OUTTER extensions, the main visitor, AFTER and INNER extensions"""
    a = v.extensions.before_visit + v.extensions.outter_visit
    b = v.extensions.after_visit + v.extensions.inner_visit
    return ev_seq(1, a, n, len(a)) + [(0, none_of('Obj[Ext]'), n)] + ev_seq(1, b, n, len(b))


@reads('extensions', '_visitors')
def close_spec(v: 'Ref[Visitor]', n: 'Obj[Node]', main: 'Bool') -> 'Seq[Tuple[Int,Opt[Obj[Ext]],Obj[Node]]]':
    """BEFORE and INNER extensions depart, the main visitor departs (unless skipped), AFTER and OUTTER depart"""
    a = v.extensions.before_visit + v.extensions.inner_visit
    b = v.extensions.after_visit + v.extensions.outter_visit
    if main:
        return ev_seq(3, a, n, len(a)) + [(2, none_of('Obj[Ext]'), n)] + ev_seq(3, b, n, len(b))
    return ev_seq(3, a, n, len(a)) + ev_seq(3, b, n, len(b))


@reads('extensions', '_visitors')
def w_spec(v: 'Ref[Visitor]', n: 'Obj[Node]') -> 'Seq[Tuple[Int,Opt[Obj[Ext]],Obj[Node]]]':
    """W(n) = Open(n) ++ Body(n) ++ Close(n): SkipNode/SkipChildren have no body; SkipNode/SkipDeparture
    have no main depart; extensions always depart"""
    if act(n) == 3 or act(n) == 1:
        return open_spec(v, n) + close_spec(v, n, act(n) != 3 and act(n) != 4)
    return open_spec(v, n) + rest_spec(v, children_of(n), 0) + close_spec(v, n, act(n) != 3 and act(n) != 4)


@reads('extensions', '_visitors')
def rest_spec(v: 'Ref[Visitor]', cs: 'Seq[Obj[Node]]', k: 'Int') -> 'Seq[Tuple[Int,Opt[Obj[Ext]],Obj[Node]]]':
    """children from index k on, stopping after the first that asks for SkipSiblings"""
    if k >= len(cs):
        return []
    if act(cs[k]) == 2:
        return w_spec(v, cs[k])
    return w_spec(v, cs[k]) + rest_spec(v, cs, k + 1)


def _ACT(n):
    return getattr(n, 'act', 0)


def _CHILDREN(n):
    return getattr(n, 'children', [])


@reads('extensions', '_visitors')
def walk_spec(v: 'Ref[Visitor]', n: 'Obj[Node]') -> 'Seq[Tuple[Int,Opt[Obj[Ext]],Obj[Node]]]':
    """walk(): visits only (no departures): Open(n), then the children unless SkipNode/SkipChildren"""
    if act(n) == 3 or act(n) == 1:
        return open_spec(v, n)
    return open_spec(v, n) + rest_walk(v, children_of(n), 0)


@reads('extensions', '_visitors')
def rest_walk(v: 'Ref[Visitor]', cs: 'Seq[Obj[Node]]', k: 'Int') -> 'Seq[Tuple[Int,Opt[Obj[Ext]],Obj[Node]]]':
    if k >= len(cs):
        return []
    if act(cs[k]) == 2:
        return walk_spec(v, cs[k])
    return walk_spec(v, cs[k]) + rest_walk(v, cs, k + 1)
