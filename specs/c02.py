"""C02 / C07 spec functions: qualified names and the registry."""
from specs import opaque, reads


@reads('name', 'parent')
def fn_spec(o: 'Ref[Documentable]') -> 'Str':
    """the qualified name: the names on the parent chain, root first, joined by dots"""
    if o.parent is None:
        return o.name
    return fn_spec(o.parent) + '.' + o.name


@opaque
def depth(o: 'Ref[Documentable]') -> 'Int':
    """ghost rank that makes the parent relation well-founded (the object model is a tree)"""
    d = 0
    while o.parent is not None:
        o = o.parent
        d += 1
    return d


def under(k: 'Str', root: 'Str') -> 'Bool':
    """k names root or something inside it"""
    return k == root or k.startswith(root + '.')


@reads('name', 'rootobjects')
def first_root(system: 'Ref[System]', head: 'Str', i: 'Int') -> 'Int':
    """index of the first root at or after i whose name is `head`; len(rootobjects) when there is none"""
    if i < 0 or i >= len(system.rootobjects):
        return len(system.rootobjects)
    if system.rootobjects[i].name == head:
        return i
    return first_root(system, head, i + 1)


def name_head(full_name: 'Str') -> 'Str':
    return full_name.split('.', 1)[0]


def name_rest(full_name: 'Str') -> 'Str':
    # (only used for names with a dot: a name without one that is not registered cannot start with the name of a root)
    return full_name.split('.', 1)[1]


@reads('name', 'parent', 'contents', '_localNameToFullName_map', 'allobjects', 'rootobjects')
def via_alias(system: 'Ref[System]', full_name: 'Str') -> 'RefN[Documentable]':
    """the registry entry of the name obtained by expanding the rest of the name in the (first) root named by its first part"""
    return system.allobjects.get(system.rootobjects[first_root(system, name_head(full_name), 0)].expandName(name_rest(full_name)))


@reads('name', 'parent', 'contents', '_localNameToFullName_map', 'allobjects', 'rootobjects')
def found(system: 'Ref[System]', full_name: 'Str') -> 'RefN[Documentable]':
    """what System.find_object returns for the name when it does not raise: the registry entry if there is one; nothing
    for a name whose first part is not one of our roots (external); otherwise what the alias left at the old location leads to"""
    if system.allobjects.get(full_name) is not None:
        return system.allobjects.get(full_name)
    if first_root(system, name_head(full_name), 0) >= len(system.rootobjects):
        return None
    return via_alias(system, full_name)


@reads('name', 'parent', 'contents', '_localNameToFullName_map', 'allobjects', 'rootobjects')
def lookup_fails(system: 'Ref[System]', full_name: 'Str') -> 'Bool':
    """System.find_object raises LookupError for the name: the root is one of ours, the rest is unknown"""
    return (system.allobjects.get(full_name) is None and first_root(system, name_head(full_name), 0) < len(system.rootobjects)
            and via_alias(system, full_name) is None)
