"""C02 / C07 spec functions: qualified names and the registry."""
from specs import opaque, reads


@reads('name', 'parent')
def fn_spec(o: 'Ref[Documentable]') -> 'Str':
    """the qualified name: the names on the parent chain, root first, joined by dots"""
    if o.parent is None:
        return o.name
    return fn_spec(o.parent) + '.' + o.name


@opaque
def depth(o: 'Ref[Documentable]') -> 'Int':
    """ghost rank that makes the parent relation well-founded (the object model is a tree)"""
    d = 0
    while o.parent is not None:
        o = o.parent
        d += 1
    return d


def under(k: 'Str', root: 'Str') -> 'Bool':
    """k names root or something inside it"""
    return k == root or k.startswith(root + '.')


@opaque
@reads('name', 'parent', 'contents', '_localNameToFullName_map', 'allobjects', 'rootobjects')
def found(system: 'Ref[System]', full_name: 'Str') -> 'RefN[Documentable]':
    """what System.find_object returns for the name when it does not raise"""
    return system.find_object(full_name)


@opaque
@reads('name', 'parent', 'contents', '_localNameToFullName_map', 'allobjects', 'rootobjects')
def lookup_fails(system: 'Ref[System]', full_name: 'Str') -> 'Bool':
    """System.find_object raises LookupError for the name (the root is one of ours, the rest is unknown)"""
    try:
        system.find_object(full_name)
    except LookupError:
        return True
    return False
