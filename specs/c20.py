"""C20 spec functions: quoting rules of the config layer."""
from specs import opaque


@opaque
def literal_str(text: 'Str') -> 'Str':
    """ghost: the str value of a Python string literal (ast.literal_eval)"""
    import ast
    return ast.literal_eval(text)


def n_unknown(items: 'Seq[Tuple[Str,Obj[Val]]]', known: 'Map[Str,Obj[Action]]', k: 'Int') -> 'Int':
    """number of keys among items[:k] that are not config keys of the argument parser"""
    if k <= 0:
        return 0
    return n_unknown(items, known, k - 1) + (0 if items[k - 1][0] in known else 1)
