"""C13 spec functions: documented privacy rules (docs/source/customize.rst) and glob grammar (qnmatch docstring)."""
from specs import opaque
try:
    from pydoctor.model import PrivacyClass
except Exception:
    pass


def default_privacy(name: 'Str') -> 'Enum[PrivacyClass]':
    """'PRIVATE: by default for objects whose name starts with an underscore and are not a dunder'; PUBLIC otherwise"""
    if name.startswith('_') and not (name.startswith('__') and name.endswith('__')):
        return PrivacyClass.PRIVATE
    return PrivacyClass.PUBLIC


@opaque
def qn_spec(name: 'Str', pat: 'Str') -> 'Bool':
    """the documented glob: whole-name match; * = run without '.', ** = any run, ? = one char, [seq] / [!seq]"""
    return _match(_tokens(pat), name)


def last_exact(rules: 'Seq[Tuple[Enum[PrivacyClass],Str]]', full: 'Str', k: 'Int') -> 'Int':
    """greatest index < k of a rule whose pattern equals the qualified name; -1 if none"""
    if k <= 0:
        return -1
    if rules[k - 1][1] == full:
        return k - 1
    return last_exact(rules, full, k - 1)


def last_glob(rules: 'Seq[Tuple[Enum[PrivacyClass],Str]]', full: 'Str', k: 'Int') -> 'Int':
    """greatest index < k of a rule whose pattern matches the qualified name; -1 if none"""
    if k <= 0:
        return -1
    if qn_spec(full, rules[k - 1][1]):
        return k - 1
    return last_glob(rules, full, k - 1)


def priv_spec(full: 'Str', name: 'Str', kind_none: 'Bool', rules: 'Seq[Tuple[Enum[PrivacyClass],Str]]') -> 'Enum[PrivacyClass]':
    """a rule whose pattern equals the qualified name overrides any pattern rule; among rules of the same sort the one
    given last wins; otherwise the underscore default"""
    if kind_none:
        return PrivacyClass.HIDDEN
    if last_exact(rules, full, len(rules)) >= 0:
        return rules[last_exact(rules, full, len(rules))][0]
    if last_glob(rules, full, len(rules)) >= 0:
        return rules[last_glob(rules, full, len(rules))][0]
    return default_privacy(name)


@opaque
def name_of_full(full: 'Str') -> 'Str':
    """ghost: the short name of the (unique, by C02) registered object with that qualified name"""
    return _GHOST_NAMES.get(full, full.rsplit('.', 1)[-1])


@opaque
def kindnone_of_full(full: 'Str') -> 'Bool':
    return _GHOST_KINDNONE.get(full, False)


_GHOST_NAMES = {}
_GHOST_KINDNONE = {}


# ---- declarative matcher for the documented grammar (native only; the solver sees qn_spec as uninterpreted) --------
def _tokens(pat):
    """left to right; '**' before '*'; a class closes at the first ']' after an optional '!' and an optional
    leading ']'; an unclosed '[' is the literal '['"""
    toks = []
    i, n = 0, len(pat)
    while i < n:
        c = pat[i]
        if c == '*':
            if i + 1 < n and pat[i + 1] == '*':
                toks.append(('ANY',))
                i += 2
            else:
                toks.append(('SEG',))
                i += 1
        elif c == '?':
            toks.append(('ONE',))
            i += 1
        elif c == '[':
            j = i + 1
            if j < n and pat[j] == '!':
                j += 1
            if j < n and pat[j] == ']':
                j += 1
            while j < n and pat[j] != ']':
                j += 1
            if j >= n:
                toks.append(('LIT', '['))
                i += 1
            else:
                body = pat[i + 1:j]
                neg = body.startswith('!')
                if neg:
                    body = body[1:]
                toks.append(('SET', neg, body))
                i = j + 1
        else:
            toks.append(('LIT', c))
            i += 1
    return toks


def _match(toks, name):
    import functools

    @functools.lru_cache(maxsize=None)
    def go(ti, ni):
        if ti == len(toks):
            return ni == len(name)
        t = toks[ti]
        if t[0] == 'ANY':
            return any(go(ti + 1, k) for k in range(ni, len(name) + 1))
        if t[0] == 'SEG':
            k = ni
            while True:
                if go(ti + 1, k):
                    return True
                if k < len(name) and name[k] != '.':
                    k += 1
                else:
                    return False
        if ni >= len(name):
            return False
        ch = name[ni]
        if t[0] == 'ONE':
            return go(ti + 1, ni + 1)
        if t[0] == 'LIT':
            return ch == t[1] and go(ti + 1, ni + 1)
        if t[0] == 'SET':
            return ((ch in t[2]) != t[1]) and go(ti + 1, ni + 1)
        return False
    return go(0, 0)


# ---- translation table of qnmatch.translate (token -> regex fragment) -----------------------------------------------
@opaque
def re_escape(c: 'Str') -> 'Str':
    import re
    return re.escape(c)


def cls_start(pat: 'Str', i: 'Int') -> 'Int':
    """first position at which a closing ']' counts: after an optional '!' and an optional leading ']'"""
    j = i
    if j < len(pat) and pat[j] == '!':
        j = j + 1
    if j < len(pat) and pat[j] == ']':
        j = j + 1
    return j


def cls_end(pat: 'Str', j: 'Int') -> 'Int':
    """least index >= j holding ']' ; len(pat) if the class is never closed"""
    if j >= len(pat):
        return len(pat)
    if pat[j] == ']':
        return j
    return cls_end(pat, j + 1)


def cls_body(stuff: 'Str') -> 'Str':
    rep = stuff.replace('\\', '\\\\')
    if rep[0] == '!':
        return '^' + rep[1:]
    if rep[0] == '^' or rep[0] == '[':
        return '\\' + rep
    return rep


def tok_end(pat: 'Str', i: 'Int') -> 'Int':
    """index just after the token that starts at i (i < len(pat)): '**' before '*'; a class closes at the first
    ']' after an optional '!' and an optional leading ']'; an unclosed '[' is a one-character literal"""
    n = len(pat)
    c = pat[i]
    if c == '*':
        if i + 1 < n and pat[i + 1] == '*':
            return i + 2
        return i + 1
    if c == '[':
        j = cls_end(pat, cls_start(pat, i + 1))
        if j >= n:
            return i + 1
        return j + 1
    return i + 1


def tok_text(pat: 'Str', i: 'Int') -> 'Str':
    """regex fragment emitted for the token that starts at i"""
    n = len(pat)
    c = pat[i]
    if c == '*':
        if i + 1 < n and pat[i + 1] == '*':
            return '.*?'
        return '[^\\.]*?'
    if c == '?':
        return '.'
    if c == '[':
        j = cls_end(pat, cls_start(pat, i + 1))
        if j >= n:
            return '\\['
        return '[' + cls_body(pat[i + 1:j]) + ']'
    return re_escape(c)


def tr(pat: 'Str', i: 'Int') -> 'Str':
    """regex text for pat[i:]: the fragments of its tokens, left to right"""
    if i >= len(pat):
        return ''
    return tok_text(pat, i) + tr(pat, tok_end(pat, i))


# ---- visibility (docs: 'If a module/package/class is hidden, then all its members are hidden as well') -----------
from specs import reads   # noqa: E402


@reads('parent', 'name', 'kind', 'system', 'options', 'privacy')
def visible_spec(o: 'Ref[Documentable]') -> 'Bool':
    if priv_spec(o.fullName(), o.name, o.kind is None, o.system.options.privacy) == PrivacyClass.HIDDEN:
        return False
    if o.parent is None:
        return True
    return visible_spec(o.parent)
