"""C05 spec functions: C3 linearisation ("The Python 2.3 Method Resolution Order")."""
from specs import opaque, reads


@reads('__items__')
def items(d: 'Ref[Dependency]') -> 'Seq[Obj[Cls]]':
    return list(d)


# ---- C3 merge (transcribed from the C3 definition) -----------------------------------------------------------
def in_tails(ls: 'Seq[Seq[Obj[Cls]]]', h: 'Obj[Cls]') -> 'Bool':
    return any(h in l[1:] for l in ls)


def good(ls: 'Seq[Seq[Obj[Cls]]]', j: 'Int') -> 'Bool':
    """the head of list j occurs in no tail"""
    return len(ls[j]) > 0 and not in_tails(ls, ls[j][0])


def first_good(ls: 'Seq[Seq[Obj[Cls]]]', k: 'Int') -> 'Int':
    """least index >= k whose head is good; len(ls) if none"""
    if k >= len(ls):
        return len(ls)
    if good(ls, k):
        return k
    return first_good(ls, k + 1)


@opaque
def drop(ls: 'Seq[Seq[Obj[Cls]]]', h: 'Obj[Cls]') -> 'Seq[Seq[Obj[Cls]]]':
    """remove h wherever it is a head (characterised by axiom drop_def)"""
    return [l[1:] if len(l) > 0 and l[0] == h else l for l in ls]


def all_empty(ls: 'Seq[Seq[Obj[Cls]]]') -> 'Bool':
    return all(len(l) == 0 for l in ls)


def c3_merge(ls: 'Seq[Seq[Obj[Cls]]]') -> 'Opt[Seq[Obj[Cls]]]':
    """None = the hierarchy is inconsistent (Python raises TypeError)"""
    if all_empty(ls):
        return []
    j = first_good(ls, 0)
    if j >= len(ls):
        return None
    rest = c3_merge(drop(ls, ls[j][0]))
    if rest is None:
        return None
    return [ls[j][0]] + rest


def pre(r: 'Seq[Obj[Cls]]', m: 'Opt[Seq[Obj[Cls]]]') -> 'Opt[Seq[Obj[Cls]]]':
    """prefix a pending result"""
    if m is None:
        return None
    return r + m


@opaque
@reads('_lists', '__items__')
def view(d: 'Ref[DependencyList]') -> 'Seq[Seq[Obj[Cls]]]':
    """abstract value of a DependencyList (characterised by axiom view_def)"""
    return [list(x) for x in d._lists]


# ---- C3 linearisation of a class over the pure base function ----------------------------------------------
@opaque
def bases_of(c: 'Obj[Cls]') -> 'Seq[Obj[Cls]]':
    return list(_BASES(c))


@opaque
def c3(c: 'Obj[Cls]') -> 'Opt[Seq[Obj[Cls]]]':
    """characterised by axiom c3_def (the C3 definition)"""
    bs = bases_of(c)
    if not bs:
        return [c]
    subs = [c3(b) for b in bs]
    if any(s is None for s in subs):
        return None
    return pre([c], c3_merge(subs + [bs]))


def _BASES(c):
    return c.__bases__


# ---- lookups along the linearisation ---------------------------------------------------------------------------------
@opaque
@reads('_mro')
def lin(c: 'Ref[Class]') -> 'Seq[Ref[Class]]':
    """the documented classes of the stored linearisation of c, c first"""
    return c.mro()


def as_class(o: 'Ref[Documentable]') -> 'Ref[Class]':
    return o


@reads('contents')
def picks(classes: 'Seq[Ref[Class]]', name: 'Str') -> 'Seq[Ref[Documentable]]':
    """the members called `name` of the given classes, in the order of the classes"""
    if len(classes) == 0:
        return []
    if name in classes[0].contents:
        return [classes[0].contents[name]] + picks(classes[1:], name)
    return picks(classes[1:], name)
