"""C04 spec functions: what an import statement binds (Python language reference, "The import system" / PEP 328)."""
from specs import opaque, reads


@reads('parent')
def anc(o: 'RefN[Documentable]', n: 'Int') -> 'RefN[Documentable]':
    """the n-th container above o (None when the tree ends first): one package up per leading dot after the first"""
    if n <= 0:
        return o
    if o is None:
        return None
    return anc(o.parent, n - 1)


def cast_mod(o: 'Ref[Documentable]') -> 'Ref[Module]':
    """the same object seen as a module (used under isinstance(o, Module))"""
    return o


def first_part(dotted: 'Str') -> 'Str':
    """the top-level package of a dotted module name: `import a.b.c` binds the name a"""
    return dotted.split('.')[0]


@opaque
@reads('contents', '_localNameToFullName_map', 'parent', 'name')
def enclosing_answer(scope: 'Ref[Documentable]', name: 'Str') -> 'Str':
    """what the enclosing scope answers for the name (its own _localNameToFullName)"""
    return scope._localNameToFullName(name)


def cast_name(o: 'Ref[expr]') -> 'Ref[Name]':
    """the same node seen as an ast.Name (used under isinstance(o, Name))"""
    return o


def cast_compare(o: 'Ref[expr]') -> 'Ref[Compare]':
    """the same node seen as an ast.Compare (used under isinstance(o, Compare))"""
    return o
