"""C01 spec functions."""
from specs import opaque, reads


def cast_module(o: 'Ref[Documentable]') -> 'Ref[Module]':
    """the same object seen as a module (only used under isinstance(o, Module))"""
    return o


def cast_overload(o: 'Ref[FunctionOrOverload]') -> 'Ref[FunctionOverload]':
    return o


def cast_function(o: 'Ref[FunctionOrOverload]') -> 'Ref[Function]':
    return o
