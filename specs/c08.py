"""C08 spec functions."""
from specs import opaque, reads


@reads('__items__')
def items(l: 'Ref[ErrList]') -> 'Seq[Ref[ParseError]]':
    """the elements of an error list (a Python list handed to parsers, which append to it)"""
    return list(l)


@opaque
def has_get_parser(m: 'Obj[PyModule]') -> 'Bool':
    """the module object defines a function get_parser (true of the five parser modules, of nothing else in the package)"""
    return hasattr(m, 'get_parser')


@opaque
def plain_stan(text: 'Str') -> 'Obj[Tag]':
    """the plain-text rendering of a text: <p class="pre">text</p>, every character of it, markup never interpreted"""
    from twisted.web.template import tags
    return tags.p(text, class_='pre')


@opaque
def fragile_node(d: 'Ref[ParsedDocstring]') -> 'Bool':
    """to_node() of this parsed docstring raises something other than the documented NotImplementedError"""
    try:
        d.to_node()
    except NotImplementedError:
        return False
    except Exception:
        return True
    return False
