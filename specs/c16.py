"""C16 spec functions: reported line arithmetic and exit status (statement of C16)."""
from specs import opaque


@opaque
def str_isspace(c: 'Str') -> 'Bool':
    return c.isspace()


def ws_nl(doc: 'Str', k: 'Int') -> 'Int':
    """number of newlines in the maximal whitespace run of doc starting at k (the lines cleandoc strips)"""
    if k >= len(doc):
        return 0
    if doc[k] == '\n':
        return 1 + ws_nl(doc, k + 1)
    if str_isspace(doc[k]):
        return ws_nl(doc, k + 1)
    return 0


def base_line(docstring_lineno: 'Int', linenumber: 'Int', section: 'Str') -> 'Int':
    """problems in docstrings are located relative to the docstring, everything else relative to the definition"""
    if section == 'docstring' or section == 'resolve_identifier_xref':
        return docstring_lineno if docstring_lineno != 0 else linenumber
    return linenumber


def exit_status_spec(violations: 'Int', docstring_errors: 'Bool', any_errors: 'Bool', werror: 'Bool') -> 'Int':
    """with --warnings-as-errors status 3 exactly when at least one problem was reported; otherwise 2 exactly when
    something could not be parsed, 0 otherwise"""
    if violations > 0 and werror:
        return 3
    if docstring_errors or any_errors:
        return 2
    return 0
