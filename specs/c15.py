"""C15 spec functions: when parentheses are required (Python language reference, 6.17 Operator precedence)."""
from specs import opaque


def lang_level(op: 'Enum[OpKind]') -> 'Int':
    """binding strength by the language reference, weakest first:
    or < and < not < (comparisons) < | < ^ < & < shifts < + - < * @ / // % < unary + - ~ < **"""
    if op == OpKind.Or:
        return 1
    if op == OpKind.And:
        return 2
    if op == OpKind.Not:
        return 3
    if op == OpKind.BitOr:
        return 5
    if op == OpKind.BitXor:
        return 6
    if op == OpKind.BitAnd:
        return 7
    if op == OpKind.LShift or op == OpKind.RShift:
        return 8
    if op == OpKind.Add or op == OpKind.Sub:
        return 9
    if op == OpKind.Mult or op == OpKind.Div or op == OpKind.Mod or op == OpKind.FloorDiv or op == OpKind.MatMult:
        return 10
    if op == OpKind.UAdd or op == OpKind.USub or op == OpKind.Invert:
        return 11
    return 12


def needs_parens(c: 'Enum[OpKind]', p: 'Enum[OpKind]', parent_is_binop: 'Bool', parent_is_boolop: 'Bool',
                 is_right: 'Bool') -> 'Bool':
    """an operator expression with operator c, operand of an operator expression with operator p, must be
    parenthesised to read back as the same tree"""
    if parent_is_binop:
        if p == OpKind.Pow:
            # ** binds tighter than a unary operator on its left and looser on its right: (-a)**b, a**-b
            if is_right:
                return lang_level(c) < 11
            return lang_level(c) <= 12
        if is_right:
            return lang_level(c) <= lang_level(p)      # left-associative: a-(b-c)
        return lang_level(c) < lang_level(p)
    if parent_is_boolop:
        return lang_level(c) <= lang_level(p)          # 'a and (b and c)' keeps its tree
    return lang_level(c) < lang_level(p)               # unary parent: -(a+b), not (a or b)


@opaque
def astor_prec(op: 'Enum[OpKind]') -> 'Int':
    import ast
    import astor.op_util
    return astor.op_util.get_op_precedence(getattr(ast, op.__name__ if hasattr(op, '__name__') else type(op).__name__)())


@opaque
def parents_of(n: 'Ref[expr]') -> 'Seq[Ref[AST]]':
    out = []
    p = getattr(n, 'parent', None)
    while p is not None:
        out.append(p)
        p = getattr(p, 'parent', None)
    return out
