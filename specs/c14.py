"""C14 spec functions: the parameter list of a function definition (language reference, 8.7 Function definitions)."""
from specs import opaque


@opaque
def p_name(p: 'Obj[Param]') -> 'Str':
    return p.name


@opaque
def p_kind(p: 'Obj[Param]') -> 'Obj[ParamKind]':
    return p.kind


@opaque
def p_default(p: 'Obj[Param]') -> 'RefN[_ValueFormatter]':
    return p.default


@opaque
def p_ann(p: 'Obj[Param]') -> 'RefN[_ValueFormatter]':
    return p.annotation


@opaque
def fmt_value(f: 'RefN[_ValueFormatter]') -> 'RefN[expr]':
    """ghost: the source expression a value formatter displays"""
    return getattr(f, '_verif_value', None)
