"""C12 / C11 spec functions."""
from specs import opaque, reads
try:
    from pydoctor.model import PrivacyClass, DocLocation
except Exception:
    pass


@opaque
def visible(o: 'Ref[Documentable]') -> 'Bool':
    """ghost name for Documentable.isVisible (verified against the documented rule under C13)"""
    return o.isVisible


@opaque
def privacy_of(o: 'Ref[Documentable]') -> 'Enum[PrivacyClass]':
    return o.privacyClass


@opaque
def path_name(p: 'Obj[Path]') -> 'Str':
    """ghost: the file name (relative to the output directory) a Path object denotes"""
    return p.name


@opaque
def unq(url: 'Str') -> 'Str':
    """the file name a (percent-encoded) relative URL leads to once decoded: urllib.parse.unquote"""
    import urllib.parse
    return urllib.parse.unquote(url)


@reads('contents', 'name', 'parent', 'kind', 'documentation_location', 'system')
def pages_of(objs: 'Seq[Ref[Documentable]]', k: 'Int') -> 'Seq[Str]':
    """file names of the pages written for objs[:k]: pre-order, one page per visible object that owns a page,
    nothing for (or below) a hidden object"""
    if k <= 0:
        return []
    o = objs[k - 1]
    if not o.isVisible:
        return pages_of(objs, k - 1)
    if o.documentation_location is DocLocation.OWN_PAGE:
        return pages_of(objs, k - 1) + [unq(o.url)] + pages_of(list(o.contents.values()), len(o.contents))
    return pages_of(objs, k - 1) + pages_of(list(o.contents.values()), len(o.contents))


@opaque
def url_quote(s: 'Str') -> 'Str':
    import urllib.parse
    return urllib.parse.quote(s)


@opaque
def single_root(s: 'Ref[System]') -> 'Opt[Str]':
    """ghost: the name of the only root object, None when there are several (or none)"""
    names = list(s.root_names)
    return names[0] if len(names) == 1 else None
