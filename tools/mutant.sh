#!/bin/sh
# tools/mutant.sh <patch.diff> <PID> [--tier ...] : run a check against a scratch copy of /repo with the patch applied.
# The scratch copy lives outside /repo and /verif and is removed afterwards; evidence goes to the scratch dir too.
set -e
PATCH=$(readlink -f "$1"); shift
PID=$1; shift
D=$(mktemp -d /var/tmp/pydoctor-verif.XXXXXX)
trap 'rm -rf "$D"' EXIT
mkdir -p "$D/repo" "$D/out"
cp -r /repo/pydoctor "$D/repo/pydoctor"
cp /repo/setup.cfg /repo/setup.py "$D/repo/" 2>/dev/null || true
(cd "$D/repo" && patch -p1 -s < "$PATCH")
set +e
VERIF_REPO="$D/repo" VERIF_OUT="$D/out" /verif/check "$PID" "$@"
rc=$?
if [ -n "$KEEP_REPLAY" ]; then cp -r "$D/out/replays" "$KEEP_REPLAY" 2>/dev/null; fi
echo "mutant exit=$rc"
exit $rc
