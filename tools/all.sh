#!/bin/sh
# tools/all.sh [quick|thorough] : every claimed check on the current /repo tree; prints one line per property (run before every commit)
cd "$(dirname "$0")/.."
tier=${1:-quick}
rc=0
for p in $(python3 -c "import json; print(' '.join(c['property_id'] for c in json.load(open('MANIFEST.json'))['checks']))"); do
  ./check $p --tier $tier > .work/all.$p.out 2>&1; e=$?
  [ $e -ne 0 ] && rc=1
  echo "$p exit=$e KF=$(grep -c '^KNOWN-FINDING' .work/all.$p.out) $(tail -1 .work/all.$p.out | cut -c1-170)"
done
exit $rc
