#!/usr/bin/env python3
"""Regenerate MANIFEST.json from the table below (kept valid at all times; validated against the schema)."""
import json, os, subprocess
V = os.path.dirname(os.path.dirname(os.path.abspath(__file__)))

TECH = 'contract-based deductive verification: VCs generated from the real function ASTs by pyvc (sidecar contracts), discharged by z3 raced with cvc5'

CLAIMED = {
 'C04': dict(
   text="Deductive, for what import statements bind and how a scope answers for a name: ModuleVistor.visit_ImportFrom resolves the module of a relative import exactly as the import system does (one package up per leading dot after the first, counted from the package of the importing module - the module itself for a package's __init__; loop with a remaining-work invariant over the spec function anc), reports and binds nothing when the level is too high, and - through the verified contract of _importNames - binds every alias, under its as-name, to <resolved module>.<name> in the scope the statement stands in; visit_Import binds the top-level package for 'import a.b.c' and the full dotted target for 'import a.b.c as x'; Module._localNameToFullName answers with its own definitions first, then its imports, then the bare name; Class._localNameToFullName with the class body's definitions, then the class body's imports, and only then the enclosing scope.",
   note="Scope of the contracts = the property's quantifier: no __all__ in the importing module (re-exports: C07), each name bound once per scope. Assumed: re-entrant analysis of other modules only adds bindings; parser invariants of Import/ImportFrom nodes. NOT under contract: the walk of dotted names in Documentable.expandName, star imports (_importAll), assignment aliases (_handleAliasing), find_object - 'resolves to the object Python binds' as a whole is decided only by the bounded native harness against CPython (25 / 400 generated acyclic projects with unique names, every runtime-bound name of every module and class namespace plus one attribute level on module aliases, ~140 names per project).",
   ref='6 C04'),
 'C18': dict(
   text="Deductive, with iteration over a set modelled as an arbitrary enumeration of its members (a fresh unconstrained order per iteration - what the hash seed decides): the project name computed by driver.get_system (a region of the real body) equals the given name or '/'.join(sorted(root names)), i.e. it is a function of the set of roots (this obligation fails on the pre-fix code); Documentable.url decides 'index.html' exactly when the set of root names is the singleton of the page's name, whatever order the set is enumerated in; the sort key of the index pages (_lckey) is injective on qualified names, so those sorts have exactly one result.",
   note="Whole-output byte identity is NOT carried by contracts: directory traversal order (sorted(iterdir())), the fixed build time, member ordering, the template writer, the search index and the inventory are decided by the bounded native 2-run harness only (fresh interpreters with PYTHONHASHSEED 1 / 2 / 77, directory listings reversed in the child, output written over a previous result; sha256 of every file; 6 (9) projects). Assumed: sorted() is a function of the multiset of its elements; dicts iterate in insertion order.",
   ref='6 C18'),
 'C01': dict(
   text="Deductive, for the mechanisms that keep a run going: ASTBuilder.parseFile / parseString let no exception of the parser out (SyntaxError, ValueError, RecursionError), report the file against its module and cache the outcome; parseAll / parseDocformat evaluate the metadata variables without letting literal_eval's ValueError/TypeError out (loop invariant); the module scheduler System.process / processModule / getProcessedModule is verified as a state machine under an explicit invariant (the waiting list holds exactly the registered UNPROCESSED modules, each once): none of its five assertions can fail, ValueError from list.remove cannot occur, the processing stack is balanced, each call strictly shrinks the list, and process() terminates (variant) with an empty list; pages.format_signature lets nothing out and reports against the function (or the overload's primary); extensions.deprecate.getDeprecated turns any failure of evaluating a deprecation decorator into a message.",
   note="Assumed: the documented exceptions of ast.parse / literal_eval; ASTBuilder.processModuleAST (the whole AST visitor, extensions and re-entrant imports) preserves the scheduler invariant and raises nothing - that is the part the bounded native harness probes (real driver in-process on 106 module texts, 16 trees, random line/token mutations, 13 standard-library modules and mutations of them, docformats rotating; exit status, written files, sibling documented, unparsable file named). Not under contract: the visitor, post-processing, the template writer, flattening, search index, inventory writer. Known finding KF-C01-lone-surrogate. Options other than --docformat are outside the property's quantifier and are not explored (observations: --prepend-package with an import of the fake package, and hiding every object, abort).",
   ref='6 C01'),
 'C08': dict(
   text="Deductive, for the containment layer (given that parsers and renderers may raise any Exception): no exception leaves get_parser_by_name other than the documented ImportError (after the fix), none leaves parse_docstring, safe_to_stan, format_docstring_fallback, ParsedDocstring.get_summary, get_toc, ensure_parsed_docstring, _get_parsed_summary or format_summary; when a parser gives up the result is the plain-text parse of the complete original text (ParsedPlaintextDocstring with _text == doc, rendered as plain_stan(text) - plaintext.parse_docstring and ParsedPlaintextDocstring.to_stan are verified too), an internal parser failure becomes an error of that docstring, and whatever is reported is reported once against the object that holds the docstring and in its section; the stan fallback is used exactly when the conversion failed; the summary is cached; an already parsed docstring is never parsed again.",
   note="Assumed (the documented interfaces): ParserFunction/to_stan/to_node/docutils walk raise only Exception subclasses; import_module raises only ImportError; fallback callables do not raise; to_node raises only NotImplementedError for get_toc (explicit precondition `not fragile_node`, so format_toc is NOT under contract); reportErrors/System.msg verified under C16. Termination, the parsers themselves (epytext, docutils, napoleon), format_docstring's field handling, flattening to HTML, 'no other object is affected' and 'docutils-recovered problems are reported' are decided only by the bounded native harness (fragment fuzzing x 5 docformats x process-types x 8 object kinds, 60 s per docstring). Known finding KF-C08-lone-surrogate.",
   ref='6 C08'),
 'C02': dict(
   text="Deductive, over the heap model of the object tree with ghost registry views: Documentable.fullName = the dotted path from the root (recursive spec fn_spec, acyclic parent chain as precondition), System.addObject (afterwards allobjects[fullName(obj)] is obj, obj is in its parent's contents under its own name or in rootobjects, other registry keys untouched except through handleDuplicate), Function.setup, System._remove and _handle_reparenting_pre/_post (recursive, frame: only keys with the moved object's prefix change; every node of the subtree is deregistered / registered under its current qualified name) and Documentable.reparent (after the fix: registered under the new name, in the new parent's contents under new_name, gone from the old parent's contents, parentMod updated, an occupied target name handled as duplicate first).",
   note="Assumed: System.handleDuplicate's contract (renames the displaced object and re-registers both), dict views. The registry/containment/parent/fullName/module/URL-uniqueness invariants over a whole built system (all ten clauses of the property, after real ASTBuilder runs including re-exports, duplicates, nested duplicates) are decided by the bounded native harness. Known findings KF-C02-summary-page-clash, KF-C02-nested-duplicate-key.",
   ref='6 C02'),
 'C07': dict(
   text="Deductive: ModuleVistor._handleReExport moves the object exactly when the documented condition holds (as_name is exported by the current module's __all__, the origin resolves it to an object defined in a module, and the origin's own __all__ does not list it), under the name it is imported as, returns True exactly then, reports and returns False when it cannot be resolved, and changes nothing otherwise; _getCurrentModuleExports yields the module's __all__ (nothing inside classes/functions); the effect of the move itself is Documentable.reparent's contract (C02): one object, registered once under the new qualified name, alias left at the old location; Documentable.resolveName returns the registered object of the expanded name and otherwise follows the alias of that *expanded* name through System.find_object (None when that fails); System.find_object itself is verified against an explicit spec (registry entry first; None for a name whose first part is none of our roots; otherwise what the alias in the first root of that name leads to, LookupError exactly when that is nothing; loop invariant over the roots).",
   note="Assumed: expandName (name expansion through alias chains is outside the contracts), every root is registered under its name (C02), System.msg/report only count. 'Both the new name and an import from the defining module lead to that one object', documented-once on the written pages, processing order independence (consumer first / origin first) are decided by the bounded native harness (plain, renamed, star re-exports x analysis order x origin __all__).",
   ref='6 C07'),
 'C05': dict(
   text="Deductive: the whole of pydoctor/mro.py is under contract and proved for all inputs: Dependency.head/tail, DependencyList.__init__ (fresh pairwise-distinct deques), __contains__, heads, tails, exhausted, remove (pointwise over the abstract view), _merge (result = the C3 merge of its argument lists, ValueError exactly when C3 has no solution; both loops with invariants; remaining-work invariant pre(result, c3_merge(view)) = c3_merge(lists)) and mro (result = the C3 linearisation over a pure base function, recursion by its own contract); on the model side Class.find returns the entry of the first class of the linearisation that defines the name (loop invariant), Inheritable.docsources (a generator, modelled by the sequence it yields) is the object itself followed by the same-named members of the classes after its parent, in linearisation order (remaining-work invariant over the recursive spec picks), and get_docstring takes the first source that has a docstring at all (an empty one meaning undocumented); the 'overrides' note (a region of pages.get_override_info) links the first definition along the linearisation after the class itself.",
   note="Assumed: elements are truthy and getbases is pure; the C3 definition (axioms c3_def, drop_def, view_def) is the specification, validated against CPython's type().__mro__ on every hierarchy of <= 5 classes each run (bounded, an assumption check). Assumed: Class.mro() returns the stored linearisation. Not under contract: model.Class._init_mro/compute_mro (cycle detection, reporting, how the stored linearisation is filled from mro.mro), templatewriter.util/pages lookups (inherited-member tables) - exercised only by the bounded native harness.",
   ref='6 C05'),
 'C11': dict(
   text="Deductive, for the URL scheme, link construction and the page set: Documentable.url / page_object (a page-owning object is its page, a member is '#quote(name)' on its parent's page, index.html for a single root), taglink (a link is created exactly for visible targets, its href is the target's url up to the same-page shortening), TemplateWriter._writeDocsFor (recursive: exactly one file per visible page-owning object of the subtree, named by its url, nothing below a hidden object), the member anchors emitted by FunctionChild/AttributeChild, the page context handed to taglink by the member-table rows (TableRow.name: the page of the table's object) and by sidebar items (LinkOnlyItem.name: the page of the documented object), and two string lemmas (fragment of a member url = quote(anchor); same-page shortening resolves on that page).",
   note="Assumed: templates attach the renderer results as name= attributes; urllib.parse.quote never produces '#'; the object model is a tree (C02). hrefs built outside taglink (letter links, sidebar templates, search) and the anchor sets of the written files are decided by the bounded native scan of real output only. Known finding KF-C11-displaced-duplicates.",
   ref='6 C11'),
 'C12': dict(
   text="Deductive: taglink creates a hyperlink only to a visible object (after the fix) - every caller inherits this modularly; the listing functions CommonPage.children/methods, PackagePage.children/methods, ObjContent._children, Module.submodules return only visible objects, all taken from the container's contents (sorted() modelled as a permutation, filtered generators by witness functions); assembleList drops names of hidden objects; _writeDocsFor writes no page for or below a hidden object; css_class carries ' private' exactly for PRIVATE objects and the sidebar item class starts with 'private' exactly for non-public ones; IndexPage.roots links only visible roots, from index.html; UndocumentedSummaryPage.stuff lists and links only visible objects, relative to its own page, and its assertion on the kind cannot fail.",
   note="Assumed: isVisible/privacyClass as pure queries (verified against the documented rule under C13); stan constructors opaque; templates (HTML) not covered. Not under contract: table.ChildTable.rows, util.unmasked_attrs (set comprehension with two generators), summary.* index pages, search, TableRow/FunctionChild.class_ - decided by the bounded native scan of real output (8 privacy rule lists + hidden root + themes). Interpretation stated in DESIGN: a hidden base of a visible class shown as a plain name node is source text about the visible class.",
   ref='6 C12'),
 'C13': dict(
   text="Deductive: System.privacyClass (both precedence loops, cache), Documentable.privacyClass and its override Module.privacyClass (behavioural subtyping), isVisible (recursive, against the documented 'hidden containers hide their members'), isPrivate and qnmatch.translate (token-by-token against the documented glob grammar, both loops with invariants and variants) are verified for all objects, rule lists and patterns; the privacy postcondition is the documented precedence taken from the property statement (exact rule over pattern rules, last rule wins, underscore default).",
   note="Assumed: Python's re gives each emitted regex fragment its documented meaning and qnmatch() = re match of translate() (bounded-validated each run against an independent matcher over all patterns<=3 x names<=3); R5 of C02 (equal qualified names have equal short names) on cache hits; str.replace facts; parse_privacy_tuple is checked natively only (bounded). Known finding KF-C13-main-module (module named __main__) is excluded from Module.privacyClass's obligations explicitly and reported as KNOWN-FINDING.",
   ref='6 C13'),
 'C19': dict(
   text="Deductive: Visitor.visit, Visitor.depart (documented relative order of BEFORE/OUTTER/main/AFTER/INNER, pruning delayed until the extensions ran), Visitor.walkabout and Visitor.walk (recursive; ghost event trace) are verified against the documented walk W(n) = Open(n) ++ Body(n) ++ Close(n) for every tree, every assignment of pruning actions (an uninterpreted function of the node) and every list of extensions: balanced and nested enter/leave is the shape of the postcondition.",
   note="Assumed: the main visitor's visit_X records its event and raises exactly the pruning action act(n), depart_X and extension methods record their event and return; get_children is pure and the structure is a tree. Not under contract yet: the ASTBuilder scope stack (push/pop) - covered by the bounded native harness only.",
   ref='6 C19'),
 'C14': dict(
   text="Deductive, on two regions of the real body of astbuilder.ModuleVistor._handleFunctionDef that are re-located by marker texts and extracted mechanically on every run: (1) the parameter-list construction (closures get_default/add_arg inlined, three loops with invariants) yields, for every ast.arguments, exactly the parameters of the language reference - positional-only, positional-or-keyword, *vararg, keyword-only, **kwarg, in that order and with those kinds, a default exactly where the source has one and wrapping that source expression, an annotation iff the source has one; (2) the return annotation is omitted iff it is absent or the literal None, the Signature receives that list, overloads append their own signature without touching the primary one.",
   note="Assumed: ast_args_ok (CPython parser invariants), inspect.Parameter/Signature store what they are given, the value formatters display the expression they wrap (C15), _annotations_from_function and is_none_literal (bounded native harness). The extraction drops the statements of _handleFunctionDef before the first marker (decorators, docstring, kind). Everything from the Signature object to the HTML is external; the bounded native harness reads the displayed text back as Python for every layout of <= 3 (4) parameters, as functions and as methods / static / class methods, incl. overloads and long or regex defaults. Known findings KF-C14-nbsp, KF-C14-one-tuple, KF-C14-float-inf.",
   ref='6 C14'),
 'C15': dict(
   text="Deductive: _OperatorDelimiter.__init__ is verified against the operator-precedence grammar of the language reference for every child operator, parent operator/kind and operand side (whenever the grammar requires parentheses, they are kept: needs_parens => not discard), using astor's precedence table read from the installed package at run time; _ColorizerState.mark/restore are verified as a backup point (restore returns exactly what it trims, nothing is lost).",
   note="Not under contract: per-node rendering, line wrapping/truncation (_output, colorize), tuples, everything rendered through astor.to_source, string/bytes escaping - these are decided by the bounded native read-back oracle only (every operator chain of depth three, 62 forms x 27 wrappers, truncation grid, the displayed values of a real module's constants / type variables / aliases, re-rendered regular expressions compared with the written ones on all short strings). Known findings KF-C15-one-tuple (one-element tuples lose their comma; pinned by the repository's own test), KF-C15-slice-tuple-bound, KF-C15-float-inf.",
   ref='6 C15'),
 'C16': dict(
   text="Deductive: the line arithmetic and the accounting are verified hop by hop for all inputs: extract_docstring_linenum (= node line + newlines of the stripped whitespace prefix; loop invariant), extract_docstring, setDocstring, Documentable.description (the object's own source file, not that of the module it was moved to), Documentable.report (message = description:base+offset, base chosen by section; counted), Field.report, ParseError.linenum/descr, reportErrors (once per object and section, one message per error, 0-based offsets), System.msg (every negative-threshold message counted, `once` messages once) and driver.main (exit status = the statement's formula over the final counters); 'moving the definition down by k lines moves the reported line by k' is a lemma over the spec.",
   note="Assumed: the per-construct line numbers produced inside epytext/docutils/napoleon are inputs; inspect.cleandoc, print/flush, Options.from_args, get_system and make are external (make/get_system only ever increment the violation counter). The end-to-end chain (planted problems at known physical lines, real runs, exit statuses) is exercised by the bounded native harness; it found two genuine off-by-one defects (fixed) and one pinned by the repository's doctest (known finding KF-C16-consolidated-field-line).",
   ref='6 C16'),
 'C20': dict(
   text="Deductive, for pydoctor's own config layer: is_quoted and unquote_str are verified against the two regular expressions read from the real module at run time (quoted text is evaluated as a Python literal or rejected with ValueError, anything else is returned unchanged); 'every text repr() can produce is detected as quoted' is a regular-language inclusion discharged by the solver (with literal_eval(repr(s)) == s this is 'what is written quoted is read back as the same text'); the unknown-key filter of ValidatorParser.parse (a region of the real body) keeps exactly the known keys with their values, emits one warning per unknown key and raises nothing.",
   note="NOT carried by contracts (stated gap): configargparse's merging of file values with argv - i.e. 'same effective configuration' and 'the command line overrides the file' - and the TOML/INI value classification (union-typed values are outside the engine's type language); these are decided by the bounded native harness only (every option of the real parser x 3 file formats, file vs command line). Assumed: toml, configparser, ast.literal_eval, warnings.warn. Known finding KF-C20-ini-read-as-toml.",
   ref='6 C20'),
 'C17': dict(
   text="Deductive: every obligation (postconditions, raises-only = exception freedom, loop invariants/variants, call preconditions, lemmas) generated from the current source of sphinx._parseInventoryLine, SphinxInventory._parseInventory/_getPayload/update/error and SphinxInventoryWriter._generateLine/_generateContent/error is discharged for all inputs by z3/cvc5; the reader/writer round trip is a lemma over the two contracts. Unbounded in line, payload, byte string and object tree.",
   note="Assumed: string-library axioms (split/join; bounded-validated against CPython each run), zlib/utf-8 inverse, logger does not raise, Documentable.fullName/url/isVisible as pure functions (verified under C02/C11/C12), Sphinx's own reader external. A bounded native evaluation of the same contracts on the real code (replay harness) runs as cross-check and as stand-in when an edit leaves the subset; it is labelled bounded and not counted as proved.",
   ref='6 C17'),
}

NOT_APPLICABLE = {
 'C03': "The oracle is CPython executing the package; a contract would need a formal semantics of module execution as its spec function - none within reach of per-function contracts.",
 'C06': "2-run property over schedules of whole-module analyses; no per-function contract implies that analyses commute.",
 'C09': "Text conservation is a joint property of regex/docutils/napoleon parsers and an HTML translator (external); the spec would be their inverse.",
 'C10': "Escaping is implemented by twisted's flattener and docutils' writer (external); pydoctor only routes strings, no contract within reach decides it.",
}
PENDING_REASON = "contracts not completed yet (work in progress; see DESIGN.md section 6)"

def main():
    props = [json.loads(l) for l in open(os.path.join(V, 'properties.jsonl'))]
    m = {
     "version": 1,
     "setup_cmd": "./tools/setup.sh",
     "hooks": {
      "guard": "PYDOCTOR_VERIF",
      "enable": "no hooks: contracts are sidecar files under /verif/contracts; nothing in /repo reads the guard",
      "baseline_off_cmd": "cd /repo && /venv/bin/python -m pytest -ra -q -p no:cacheprovider --timeout=900 --continue-on-collection-errors",
      "source_commits": [],
      "add_only": True
     },
     "engines": [{"name": "pyvc", "path": "pyvc/", "serves_properties": sorted(CLAIMED),
                  "kind_free_text": "own VC generator: symbolic execution of the real Python ASTs of /repo against sidecar contracts (pre/post/raises/invariants/frames/ghost state), obligations discharged by z3 and cvc5; native replay of contracts on the real code"}],
     "checks": [],
     "notes": "exit codes: 0 held, 1 violation (VIOLATION line), 2 undecided without stand-in, 3 checker crash. See DESIGN.md.",
     "not_applicable": [],
    }
    for p in props:
        pid = p['id']
        if pid in CLAIMED:
            c = CLAIMED[pid]
            m['checks'].append({
              "property_id": pid,
              "quick_cmd": f"./check {pid} --tier quick",
              "thorough_cmd": f"./check {pid} --tier thorough",
              "evidence_file": f"evidence/{pid}.json",
              "replay_cmd_template": "./check replay {path}",
              "engine": "pyvc",
              "level_claimed": {"category": "proof", "text": c['text'], "design_ref": c['ref']},
              "level_note": c['note'],
              "technique": TECH,
            })
        else:
            m['not_applicable'].append({"property_id": pid, "reason": NOT_APPLICABLE.get(pid, PENDING_REASON)})
    json.dump(m, open(os.path.join(V, 'MANIFEST.json'), 'w'), indent=1)
    try:
        import jsonschema
        jsonschema.validate(m, json.load(open('/root/.vp/MANIFEST.schema.json')))
        print('MANIFEST valid;', len(m['checks']), 'checks')
    except ImportError:
        print('jsonschema not available; not validated')

if __name__ == '__main__':
    main()
