#!/usr/bin/env python3
"""tools/seeded.py <worktree> <PID> : confirm the seeded changes a sub-agent left under <worktree>/seeded/<n>/ (demo passes
without and fails with the patch, the pinned suite still passes), run our check against each, and store the kept ones under
/verif/seeded/<PID>-<n>/ (patch.diff, demo.py, meta.json with what we ran and which check caught it)."""
import json, os, re, shutil, subprocess, sys, tempfile

def sh(cmd, cwd=None, env=None, timeout=1800):
    p = subprocess.run(cmd, shell=True, cwd=cwd, env=env, capture_output=True, text=True, timeout=timeout)
    return p.returncode, p.stdout + p.stderr

def main():
    wt, pid = sys.argv[1], sys.argv[2]
    only = sys.argv[3:]
    offset = int(os.environ.get('SEED_OFFSET', '0'))      # later rounds of seeding: keep earlier seeds (C05-4 ... for the second round)
    env = dict(os.environ, PYTHONPATH=wt)
    for n in sorted(os.listdir(os.path.join(wt, 'seeded'))):
        if only and n not in only:
            continue
        d = os.path.join(wt, 'seeded', n)
        if not os.path.exists(os.path.join(d, 'patch.diff')):
            continue
        label = f'{pid}-{int(n) + offset}' if n.isdigit() else f'{pid}-{n}'
        rec = {'seed': label}
        sh('git checkout -- .', cwd=wt)
        rc0, _ = sh(f'/venv/bin/python {d}/demo.py', cwd=wt, env=env)
        rc, out = sh(f'git apply {d}/patch.diff', cwd=wt)
        if rc != 0:
            print(f'{label}: patch does not apply: {out[:200]}'); continue
        try:
            rc1, demo_out = sh(f'/venv/bin/python {d}/demo.py', cwd=wt, env=env)
            rc2, suite = sh('/venv/bin/python -m pytest -q -p no:cacheprovider -n 8 pydoctor 2>&1 | tail -3', cwd=wt, env=env)
            m = re.search(r'(\d+) failed, (\d+) passed', suite)
            passed = int(m.group(2)) if m else -1
            failed = int(m.group(1)) if m else -1
            out_dir = tempfile.mkdtemp(prefix='pydoctor-verif.', dir='/var/tmp')
            env2 = dict(os.environ, VERIF_REPO=wt, VERIF_OUT=out_dir)
            rc3, chk = sh(f'/verif/check {pid} --tier quick', env=env2)
            viol = [l for l in chk.splitlines() if l.startswith('VIOLATION')]
            failed_obs = [l.strip() for l in chk.splitlines() if 'FAILED obligation' in l]
            shutil.rmtree(out_dir, ignore_errors=True)
        finally:
            sh('git checkout -- .', cwd=wt)
        ok_seed = rc0 == 0 and rc1 != 0 and passed == 1322 and failed == 11
        caught = rc3 == 1 and bool(viol)
        meta = json.load(open(os.path.join(d, 'meta.json')))
        meta.update({'confirmed': {'demo_without_patch_exit': rc0, 'demo_with_patch_exit': rc1, 'suite_with_patch': f'{passed} passed, {failed} failed (the 11 environmental ones)',
                                   'ran': 'tools/seeded.py: git apply; demo.py; pytest -n 8 pydoctor; ./check with VERIF_REPO=<patched worktree>; git checkout'},
                     'our_check': {'exit': rc3, 'caught': caught, 'violation_lines': viol[:3], 'failed_obligations': failed_obs[:6]}})
        print(f"{label}: valid_seed={ok_seed} caught={caught} exit={rc3} failed_obligations={len(failed_obs)} :: {meta.get('what','')[:110]}")
        if not caught:
            print('   check output tail:', chk[-600:].replace('\n', ' | '))
        if ok_seed:
            dst = os.path.join('/verif/seeded', label)
            os.makedirs(dst, exist_ok=True)
            shutil.copy(os.path.join(d, 'patch.diff'), dst)
            shutil.copy(os.path.join(d, 'demo.py'), dst)
            json.dump(meta, open(os.path.join(dst, 'meta.json'), 'w'), indent=1)
        else:
            print('   NOT KEPT:', rc0, rc1, passed, failed, demo_out[-300:])

if __name__ == '__main__':
    main()
