#!/usr/bin/env python3
"""tools/mutant.py <mutants.json> [name ...] [--tier quick] : run checks against scratch copies of /repo/pydoctor
with one seeded change each.  Mutant = {name, pid, file, old, new, expect: 'detect'|'miss', note}.
Scratch copies live under /var/tmp, are removed after each run; evidence/replays go to the scratch dir."""
import json, os, shutil, subprocess, sys, tempfile

def main():
    args = [a for a in sys.argv[1:] if not a.startswith('--')]
    tier = 'quick'
    if '--tier' in sys.argv:
        tier = sys.argv[sys.argv.index('--tier') + 1]
        args = [a for a in args if a != tier]
    path = args[0]
    only = set(args[1:])
    muts = json.load(open(path))
    results = []
    for m in muts:
        if only and m['name'] not in only:
            continue
        d = tempfile.mkdtemp(prefix='pydoctor-verif.', dir='/var/tmp')
        try:
            shutil.copytree('/repo/pydoctor', os.path.join(d, 'repo', 'pydoctor'),
                            ignore=shutil.ignore_patterns('__pycache__', 'test'))
            f = os.path.join(d, 'repo', m['file'])
            s = open(f).read()
            if s.count(m['old']) != 1:
                print(f"!! {m['name']}: pattern occurs {s.count(m['old'])} times"); results.append((m['name'], 'bad-pattern')); continue
            open(f, 'w').write(s.replace(m['old'], m['new']))
            env = dict(os.environ, VERIF_REPO=os.path.join(d, 'repo'), VERIF_OUT=os.path.join(d, 'out'))
            p = subprocess.run(['/verif/check', m['pid'], '--tier', tier], env=env, capture_output=True, text=True)
            out = p.stdout + p.stderr
            viol = [l for l in out.splitlines() if l.startswith('VIOLATION')]
            failed = [l.strip() for l in out.splitlines() if 'FAILED obligation' in l]
            status = 'detected' if p.returncode == 1 and viol else f'exit={p.returncode}'
            ok = (status == 'detected') == (m.get('expect', 'detect') == 'detect')
            print(f"{'OK ' if ok else '!! '}{m['pid']} {m['name']}: {status}; {len(failed)} failed obligations; {viol[:1]}")
            if not ok or '--verbose' in sys.argv:
                print(out[-2500:])
            results.append((m['name'], status))
        finally:
            shutil.rmtree(d, ignore_errors=True)
    return 0

if __name__ == '__main__':
    sys.exit(main())
