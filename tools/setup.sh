#!/bin/sh
# offline self-test: both interpreters and both solvers answer
set -e
cd "$(dirname "$0")/.."
python3-vt -c "import z3; s=z3.Solver(); x=z3.Int('x'); s.add(x>1, x<1); assert s.check()==z3.unsat; print('z3', z3.get_version_string())"
printf '(set-logic ALL)\n(declare-const x Int)\n(assert (and (> x 1) (< x 1)))\n(check-sat)\n' > .setup.smt2
test "$(/usr/bin/cvc5 .setup.smt2)" = "unsat" && echo cvc5 ok
rm -f .setup.smt2
/venv/bin/python -c "import pydoctor; print('pydoctor importable')"
mkdir -p .work evidence replays
