"""C17 native harness: real pydoctor.sphinx functions against the sidecar contracts."""
from __future__ import annotations
import itertools
import random
from replay.native import check_pure, spec_env, load_contracts

REG = load_contracts('C17')
ENV = spec_env('specs.c17')


def _line_cases(tier, seed):
    toks = ['a', 'b.c', '1', '-1', 'py:function', 'x y'.split()[0], '', '+3', '0x1', ' 7'.strip(), '-', 'std:label', '$']
    maxn = 5 if tier == 'quick' else 6
    small = ['a', '1', '', 'py:x', '-']
    for n in range(0, maxn + 1):
        for combo in itertools.product(small, repeat=n):
            yield {'line': ' '.join(combo)}
    rnd = random.Random(seed)
    for _ in range(2000 if tier == 'quick' else 20000):
        n = rnd.randint(0, 8)
        yield {'line': ' '.join(rnd.choice(toks) for _ in range(n))}
    for s in ['\t', 'a\tb 1 c d', 'a b 1', 'a b 1 c', 'a b 1 c d', 'a b c 1 d e', 'mod.C 0.m 0 py:method -1 u -',
              'a  b 1 c d', 'ü py:class 1 u -', '1 2 3 4 5', 'a b ١ c d', 'a b 1_0 c d', 'a b  1  c d']:
        yield {'line': s}


def _check_line(case):
    from pydoctor import sphinx
    return check_pure(REG.contracts[('pydoctor/sphinx.py', '_parseInventoryLine')], sphinx._parseInventoryLine,
                      case, ENV)


HARNESS = {
    'pydoctor/sphinx.py:_parseInventoryLine': {
        'cases': _line_cases, 'check': _check_line,
        'bound': 'all space-joined token lists of length <= 5 (6 thorough) over 5 tokens + 2000 (20000) random lines over 13 tokens',
    },
}
