"""C17 native harness: real pydoctor.sphinx functions against the sidecar contracts (bounded, labelled so)."""
from __future__ import annotations
import os
import itertools
import random
import zlib
from replay.native import check_pure, check_method, spec_env, load_contracts, validate_axioms
from replay import fixtures

REG = load_contracts('C17')
ENV = spec_env('specs.c17')
F = 'pydoctor/sphinx.py'
SMALL = ['a', '1', '', 'py:x', '-']
TOKS = ['a', 'b.c', '1', '-1', 'py:function', 'x', '', '+3', '0x1', '7', '-', 'std:label', '$', 'py:class', 'u.html#x',
        'caf%C3%A9', '%s', '100%', '%(x)s']
SPECIAL = ['\t', 'a\tb 1 c d', 'a b 1', 'a b 1 c', 'a b 1 c d', 'a b c 1 d e', 'mod.C 0.m 0 py:method -1 u -',
           'a  b 1 c d', 'ü py:class 1 u -', '1 2 3 4 5', 'a b ١ c d', 'a b 1_0 c d', 'a b  1  c d', '  1', 'a py:x 1 u -']


def _line_cases(tier, seed):
    maxn = 5 if tier == 'quick' else 6
    for n in range(0, maxn + 1):
        for combo in itertools.product(SMALL, repeat=n):
            yield {'line': ' '.join(combo)}
    rnd = random.Random(seed)
    for _ in range(2000 if tier == 'quick' else 20000):
        yield {'line': ' '.join(rnd.choice(TOKS) for _ in range(rnd.randint(0, 8)))}
    for s in SPECIAL:
        yield {'line': s}


def _check_line(case):
    from pydoctor import sphinx
    return check_pure(REG.contracts[(F, '_parseInventoryLine')], sphinx._parseInventoryLine, case, ENV)


class _Log:
    def __init__(self):
        self.errors = 0

    def __call__(self, where, message, thresh=0):
        if thresh < 0:
            self.errors += 1


def _inv():
    from pydoctor import sphinx
    log = _Log()
    return sphinx.SphinxInventory(logger=log), log


def _payload_cases(tier, seed):
    lines = ['a py:x 1 u -', 'b std:label 1 u -', 'broken', 'a b 1', '', 'c py:y -1 v$ d d', 'a py:x 2 w -', 'x y z', '1 2 3',
             'caf%C3%A9 broken%s']
    maxn = 3 if tier == 'quick' else 4
    for n in range(0, maxn + 1):
        for combo in itertools.product(lines, repeat=n):
            yield {'base_url': 'http://h/b', 'payload': '\n'.join(combo)}
    yield {'base_url': 'http://h/caf%C3%A9', 'payload': 'broken\na py:x 1 u -'}
    rnd = random.Random(seed + 1)
    for _ in range(300 if tier == 'quick' else 5000):
        ls = [' '.join(rnd.choice(TOKS) for _ in range(rnd.randint(0, 7))) for _ in range(rnd.randint(0, 6))]
        yield {'base_url': 'u', 'payload': rnd.choice(['\n', '\r\n', '\n\n']).join(ls)}


def _check_payload(case):
    inv, log = _inv()
    return check_method(REG.contracts[(F, 'SphinxInventory._parseInventory')], inv, '_parseInventory', case, ENV,
                        ghosts={'errors': lambda: log.errors})


def _bytes_cases(tier, seed):
    good = zlib.compress(b'a py:x 1 u -\nb py:y 1 v -\n')
    hdr = b'# Sphinx inventory version 2\n# Project: p\n# Version: 1\n# The rest is compressed\n'
    base = [b'', b'#', b'# x', b'\n', hdr, hdr + good, good, hdr + good[:-3], hdr + good[3:], hdr + b'garbage',
            hdr + zlib.compress(b'\xff\xfe bad utf8\n'), b'#a\n#b\n' + good, b'\n' + good, hdr + zlib.compress(b''),
            b'# only comments\n# more\n']
    # valid inventories whose compressed body happens to contain the bytes that start a header line (a line feed followed by '#',
    # or a '#' right at the start of the body): only the leading lines are header
    found = 0
    for k in range(20000):
        body = zlib.compress(''.join(f'pkg{k}.mod{i}.name{(i * k) % 97} py:function 1 pkg{k}.mod{i}.html#name -\n' for i in range(12)).encode())
        if b'\n#' in body or body.startswith(b'#'):
            base.append(hdr + body)
            found += 1
            if found >= 3:
                break
    for b in base:
        yield {'base_url': 'http://h', 'data': list(b)}
    rnd = random.Random(seed + 2)
    full = hdr + good
    for _ in range(200 if tier == 'quick' else 3000):
        b = bytearray(full)
        for _ in range(rnd.randint(1, 4)):
            op = rnd.randint(0, 2)
            if op == 0 and b:
                b[rnd.randrange(len(b))] = rnd.randrange(256)
            elif op == 1 and b:
                del b[rnd.randrange(len(b)):][: rnd.randint(1, 5)]
            else:
                b.insert(rnd.randrange(len(b) + 1), rnd.randrange(256))
        yield {'base_url': 'http://h', 'data': list(bytes(b))}


def _check_getpayload(case):
    inv, log = _inv()
    kw = {'base_url': case['base_url'], 'data': bytes(case['data'])}
    r = check_method(REG.contracts[(F, 'SphinxInventory._getPayload')], inv, '_getPayload', kw, ENV,
                     ghosts={'errors': lambda: log.errors})
    if r:
        return r
    # what the payload is: the text that the data after the leading '#' lines decompresses to (the format of objects.inv)
    data = bytes(case['data'])
    while data.startswith(b'#') and b'\n' in data:
        data = data.split(b'\n', 1)[1]
    try:
        want = zlib.decompress(data).decode('utf-8')
    except Exception:     # noqa
        want = None
    inv2, log2 = _inv()
    try:
        got = inv2._getPayload(case['base_url'], bytes(case['data']))
    except Exception as ex:     # noqa
        return {'observed': f'_getPayload raised {type(ex).__name__}: {ex}', 'required': 'never aborts', 'class': 'payload-raise'}
    if want is not None and got != want:
        return {'observed': f'a valid inventory ({len(case["data"])} bytes) yields a payload of {len(got)} characters, errors reported: {log2.errors}',
                'required': f'the {len(want)} characters its body decompresses to', 'class': 'payload-lost'}
    if want is None and got != '':
        return {'observed': f'an unusable inventory yields the payload {got[:40]!r}', 'required': "'' and a reported problem", 'class': 'payload-invented'}
    return None


class _Cache:
    def __init__(self, data):
        self.data = data

    def get(self, url):
        return self.data


def _update_cases(tier, seed):
    for c in _bytes_cases(tier, seed):
        for url in ('http://h/objects.inv', 'nourl', 'http://h/caf%C3%A9/objects.inv', '100%'):
            yield {'url': url, 'data': c['data']}
    yield {'url': 'http://h/objects.inv', 'data': None}


def _check_update(case):
    inv, log = _inv()
    data = None if case['data'] is None else bytes(case['data'])
    return check_method(REG.contracts[(F, 'SphinxInventory.update')], inv, 'update',
                        {'cache': _Cache(data), 'url': case['url']}, ENV, ghosts={'errors': lambda: log.errors})


# ---- writer: real model objects -----------------------------------------------------------------------
_SYS = {}


def _system(k):
    if k not in _SYS:
        _SYS[k] = fixtures.build_system(fixtures.PROJECT_A, fixtures.PRIVACY_SETS[k])
    return _SYS[k]


def _obj_cases(tier, seed):
    for k in range(len(fixtures.PRIVACY_SETS)):
        for name in sorted(_system(k).allobjects):
            yield {'privacy': k, 'obj': name}


def _writer():
    from pydoctor import sphinx
    log = _Log()
    return sphinx.SphinxInventoryWriter(logger=log, project_name='p', project_version='1'), log


def _check_genline(case):
    w, log = _writer()
    o = _system(case['privacy']).allobjects[case['obj']]
    return check_method(REG.contracts[(F, 'SphinxInventoryWriter._generateLine')], w, '_generateLine', {'obj': o}, ENV,
                        ghosts={'errors': lambda: log.errors})


def _subject_cases(tier, seed):
    for k in range(len(fixtures.PRIVACY_SETS)):
        s = _system(k)
        yield {'privacy': k, 'subjects': [o.fullName() for o in s.rootobjects]}
        for name in sorted(s.allobjects):
            yield {'privacy': k, 'subjects': [name]}


def _check_gencontent(case):
    w, log = _writer()
    s = _system(case['privacy'])
    subs = [s.allobjects[n] for n in case['subjects']]
    return check_method(REG.contracts[(F, 'SphinxInventoryWriter._generateContent')], w, '_generateContent',
                        {'subjects': subs}, ENV, ghosts={'errors': lambda: log.errors})


ACME = [('acme', '"""Root."""\n', True), ('acme.acme', 'class acme:\n    def acme(self): pass\n', False),
        ('acme.other', 'def f(): pass\n', False)]


def _roundtrip_cases(tier, seed):
    for k in range(len(fixtures.PRIVACY_SETS)):
        yield {'privacy': k}
    yield {'project': 'acme'}


def _check_roundtrip(case):
    """end to end on real objects: generate -> parse; exactly one entry per visible object reachable from the
    roots, mapping its qualified name to its url (statement of C17, for pydoctor's own reader)"""
    from pydoctor import sphinx
    s = fixtures.build_system(ACME) if case.get('project') == 'acme' else _system(case['privacy'])
    w, _ = _writer()
    content = w._generateContent(s.rootobjects).decode('utf-8')
    inv, log = _inv()
    got = inv._parseInventory('B', content)

    def walk(o):
        if not o.isVisible:
            return
        yield o
        for c in o.contents.values():
            yield from walk(c)
    want = {}
    for r in s.rootobjects:
        for o in walk(r):
            want[o.fullName()] = ('B', o.url)
    if got != want or log.errors:
        missing = sorted(set(want) - set(got))
        extra = sorted(set(got) - set(want))
        wrong = sorted(k for k in want if k in got and got[k] != want[k])
        return {'observed': f'missing={missing[:5]} extra={extra[:5]} wrong={wrong[:5]} errors={log.errors}',
                'required': 'exactly one entry per visible documented object, name -> (base, url)'}
    if len(content.splitlines()) != len(want):
        return {'observed': f'{len(content.splitlines())} lines for {len(want)} visible objects', 'required': 'one line per object'}
    # "the page and anchor where it is documented": two different objects never share a page, an anchor names its object
    from pydoctor import model
    pages = {}
    for name, (_, url) in got.items():
        o = s.allobjects[name]
        if o.documentation_location is model.DocLocation.OWN_PAGE:
            if '#' in url:
                return {'observed': f'{name} (own page) -> {url}', 'required': 'a page without fragment'}
            if url in pages:
                return {'observed': f'{name} and {pages[url]} are both mapped to {url}', 'required': 'one page per documented module/class',
                        'class': 'shared-page'}
            pages[url] = name
        else:
            page, _, frag = url.partition('#')
            if frag != o.name or page != got[o.parent.fullName()][1]:
                return {'observed': f'{name} -> {url}', 'required': f'{got[o.parent.fullName()][1]}#{o.name}', 'class': 'anchor'}
    return None


def _written_cases(tier, seed):
    from replay import site
    for k in ((0, 2) if tier == 'quick' else range(len(site.PRIVACY_SETS))):
        yield {'written': 'B', 'privacy': k}
    yield {'written': 'acme'}
    for k in ((1, 4) if tier == 'quick' else range(5)):
        yield {'written': 'kitchen', 'options': k}


def _check_written(case):
    """a real run: the objects.inv that was written, loaded by pydoctor's own reader, sends every entry to a file that was
    written and to an anchor that exists in it ('the page and anchor where it is documented')"""
    import os
    from replay import site
    if case['written'] == 'acme':
        files = {'acme/__init__.py': '"""Root."""\nVERSION = 1\ndef setup(): pass\n', 'acme/acme.py': 'class acme:\n    def acme(self): pass\n    attr = 1\n',
                 'acme/other.py': 'def f(): pass\nCONST = 2\nclass K:\n    cv = 1\n    def __init__(self):\n        self.iv = 2\n    @property\n    def p(self): pass\n'}
        argv = []
    elif case['written'] == 'kitchen':
        from replay import kitchen
        o_ = kitchen.OPTION_SETS[case['options']]
        files, argv = kitchen.KITCHEN, [f'--privacy={r}' for r in o_['rules']] + o_['extra']
    else:
        files, argv = site.PROJECT_B, [f'--privacy={r}' for r in site.PRIVACY_SETS[case['privacy']]]
    rc, out, d = site.run_project(files, argv)
    try:
        if rc not in (0, 2, 3):
            return {'observed': f'run ended with {rc}', 'required': 'a normal run', 'class': 'abort'}
        idx = site.index_output(d + '/out')
        inv, log = _inv()
        data = open(os.path.join(d, 'out', 'objects.inv'), 'rb').read()
        got = inv._parseInventory('', inv._getPayload('', data))
        fails = []
        if log.errors or not got:
            fails.append({'observed': f'reading the written inventory: {len(got)} entries, errors {log.errors[:3]}', 'required': 'loads without problems', 'class': 'written-unreadable'})
        import urllib.parse
        for name, (base, loc) in sorted(got.items()):
            page, _, frag = urllib.parse.unquote(loc).partition('#')
            if page not in idx['files']:
                fails.append({'observed': f'{name} -> {loc}: the file {page!r} was not written', 'required': 'the page where it is documented', 'class': 'written-page'})
            elif frag and frag not in idx['pages'].get(page, {}).get('anchors', ()):
                fails.append({'observed': f'{name} -> {loc}: {page} has no anchor {frag!r}', 'required': 'the anchor where it is documented', 'class': 'written-anchor'})
        return fails or None
    finally:
        site.cleanup(d)


def _dollar_cases(tier, seed):
    yield {'lines': [('os', 'py:module', 'library/os.html#module-$'), ('os.path.join', 'py:function', 'library/os.path.html#$'), ('json', 'py:module', 'library/json.html#module-$'),
                     ('plain', 'py:class', 'api/plain.html'), ('dollar.mid', 'py:function', 'a$b.html#x'), ('ends', 'py:data', 'x.html#prefix-$'), ('just', 'py:data', '$')]}


def _check_dollar(case):
    """in a location a trailing '$' stands for the name of the entry (Sphinx's inventory format), whatever precedes it"""
    inv, log = _inv()
    payload = ''.join(f'{n} {t} 1 {loc} -\n' for n, t, loc in case['lines'])
    inv._links = inv._parseInventory('http://base', payload)
    fails = []
    for n, t, loc in case['lines']:
        want = 'http://base/' + (loc[:-1] + n if loc.endswith('$') else loc)
        got = inv.getLink(n)
        if got != want:
            fails.append({'observed': f'{n} ({loc}) resolves to {got!r}', 'required': f'{want!r}', 'class': 'dollar-shorthand'})
    return fails or None


def _resolve_cases(tier, seed):
    for scope in ('module', 'function', 'class', 'method', 'class_with_member', 'method_of_class_with_member'):
        yield {'scope': scope}


def _check_resolve(case):
    """usable lines of a partly malformed remote inventory resolve from every docstring of the project - also where the first part of a
    dotted name is, by accident, the name of a member of the enclosing class"""
    from pydoctor import linker
    from twisted.web.template import flattenString
    inv, log = _inv()
    payload = ('socket py:module 1 library/socket.html#module-$ -\nbroken line\nsocket.socket py:class 1 library/socket.html#$ -\n'
               'also bad 1\nsocket.socket.connect py:method 1 library/socket.html#$ -\nos.path.join py:function 1 library/os.path.html#$ -\n')
    inv._links = inv._parseInventory('http://base', payload)
    src = ('"mod"\ndef func():\n    "doc"\nclass Plain:\n    "doc"\n    def meth(self):\n        "doc"\n'
           'class WithMember:\n    "doc"\n    socket = None\n    os = None\n    def meth(self):\n        "doc"\n')
    system = fixtures.build_system([('rm', src, False)])
    system.intersphinx = inv
    ctx = {'module': 'rm', 'function': 'rm.func', 'class': 'rm.Plain', 'method': 'rm.Plain.meth', 'class_with_member': 'rm.WithMember',
           'method_of_class_with_member': 'rm.WithMember.meth'}[case['scope']]
    ob = system.allobjects[ctx]
    fails = []
    import contextlib, io
    for name, want in (('socket.socket', 'http://base/library/socket.html#socket.socket'), ('socket.socket.connect', 'http://base/library/socket.html#socket.socket.connect'),
                       ('os.path.join', 'http://base/library/os.path.html#os.path.join')):
        with contextlib.redirect_stdout(io.StringIO()):
            tag = ob.docstring_linker.link_xref(name, name, 0)
        out = []
        flattenString(None, tag).addCallback(out.append)
        html_ = out[0].decode('utf-8') if out else ''
        if f'href="{want}"' not in html_:
            fails.append({'observed': f'L{{{name}}} in the docstring of {ctx} is rendered as {html_[:160]!r}', 'required': f'a link to {want} (a usable line of the inventory)',
                          'class': 'usable-line-unresolved'})
    return fails or None


def _ext_cases(tier, seed):
    yield {'sphinx_ext': True}


def _check_sphinx_ext(case):
    """pydoctor's Sphinx extension: the inventory it registers for intersphinx when the builder starts is a file that exists at that moment
    and holds one entry per documented object; after the build the inventory is in the output directory"""
    import contextlib, io, shutil, tempfile, textwrap
    from pathlib import Path
    from types import SimpleNamespace
    from pydoctor.sphinx_ext import build_apidocs
    tmp = Path(tempfile.mkdtemp(prefix='c17ext.', dir='/var/tmp'))
    cwd = os.getcwd()
    fails = []
    try:
        pkg = tmp / 'src' / 'extpkg'
        pkg.mkdir(parents=True)
        (pkg / '__init__.py').write_text('"""Package."""\n')
        (pkg / 'mod.py').write_text('"""Module."""\nclass K:\n    """A class."""\n    def meth(self):\n        """A method."""\n    class Inner:\n        """Nested."""\n'
                                    '        attr = 1\n        """An attribute."""\ndef func():\n    """A function."""\n')
        outdir = tmp / 'sphinx_out'
        outdir.mkdir()
        mapping = {}
        app = SimpleNamespace(builder=SimpleNamespace(name='html'), outdir=str(outdir),
                              config=SimpleNamespace(pydoctor_args=['--html-output={outdir}/api', '--project-name=extpkg', '--project-base-dir=' + str(tmp / 'src'), str(pkg)],
                                                     pydoctor_url_path='/en/{rtd_version}/api/', intersphinx_mapping=mapping))
        os.chdir(tmp)
        with contextlib.redirect_stderr(io.StringIO()), contextlib.redirect_stdout(io.StringIO()):
            build_apidocs.on_builder_inited(app)
        entry = mapping.get('main-api-docs')
        if not entry:
            return {'observed': f'no inventory registered for intersphinx: {mapping!r}', 'required': "an entry 'main-api-docs'", 'class': 'ext-no-mapping'}
        _, (url, invs) = entry
        expected = {'extpkg': 'index.html', 'extpkg.mod': 'extpkg.mod.html', 'extpkg.mod.K': 'extpkg.mod.K.html', 'extpkg.mod.K.meth': 'extpkg.mod.K.html#meth',
                    'extpkg.mod.K.Inner': 'extpkg.mod.K.Inner.html', 'extpkg.mod.K.Inner.attr': 'extpkg.mod.K.Inner.html#attr', 'extpkg.mod.func': 'extpkg.mod.html#func'}
        for inv_path in invs:
            pth = Path(inv_path)
            if not pth.is_file():
                fails.append({'observed': f'the inventory handed to Sphinx ({inv_path}) does not exist when the inventories are loaded', 'required': 'an existing file',
                              'class': 'ext-inventory-missing'})
                continue
            inv, log = _inv()
            payload = inv._getPayload('http://b', pth.read_bytes())
            links = inv._parseInventory('http://b', payload)
            got = {k: v[1] if isinstance(v, tuple) else v for k, v in links.items()}
            inv._links = links
            for name, loc in expected.items():
                if inv.getLink(name) != 'http://b/' + loc:
                    fails.append({'observed': f'{name} -> {inv.getLink(name)!r} in the inventory handed to Sphinx', 'required': 'http://b/' + loc, 'class': 'ext-entry'})
            if set(links) != set(expected):
                fails.append({'observed': f'entries {sorted(set(links) ^ set(expected))} differ', 'required': 'one entry per documented object', 'class': 'ext-entries'})
        (outdir / 'api').mkdir(exist_ok=True)
        with contextlib.redirect_stderr(io.StringIO()), contextlib.redirect_stdout(io.StringIO()):
            build_apidocs.on_build_finished(app, None)
        if not (outdir / 'api' / 'objects.inv').is_file():
            fails.append({'observed': 'no objects.inv in the output directory after the build', 'required': 'present', 'class': 'ext-final-missing'})
    finally:
        os.chdir(cwd)
        shutil.rmtree(tmp, ignore_errors=True)
    return fails or None


def _axiom_cases(tier, seed):
    yield {'all': True}


def _check_axioms(case):
    return validate_axioms(REG, ENV, alphabet=['a', ' ', '1', '-', 'p', '_'], maxlen=3 if True else 4)


HARNESS = {
    f'{F}:_parseInventoryLine': {'cases': _line_cases, 'check': _check_line,
        'bound': 'all space-joined token lists of length <= 5 (6 thorough) over 5 tokens + 2000 (20000) random lines over 15 tokens'},
    f'{F}:SphinxInventory._parseInventory': {'cases': _payload_cases, 'check': _check_payload,
        'covers': [f'{F}:SphinxInventory.error', f'{F}:SphinxInventoryWriter.error'],
        'bound': 'all payloads of <= 3 (4) lines over 9 line shapes + 300 (5000) random payloads'},
    f'{F}:SphinxInventory._getPayload': {'cases': _bytes_cases, 'check': _check_getpayload,
        'bound': '15 hand-picked byte strings + 200 (3000) byte-level mutations of a valid inventory'},
    f'{F}:SphinxInventory.update': {'cases': _update_cases, 'check': _check_update,
        'bound': 'the _getPayload byte strings x {valid url, url without slash} + missing data'},
    f'{F}:SphinxInventoryWriter._generateLine': {'cases': _obj_cases, 'check': _check_genline,
        'bound': 'every object of fixture project A under 6 privacy rule lists'},
    f'{F}:SphinxInventoryWriter._generateContent': {'cases': _subject_cases, 'check': _check_gencontent,
        'bound': 'every object / the root list of fixture project A under 6 privacy rule lists'},
    'lemma.roundtrip': {'cases': _roundtrip_cases, 'check': _check_roundtrip,
        'bound': 'fixture project A under 6 privacy rule lists, end to end through writer and reader'},
    f'{F}:SphinxInventoryWriter.generate': {'cases': _written_cases, 'check': _check_written,
        'covers': ['pydoctor/themes/base/attribute-child.html', 'pydoctor/themes/base/function-child.html', 'pydoctor/model.py:Documentable.url'],
        'bound': 'real runs of two projects (project B under 2 (8) privacy rule lists; a package with a same-named module and class): every entry of the '
                 'written objects.inv followed into the written HTML'},
    f'{F}:SphinxInventory.getLink': {'cases': _dollar_cases, 'check': _check_dollar,
        'bound': "7 entries using the '$' shorthand after '#', after 'module-', alone, in the middle, not at all"},
    'pydoctor/linker.py:_EpydocLinker._resolve_identifier_xref': {'cases': _resolve_cases, 'check': _check_resolve,
        'covers': ['pydoctor/linker.py:_EpydocLinker.link_xref', 'pydoctor/linker.py:_EpydocLinker.look_for_intersphinx'],
        'bound': '3 dotted names listed by usable lines of a partly malformed inventory x 6 docstring contexts (module, function, class, method, and a class / method '
                 'whose class has a member named like the first part)'},
    'pydoctor/sphinx_ext/build_apidocs.py:on_builder_inited': {'cases': _ext_cases, 'check': _check_sphinx_ext,
        'covers': ['pydoctor/sphinx_ext/build_apidocs.py:on_build_finished'],
        'bound': "one package driven through the Sphinx extension's two event handlers with a stand-in application object"},
    'axioms': {'cases': _axiom_cases, 'check': _check_axioms,
        'bound': 'every axiom instantiated with all strings of length <= 3 over {a, space, 1, -, p, _}'},
}
