"""C14 native harness (bounded, exhaustive small scope): displayed signature read back as Python."""
from __future__ import annotations
import inspect
import os
import itertools
import random
import re

A = 'pydoctor/astbuilder.py'
DEFAULTS = ['1', "'s'", 'None', '(1, 2)', 'a.b', '-1', '[]', 'x or y', "'\\x1f'", "'tab\\there'", "'\\x0b\\x0c'", "b'\\x1f'", "'<&>'",
            # longer than any line-length option; patterns the regular-expression colorizer has no special case for
            repr('long text ' * 12), '[' + ', '.join(str(i) for i in range(100, 140)) + ']', "re.compile('a+b|c')",
            "re.compile('(<)?\\\\w+(?(1)>)')", "re.compile('[a-z]+$', re.I)",
            # rendered through astor (which wraps long lines)
            '[i * 1000000 for i in range(3) if i % 7 == 3 or i % 11 == 5 or i % 13 == 7 or i > 100000000000]',
            'x < y < 100000000000000000 < 200000000000000000 < 300000000000000000 < 400000000000000000000',
            "f'x\\n{y}'", "f'{x!r:>10}\\t{{}}'", "'\\udc80\\n'", "'can\\'t \\udcff'", "'back\\\\slash \\udc80'",
            # an operator expression that is itself subscripted / called / an attribute base; re.compile with keyword arguments
            '(xs or ys)[0]', '(xs + ys)[1:2]', "{'k': (xs + ys)[0] * 2}", '(xs if x else ys)[0]', '(xs or ys).__len__()', '(len or abs)(xs)', '(-x).real', '(not x).real',
            't.Dict[(str, int)]', '(xs * 2)[x or y]',
            "re.compile('a+b', flags=re.I)", "re.compile(flags=re.S | re.X, pattern='c[0-9]')", "re.compile('a.b', re.S)",
            # known findings (recognised by their specific witness, see _check)
            "'non\xa0breaking'", '(1,)', '1e999']
ANNS = ['int', "'str'", 'List[int]', 'None', 'a.B', "Literal['r', 'w']", "t.Literal['r']", "typing_extensions.Literal['x y']",
        "'None'", "List['a.B']", "'List[int]'", 't.Tuple[()]', 't.Tuple[*Ts]', 't.Tuple[int, *Ts]', "'t.Tuple[*Ts]'", "'int | str' & t.Any", "t.Optional['int | None']", "-'x + y'",
        "'int if x else str' | None", 't.Dict[str, t.Tuple[int, int, int, int, int, int, int, int, int, int, int, int, int, int, int, int, int, int, int]]']


def _layouts(maxn):
    """every layout of up to maxn parameters over the five kinds, with/without default and annotation"""
    kinds = ['po', 'pk', 'va', 'ko', 'vk']
    order = {k: i for i, k in enumerate(kinds)}
    for n in range(0, maxn + 1):
        for ks in itertools.product(kinds, repeat=n):
            if list(ks) != sorted(ks, key=order.get):
                continue
            if ks.count('va') > 1 or ks.count('vk') > 1:
                continue
            for flags in itertools.product([(False, False), (True, False), (False, True), (True, True)], repeat=n):
                ok = True
                seen_default = False
                for k, (d, a) in zip(ks, flags):
                    if k in ('va', 'vk') and d:
                        ok = False
                    if k in ('po', 'pk'):
                        if d:
                            seen_default = True
                        elif seen_default:
                            ok = False          # non-default after default among positional parameters
                if ok:
                    yield list(zip(ks, flags))


def _src(layout, ret, rnd):
    parts = []
    names = iter('abcdefgh')
    po_done = False
    star_done = False
    ks = [k for k, _ in layout]
    for i, (k, (d, a)) in enumerate(layout):
        nm = next(names)
        s = nm
        if a:
            s += ': ' + rnd.choice(ANNS)
        if d:
            s += (' = ' if a else '=') + rnd.choice(DEFAULTS)
        if k == 'va':
            s = '*' + s
            star_done = True
        elif k == 'vk':
            s = '**' + s
        elif k == 'ko' and not star_done:
            parts.append('*')
            star_done = True
        parts.append(s)
        if k == 'po' and (i + 1 == len(layout) or ks[i + 1] != 'po'):
            parts.append('/')
    r = '' if ret is None else f' -> {ret}'
    return f'def f({", ".join(parts)}){r}:\n    pass\n'


def _cases(tier, seed):
    rnd = random.Random(seed)
    maxn = 3 if tier == 'quick' else 4
    for k, lay in enumerate(_layouts(maxn)):
        yield {'src': _src(lay, rnd.choice([None, 'None', 'int', "'C'"]), rnd)}
        # the same layouts as methods, static methods and class methods (a definition in a class body)
        if tier == 'thorough' or k % 3 == seed % 3:
            yield {'src': _src(lay, rnd.choice([None, 'None', 'int', "'C'"]), rnd), 'scope': ('method', 'static', 'classmethod')[k % 3]}
    for _ in range(100 if tier == 'quick' else 2000):
        lays = list(itertools.islice(_layouts(4), 4000))
        a, b = rnd.choice(lays), rnd.choice(lays)
        merged = sorted(a + b, key=lambda kf: ['po', 'pk', 'va', 'ko', 'vk'].index(kf[0]))
        if [k for k, _ in merged].count('va') > 1 or [k for k, _ in merged].count('vk') > 1:
            continue
        # keep positional defaults legal
        seen = False
        ok = True
        for k, (d, _) in merged:
            if k in ('po', 'pk'):
                if d:
                    seen = True
                elif seen:
                    ok = False
        if ok and len(merged) <= 8:
            yield {'src': _src(merged, rnd.choice([None, 'None', 'int']), rnd)}
    yield {'src': 'from typing import overload\n@overload\ndef f(a: int) -> int: ...\n@overload\ndef f(a: str, b=1) -> str: ...\ndef f(a, b=2):\n    pass\n', 'overloads': True}
    for scope in ('method', 'static', 'classmethod'):
        yield {'src': '@overload\ndef f(a: int) -> int: ...\n@overload\ndef f(a: str, b=1) -> str: ...\ndef f(a, b=2):\n    pass\n', 'overloads': True, 'scope': scope}
        yield {'src': '@t.overload\ndef f(a: int) -> int: ...\n@t.overload\ndef f(a: str, b=1) -> str: ...\ndef f(a, b=2):\n    pass\n', 'overloads': True, 'scope': scope}
    # the decorator spelled through the module or an alias of it, the bare name not being imported
    for spelled, imp in (('typing.overload', 'import typing'), ('t.overload', 'import typing as t'), ('typing_extensions.overload', 'import typing_extensions')):
        yield {'src': f'@{spelled}\ndef f(a: int) -> int: ...\n@{spelled}\ndef f(a: str, b=1) -> str: ...\ndef f(a, b=2):\n    pass\n',
               'overloads': True, 'prelude': f'from typing import List, Literal\n{imp}\n'}


def _sig_of_source(src, in_class=False):
    ns = {}
    pre = ('from typing import List, overload, Literal\nimport typing\nimport typing as t\nimport typing_extensions\nimport re\n'
           'class a:\n    class B: pass\n    b = 0\nx = y = 0\nxs = ys = [1, 2, 3]\n')
    exec(pre + src, ns)
    if in_class:
        f = ns['K'].__dict__['f']
        return inspect.signature(getattr(f, '__func__', f))
    return inspect.signature(ns['f'])


def _scoped(src, scope):
    """the definition(s) moved into a class body; static / class methods get their decorator closest to the def"""
    if scope is None:
        return src
    deco = {'method': '', 'static': '@staticmethod\n', 'classmethod': '@classmethod\n'}[scope]
    body = re.sub(r'(?m)^def f\(', deco + 'def f(', src)
    return 'class K:\n' + ''.join('    ' + l + '\n' for l in body.splitlines())


def _describe(sig):
    out = []
    for p in sig.parameters.values():
        out.append((p.name, p.kind.name, p.default is not inspect.Parameter.empty, p.annotation is not inspect.Parameter.empty))
    return out


def _all_args(fdef):
    a = fdef.args
    return a.posonlyargs + a.args + ([a.vararg] if a.vararg else []) + a.kwonlyargs + ([a.kwarg] if a.kwarg else [])


def _unstring(node):
    """expected display of an annotation: string annotations parsed (recursively), except inside Literal[...]"""
    import ast
    if node is None:
        return None

    class U(ast.NodeTransformer):
        def visit_Subscript(self, n):
            head = ast.unparse(n.value)
            if head.split('.')[-1] == 'Literal':
                return n
            return self.generic_visit(n)

        def visit_Constant(self, n):
            if isinstance(n.value, str):
                try:
                    return self.visit(ast.parse(n.value, mode='eval').body)
                except SyntaxError:
                    return n
            return n
    return ast.dump(U().visit(ast.parse(ast.unparse(node), mode='eval').body))


NEUTRAL = (('nbsp', '\xa0', ' '), ('one_tuple', '(1,)', '(1, 2)'), ('float_inf', '1e999', '1.5'))


def _unstring_src(node):
    """source text of the expected display of an annotation-like expression (strings unquoted, not inside Literal)"""
    import ast

    class U(ast.NodeTransformer):
        def visit_Subscript(self, n):
            if ast.unparse(n.value).split('.')[-1] == 'Literal':
                return n
            return self.generic_visit(n)

        def visit_Constant(self, n):
            if isinstance(n.value, str):
                try:
                    return self.visit(ast.parse(n.value, mode='eval').body)
                except SyntaxError:
                    return n
            return n
    return ast.unparse(U().visit(ast.parse(ast.unparse(node), mode='eval').body))


def _check(case):
    """the check proper, plus the recognition of listed findings: a failure carries the flag of a finding only if the source has
    that specific feature and the failure disappears once the feature alone is replaced by something harmless"""
    r = _check0(case)
    if r is None:
        return None
    for flag, feature, harmless in NEUTRAL:
        r[flag] = False
    present = [n for n in NEUTRAL if n[1] in case['src']]
    clean = case['src']
    for flag, feature, harmless in present:
        clean = clean.replace(feature, harmless)
    if present and _check0(dict(case, src=clean)) is None:
        for flag, feature, harmless in present:
            # with only this feature put back the failure is there again
            only = case['src']
            for flag2, feature2, harmless2 in present:
                if flag2 != flag:
                    only = only.replace(feature2, harmless2)
            if len(present) == 1 or _check0(dict(case, src=only)) is not None:
                r[flag] = True
                r['class'] = r.get('class', '') + '+' + flag
    return r


def _check0(case):
    from replay import fixtures
    from pydoctor.templatewriter import pages
    from pydoctor.stanutils import flatten_text
    scope = case.get('scope')
    src = _scoped(case['src'], scope)
    prelude = case.get('prelude', 'from typing import List, overload, Literal\nimport typing as t\nimport typing_extensions\nimport re\n')
    system = fixtures.build_system([('sigmod', prelude + src, False)])
    f = system.allobjects['sigmod.K.f' if scope else 'sigmod.f']
    try:
        want = _sig_of_source(src, bool(scope))
    except SyntaxError:
        return None
    src = case['src']
    got = f.signature
    if got is None:
        return {'observed': 'no signature', 'required': str(want)}
    if _describe(got) != _describe(want):
        return {'observed': f'{src.splitlines()[-2] if case.get("overloads") else src.splitlines()[0]} -> parameters {_describe(got)}',
                'required': f'{_describe(want)}', 'class': 'params'}
    # displayed text, read back as Python
    text = flatten_text(pages.format_signature(f))
    try:
        back = _sig_of_source(f'def f{text}:\n    pass\n')
    except BaseException as ex:   # noqa
        return {'observed': f'{src.splitlines()[0]} is displayed as {text!r}, which does not read back: {type(ex).__name__}',
                'required': 'the displayed signature is Python', 'class': 'unreadable'}
    if _describe(back) != _describe(want):
        return {'observed': f'{src.splitlines()[0]} is displayed as {text!r}', 'required': 'same parameters, kinds, defaults',
                'class': 'display'}
    import ast
    for p in want.parameters.values():
        b = back.parameters[p.name]
        if p.default is not inspect.Parameter.empty and repr(b.default) != repr(p.default):
            return {'observed': f'default of {p.name} displayed in {text!r} evaluates to {b.default!r}', 'required': f'{p.default!r}',
                    'class': 'default-value'}
    # annotations: shown as written, string annotations unquoted (not the arguments of Literal)
    fdef = ast.parse(src).body[-1]
    back_def = ast.parse(f'def f{text}:\n    pass\n').body[0]
    for a_src, a_back in zip(_all_args(fdef), _all_args(back_def)):
        ws, wb = _unstring(a_src.annotation), (ast.dump(a_back.annotation) if a_back.annotation else None)
        if ws != wb:
            return {'observed': f'annotation of {a_src.arg} in {src.splitlines()[0]!r} is displayed as '
                                f'{ast.unparse(a_back.annotation) if a_back.annotation else None!r}',
                    'required': 'the annotation as written (strings unquoted)', 'class': 'annotation'}
    declared_ret = re.search(r'\) -> (.+):', src.splitlines()[0])
    if declared_ret and declared_ret.group(1) == 'None' and '->' in text:
        return {'observed': f'{text!r} shows a -> None return', 'required': 'omitted', 'class': 'return'}
    if declared_ret and declared_ret.group(1) != 'None' and '->' not in text:
        return {'observed': f'{text!r} lost the return annotation', 'required': declared_ret.group(1), 'class': 'return'}
    if case.get('overloads'):
        ov = [flatten_text(pages.format_signature(o)) for o in f.overloads]
        if len(ov) != 2 or 'int' not in ov[0] or 'str' not in ov[1] or 'b' not in ov[1]:
            return {'observed': f'overload signatures {ov}', 'required': 'each overload shows its own signature', 'class': 'overloads'}
    return None


PAGE_MODULE = '''\
from typing import overload, List
import typing as t
from sg import _impl
class Shown:
    "doc"
    DEFAULT = 0
    class Options:
        "doc"
@overload
def f(a: int) -> int: ...
@overload
def f(a: str, b=1) -> str: ...
def f(a, b=2):
    "doc"
def g(x, /, y=(1, 2), *a, k: "int" = None, **kw) -> None:
    "doc"
def h(backend: _impl.Backend = _impl.Backend.DEFAULT, opts: "_impl.Backend.Options" = None, shown: Shown.Options = Shown.DEFAULT) -> _impl.Backend:
    "names that resolve to hidden and to visible objects"
async def co(a, *, b: List[int] = [1]) -> 'Shown':
    "doc"
@overload
def only(a: int) -> int: ...
@overload
def only(a: str, /, *rest: bytes) -> str:
    "declared by overloads alone (a protocol, a stub)"
class K:
    "doc"
    @overload
    def m(self, a: int) -> int: ...
    @overload
    def m(self, a: str, *rest: bytes) -> str: ...
    def m(self, a, *rest):
        "doc"
    @staticmethod
    def s(a=Shown.DEFAULT, /, *, b: _impl.Backend = None): "doc"
    @classmethod
    def c(cls, *args: int, **kw: t.Dict[str, int]) -> 'K': "doc"
    def plain(self): "doc"
    @overload
    def proto(self, a: int) -> int: ...
    @overload
    def proto(self, a: str) -> str: ...
'''
PAGE_IMPL = 'class Backend:\n    "doc"\n    DEFAULT = 1\n    class Options:\n        "doc"\n'


def _page_cases(tier, seed):
    yield {'page': 'default', 'argv': []}
    yield {'page': 'hidden-targets', 'argv': ['--privacy=HIDDEN:sg._impl.Backend']}
    yield {'page': 'hidden-module', 'argv': ['--privacy=HIDDEN:sg._impl']}
    yield {'page': 'readthedocs', 'argv': ['--theme', 'readthedocs', '--privacy=PRIVATE:sg.Shown']}
    if tier == 'thorough':
        yield {'page': 'classic', 'argv': ['--theme', 'classic']}


def _check_pages(case):
    """the signatures as they stand on the written pages (through the templates of the theme), read back as Python and compared with the
    source: one per definition, overloads each with their own, names spelled as written whether or not their target is documented"""
    import ast, html as _html
    from replay import site
    # a module that gets `overload` (and List) through a star import of a module that merely imports them
    via_star = ('from sg._compat import *\n@overload\ndef h2(a: int) -> int: ...\n@overload\ndef h2(a: str, b: List[int] = ()) -> str: ...\ndef h2(a, b=()):\n    "doc"\n'
                'class V:\n    "doc"\n    @overload\n    def m(self, a: int) -> int: ...\n    @overload\n    def m(self, a: str) -> str: ...\n    def m(self, a):\n        "doc"\n')
    files = {'sg/__init__.py': PAGE_MODULE, 'sg/_impl.py': PAGE_IMPL, 'sg/_compat.py': 'from typing import overload, List\n', 'sg/viastar.py': via_star}
    rc, out, d = site.run_project(files, case['argv'])
    try:
        if rc not in (0, 2, 3):
            return {'observed': f'run ended with {rc}', 'required': 'a normal run', 'class': 'abort'}
        tree = ast.parse(PAGE_MODULE)
        written = {}       # qualified name -> list of FunctionDef in source order (overloads first, the implementation last)
        for scope, body in (('sg', tree.body), ('sg.K', next(n for n in tree.body if isinstance(n, ast.ClassDef) and n.name == 'K').body)):
            for st in body:
                if isinstance(st, (ast.FunctionDef, ast.AsyncFunctionDef)):
                    written.setdefault(f'{scope}.{st.name}', []).append(st)
        fails = []
        vtree = ast.parse(via_star)
        for scope, body in (('sg.viastar', vtree.body), ('sg.viastar.V', next(n for n in vtree.body if isinstance(n, ast.ClassDef)).body)):
            for st in body:
                if isinstance(st, (ast.FunctionDef, ast.AsyncFunctionDef)):
                    written.setdefault(f'{scope}.{st.name}', []).append(st)
        for qual, defs in written.items():
            page = {'sg': 'index.html', 'sg.K': 'sg.K.html', 'sg.viastar': 'sg.viastar.html', 'sg.viastar.V': 'sg.viastar.V.html'}[qual.rsplit('.', 1)[0]]
            text = open(os.path.join(d, 'out', page), encoding='utf-8').read()
            m = re.search(r'<a name="%s">.*?<div class="functionHeader">(.*?)<a class="headerLink"' % re.escape(qual), text, re.S)
            if not m:
                fails.append({'observed': f'{qual}: no entry on {page}', 'required': 'documented', 'class': 'page-missing'})
                continue
            shown = [_html.unescape(re.sub(r'<[^>]+>', '', x)) for x in
                     re.findall(r'<span class="py-defname">[^<]*</span><span class="function-signature">(.*?)</span>:', m.group(1), re.S)]
            # an overloaded function shows its overloads, each with its own signature (also when there is no implementation at all)
            is_ov = lambda fd_: any(ast.unparse(x).split('.')[-1] == 'overload' for x in fd_.decorator_list)      # noqa
            want = [fd_ for fd_ in defs if is_ov(fd_)] or defs[-1:]
            if len(shown) != len(want):
                fails.append({'observed': f'{qual}: {len(shown)} signature(s) on the page ({shown}), {len(want)} expected', 'required': 'overloads each show their own signature',
                              'class': 'page-count'})
                continue
            for sig, fd in zip(shown, want):
                try:
                    back = ast.parse(f'def f{sig}:\n    pass\n').body[0]
                except SyntaxError:
                    fails.append({'observed': f'{qual}: displayed {sig!r} is not Python', 'required': 'reads back', 'class': 'page-unreadable'})
                    continue
                exp = ast.parse(ast.unparse(fd)).body[0]
                exp.returns = None if (exp.returns is None or ast.unparse(exp.returns) == 'None') else exp.returns
                for a_ in _all_args(exp) + ([exp] if exp.returns is not None else []):
                    pass
                def norm(fn):
                    parts = []
                    for a_ in _all_args(fn):
                        parts.append((a_.arg, _unstring(a_.annotation)))
                    ar = fn.args
                    parts.append(('defaults', [ast.dump(x) for x in ar.defaults], [ast.dump(x) if x else None for x in ar.kw_defaults]))
                    parts.append(('kinds', len(ar.posonlyargs), len(ar.args), bool(ar.vararg), len(ar.kwonlyargs), bool(ar.kwarg)))
                    parts.append(('returns', _unstring(fn.returns)))
                    return parts
                if norm(back) != norm(exp):
                    fails.append({'observed': f'{qual}: written {ast.unparse(fd).splitlines()[-2] if False else ast.unparse(fd.args)!r} is displayed as {sig!r}',
                                  'required': 'the signature that was written', 'class': 'page-signature:' + case['page']})
        return fails or None
    finally:
        site.cleanup(d)


HARNESS = {
    'pydoctor/templatewriter/pages/__init__.py:format_function_def': {'cases': _page_cases, 'check': _check_pages,
        'covers': ['pydoctor/themes/base/function-child.html', 'pydoctor/templatewriter/pages/__init__.py:format_overloads', 'pydoctor/linker.py:taglink'],
        'bound': 'one module with 9 definitions (overloaded function and method, static/class/async, dotted names that resolve to visible, private and hidden objects) '
                 'x 4 (5) option sets (privacy rules, themes); the signature spans of the written pages read back as Python'},
    f'{A}:ModuleVistor._handleFunctionDef': {'cases': _cases, 'check': _check,
        'covers': [f'{A}:ModuleVistor._annotations_from_function', 'pydoctor/astutils.py:is_none_literal'],
        'budget_s': {'quick': 120, 'thorough': 1200},
        'bound': 'every layout of <= 3 (4) parameters over the five kinds x {default, annotation} (random default/annotation expressions), '
                 '+ 100 (2000) longer random signatures + overloads; oracle: inspect.signature of the executed source, and of the displayed text read back'},
}
