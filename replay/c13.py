"""C13 native harness (bounded): real qnmatch / privacyClass against the documented grammar and precedence."""
from __future__ import annotations
import itertools
import random
from replay.native import check_pure, spec_env, load_contracts
from replay import fixtures
import specs.c13 as S

REG = load_contracts('C13')
ENV = spec_env('specs.c13')
Q = 'pydoctor/qnmatch.py'
M = 'pydoctor/model.py'
PALPHA = ['a', '.', '*', '?', '[', ']', '!', '^', '_']
NALPHA = ['a', '.', '_', ']', '!', '[', '^', '*']


def _pats(maxlen):
    for n in range(0, maxlen + 1):
        for p in itertools.product(PALPHA, repeat=n):
            yield ''.join(p)


def _names(maxlen):
    for n in range(0, maxlen + 1):
        for p in itertools.product(NALPHA, repeat=n):
            yield ''.join(p)


def _translate_cases(tier, seed):
    for p in _pats(4 if tier == 'quick' else 5):
        yield {'pat': p}
    rnd = random.Random(seed)
    for _ in range(500 if tier == 'quick' else 5000):
        yield {'pat': ''.join(rnd.choice(PALPHA + ['b', '-', '\\', 'é', ' ']) for _ in range(rnd.randint(3, 12)))}


def _check_translate(case):
    from pydoctor import qnmatch
    return check_pure(REG.contracts[(Q, 'translate')], qnmatch.translate, case, ENV)


def _match_cases(tier, seed):
    names = list(_names(3))
    for p in _pats(3 if tier == 'quick' else 4):
        yield {'pattern': p, 'names': '*all<=3*'}
    rnd = random.Random(seed + 5)
    for _ in range(200 if tier == 'quick' else 3000):
        p = ''.join(rnd.choice(PALPHA) for _ in range(rnd.randint(1, 7)))
        yield {'pattern': p, 'names': [''.join(rnd.choice(NALPHA) for _ in range(rnd.randint(0, 8))) for _ in range(20)]}


_ALLNAMES = None


def _check_match(case):
    """qnmatch(name, pattern) == the documented glob (this also validates the assumed meaning of the emitted regex
    fragments under Python's re, for every name of the scope)"""
    global _ALLNAMES
    from pydoctor import qnmatch
    if '-' in case['pattern'] or '\\' in case['pattern']:
        return None
    names = case['names']
    if names == '*all<=3*':
        if _ALLNAMES is None:
            _ALLNAMES = list(_names(3))
        names = _ALLNAMES
    toks = S._tokens(case['pattern'])
    for nm in names:
        got = qnmatch.qnmatch(nm, case['pattern'])
        want = S._match(toks, nm)
        if got != want:
            return {'observed': f'qnmatch({nm!r}, {case["pattern"]!r}) = {got}', 'required': f'documented grammar says {want}'}
    return None


# ---- privacy precedence on real objects ------------------------------------------------------------------
_MODS = [
    ('pkg', '', True),
    ('pkg.mod', 'class C:\n    def m(self): pass\n    def _p(self): pass\n    def __d__(self): pass\n_v = 1\ndef f(): pass\n', False),
    ('pkg._priv', 'x = 1\n', False),
    ('pkg.__main__', 'y = 1\n', False),
]
_PATS = ['pkg.mod.C', 'pkg.mod.C.m', 'pkg.mod.*', 'pkg.**', '**', '**._*', 'pkg.mod.C._p', '*.mod', 'pkg.mod.C.*',
         'pkg.__main__', 'pkg._priv', '**.__*__', 'nomatch']
_PRIVS = ['HIDDEN', 'PRIVATE', 'PUBLIC']


def _rule_cases(tier, seed):
    yield {'rules': []}
    rules = [(p, pat) for pat in _PATS for p in _PRIVS]
    for r in rules:
        yield {'rules': [r]}
    rnd = random.Random(seed + 7)
    for _ in range(150 if tier == 'quick' else 2000):
        yield {'rules': [rnd.choice(rules) for _ in range(rnd.randint(2, 4))]}
    if tier != 'quick':
        for a, b in itertools.product(rules, repeat=2):
            yield {'rules': [a, b]}


def _check_privacy(case):
    from pydoctor import model
    rules = [tuple(r) for r in case['rules']]
    system = fixtures.build_system(_MODS, rules)
    prules = list(system.options.privacy)
    fails = []
    for full in sorted(system.allobjects):
        ob = system.allobjects[full]
        for attempt in (1, 2):          # second query goes through the cache
            got = ob.privacyClass
            want = S.priv_spec(full, ob.name, ob.kind is None, prules)
            if got is not want:
                fails.append({'observed': f'{full}: privacyClass = {got.name} (query {attempt})',
                              'required': f'documented precedence gives {want.name} for rules {rules}',
                              'object': full, 'name': ob.name, 'module_name': ob.module.name, 'class': 'privacy:' + ob.name})
                break
        vis = ob.isVisible
        wantvis = all(S.priv_spec(a.fullName(), a.name, a.kind is None, prules) is not model.PrivacyClass.HIDDEN
                      for a in _ancestors(ob))
        if vis != wantvis:
            fails.append({'observed': f'{full}: isVisible = {vis}', 'required': f'{wantvis} (hidden containers hide their members)',
                          'object': full, 'name': ob.name, 'module_name': ob.module.name, 'class': 'visible:' + ob.name})
    return fails or None


def _ancestors(o):
    while o is not None:
        yield o
        o = o.parent


def _tuple_cases(tier, seed):
    for v in ['public:a.*', 'HIDDEN:x', ' private : p.q ', 'Private:**', 'bogus:x', 'nocolon', 'a:b:c', ':x', 'hidden:',
              'PUBLIC:a b', 'hIdDeN:[!a]', 'visible:x']:
        yield {'value': v}


def _check_tuple(case):
    from pydoctor import utils, model
    import io, contextlib
    v = case['value']
    parts = v.split(':')
    want = None
    if len(parts) == 2 and parts[0].strip().upper() in model.PrivacyClass.__members__:
        want = (model.PrivacyClass[parts[0].strip().upper()], parts[1].strip())
    try:
        with contextlib.redirect_stdout(io.StringIO()), contextlib.redirect_stderr(io.StringIO()):
            got = utils.parse_privacy_tuple(v, '--privacy')
    except SystemExit:
        got = None
    except BaseException as ex:  # noqa
        return {'observed': f'raised {type(ex).__name__}', 'required': 'a (privacy, pattern) tuple or SystemExit'}
    if got != want:
        return {'observed': f'{got!r}', 'required': f'{want!r}'}
    return None


def _optrule_cases(tier, seed):
    rules = [f'{p}:{pat}' for pat in ('pkg.mod.*', '**._*', 'pkg.mod.C', 'pkg.**') for p in ('PUBLIC', 'hidden', 'Private')]
    for r in rules[:4]:
        yield {'argv': [r]}
    for a, b in itertools.product(rules[:6], repeat=2):
        yield {'argv': [a, b]}
    rnd = random.Random(seed + 9)
    for _ in range(60 if tier == 'quick' else 600):
        n = rnd.randint(3, 5)
        base = [rnd.choice(rules) for _ in range(n)]
        if rnd.random() < 0.6:
            base.append(base[0])          # the same rule given again later (config file + command line)
        yield {'argv': base}


def _check_optrules(case):
    """--privacy options reach the system as the same rules in the same order (the precedence depends on it)"""
    from pydoctor import options, model
    import io, contextlib
    argv = [f'--privacy={r}' for r in case['argv']]
    with contextlib.redirect_stdout(io.StringIO()), contextlib.redirect_stderr(io.StringIO()):
        try:
            o = options.Options.from_args(argv)
        except SystemExit as ex:
            return {'observed': f'SystemExit({ex.code}) for {argv}', 'required': 'accepted'}
    want = [(model.PrivacyClass[r.split(':')[0].strip().upper()], r.split(':')[1].strip()) for r in case['argv']]
    if list(o.privacy) != want:
        return {'observed': f'options.privacy = {[(p.name, m) for p, m in o.privacy]}',
                'required': f'{[(p.name, m) for p, m in want]}: every rule, in the order given', 'class': 'option-order'}
    return None


HARNESS = {
    f'{Q}:translate': {'cases': _translate_cases, 'check': _check_translate,
        'bound': 'all patterns of length <= 4 (5) over 9 characters + 500 (5000) random longer ones'},
    f'{Q}:qnmatch': {'cases': _match_cases, 'check': _check_match,
        'bound': 'all patterns <= 3 (4) x all names <= 3 over 8 characters + random longer pairs; patterns with - or \\\\ excluded (outside the documented grammar)'},
    f'{M}:System.privacyClass': {'cases': _rule_cases, 'check': _check_privacy,
        'covers': [f'{M}:Documentable.privacyClass', f'{M}:Module.privacyClass', f'{M}:Documentable.isVisible',
                   f'{M}:Documentable.isPrivate'],
        'bound': 'every object of a 4-module fixture x all single rules (13 patterns x 3 levels) + 150 (2000 + all pairs) rule lists; each queried twice (cache)'},
    'pydoctor/options.py:_convert_privacy': {'cases': _optrule_cases, 'check': _check_optrules,
        'bound': 'all pairs of 6 rules, 4 single rules, 60 (600) random lists of 3..6 rules with repetitions, through Options.from_args'},
    'pydoctor/utils.py:parse_privacy_tuple': {'cases': _tuple_cases, 'check': _check_tuple, 'bound': '12 hand-picked option values'},
}
