"""C20 native harness (bounded): the same option through the command line and through each config file format."""
from __future__ import annotations
import contextlib
import io
import itertools
import os
import random
import shutil
import tempfile
import warnings

O = 'pydoctor/options.py'
CP = 'pydoctor/_configparser.py'
STR_VALUES = ['simple', 'with space', "it's", 'say "hi"', 'a,b', '[not a list', 'tab\there', 'trailing  ', '  leading', '#hash', 'per%cent',
              'back\\slash', 'uni\u00e9', '=', 'k=v', "'quoted'", '"dq"', 'semi;colon', '']


def _options():
    """(dest, flag, kind) for every option of the real parser that can live in a config file"""
    from pydoctor import options
    p = options.get_parser()
    out = []
    for a in p._actions:
        if not a.option_strings or a.dest in ('help', 'config', 'version'):
            continue
        long = [o for o in a.option_strings if o.startswith('--')]
        flag = long[0]
        kind = type(a).__name__
        out.append((a.dest, flag, kind, a.type, a.choices))
    return out


def _value_for(dest, kind, typ, choices, rnd, adversarial):
    if kind in ('_StoreTrueAction', '_StoreFalseAction'):
        return True
    if kind == '_CountAction':
        return rnd.randint(1, 3)
    if typ is int:
        return rnd.randint(1, 9)
    if choices:
        return rnd.choice(list(choices))
    base = {'privacy': 'HIDDEN:pkg.mod.*', 'htmlwriter': 'pydoctor.templatewriter.TemplateWriter',
            'systemclass': 'pydoctor.model.System', 'intersphinx_cache_max_age': '2d'}.get(dest)
    if base:
        return [base, 'PUBLIC:pkg.**'] if dest == 'privacy' else base
    if kind == '_AppendAction':
        if not adversarial and rnd.random() < 0.7:
            return ['zeta', 'alpha', 'mid']          # deliberately not in sorted order
        return [rnd.choice(STR_VALUES[:8]) or 'x', rnd.choice(STR_VALUES[:8]) or 'y', 'third']
    v = rnd.choice(STR_VALUES if adversarial else STR_VALUES[:3])
    return v or 'nonempty'


def _cases(tier, seed):
    rnd = random.Random(seed)
    opts = _options()
    for (dest, flag, kind, typ, choices) in opts:
        # (options whose help is suppressed - --add-package, --add-module, the deprecated cache switch - are options like any other)
        for adversarial in ((False, True) if kind == '_StoreAction' and typ is None and not choices else (False,)):
            reps = 1 if not adversarial else (3 if tier == 'quick' else 12)
            for _ in range(reps):
                val = _value_for(dest, kind, typ, choices, rnd, adversarial)
                for fmt in ('toml', 'setupcfg', 'ini'):
                    yield {'dest': dest, 'flag': flag, 'kind': kind, 'value': val, 'fmt': fmt}
                # the same TOML document written differently: a trailing comment; a literal ('...') string
                yield {'dest': dest, 'flag': flag, 'kind': kind, 'value': val, 'fmt': 'toml', 'toml_style': 'comment'}
                if isinstance(val, str) and "'" not in val and '\n' not in val and '\t' not in val and val.isprintable():
                    yield {'dest': dest, 'flag': flag, 'kind': kind, 'value': val, 'fmt': 'toml', 'toml_style': 'literal'}
    yield {'dest': 'projectname', 'flag': '--project-name', 'kind': '_StoreAction', 'value': 'C:\\new\\tmp\\cache', 'fmt': 'toml', 'toml_style': 'literal'}
    # repeatable options written one value per line, with values that contain blanks
    for (dest, flag, kind, typ, choices) in opts:
        if kind == '_AppendAction' and dest not in ('privacy',) and typ is None and not choices:
            for fmt in ('setupcfg', 'ini'):
                yield {'dest': dest, 'flag': flag, 'kind': kind, 'value': ['My Documents/custom templates', 'plain', 'vendored libs/other pack'], 'fmt': fmt}
            # ... and written as a list / array with blanks at the ends of the quoted values
            for fmt in ('toml', 'setupcfg', 'ini'):
                yield {'dest': dest, 'flag': flag, 'kind': kind, 'value': [' lead', 'trail ', ' both ', 'in side'], 'fmt': fmt}
    # unknown key, CLI override, accumulation
    yield {'special': 'ini-rules-in-pydoctor-ini', 'text': "project-name = 'tab\\there'", 'want': 'tab\there'}
    yield {'special': 'ini-rules-in-pydoctor-ini', 'text': 'project-name = 100%%', 'want': '100%'}
    # TOML scalars that are not strings: the same text on the command line means the same thing
    for text, flag, dest, cli in (('project-version = 2.5', '--project-version', 'projectversion', '2.5'), ('project-name = 0.5', '--project-name', 'projectname', '0.5'),
                                  ('project-version = 1979-05-27', '--project-version', 'projectversion', '1979-05-27'), ('project-name = 1e3', '--project-name', 'projectname', '1000.0'),
                                  ('verbose = 2', '--verbose', 'verbosity', None), ('project-name = -7', '--project-name', 'projectname', '-7')):
        yield {'special': 'toml-scalar', 'text': text, 'flag': flag, 'dest': dest, 'cli': cli}
    # unknown keys whose value is a table (a dotted-key typo, an inline table, a sub-table) are unknown keys like any other
    for text, key in (('html.output = "docs/api"', 'html'), ('sidebar = { expand-depth = 3 }', 'sidebar'), ('project-name = "named"\n[tool.pydoctor.sidebar]\nexpand-depth = 3', 'sidebar'),
                      ('plain-unknown = 1', 'plain-unknown')):
        yield {'special': 'toml-unknown-table', 'text': text, 'key': key}
    # configargparse also accepts the option spelled with its dashes as a key
    for fmt in ('toml', 'setupcfg', 'ini'):
        yield {'special': 'dashed-key', 'fmt': fmt}
    # keys are case-sensitive in TOML: a key that differs from an option only by case is an unknown key
    for k in ('Project-Name', 'DOCFORMAT', 'Warnings-As-Errors'):
        yield {'special': 'unknown-key', 'fmt': 'toml', 'key': k}
    for flags in ([], ['--testing'], ['--make-intersphinx'], ['--testing', '--make-intersphinx'], ['--make-html'],
                  ['--make-html', '--testing']):
        yield {'special': 'makehtml-default', 'flags': flags}
    for fmt in ('toml', 'setupcfg', 'ini'):
        yield {'special': 'unknown-key', 'fmt': fmt}
        # near misses of real option names are unknown keys like any other
        for k in ('project_name', 'html_output', 'pyval_repr_maxlines', 'projectname', 'project-nam', 'project-name-'):
            yield {'special': 'unknown-key', 'fmt': fmt, 'key': k}
        yield {'special': 'cli-overrides', 'fmt': fmt}
        yield {'special': 'accumulate', 'fmt': fmt}


def _toml_val(v):
    if isinstance(v, bool):
        return 'true' if v else 'false'
    if isinstance(v, int):
        return str(v)
    if isinstance(v, list):
        return '[' + ', '.join(_toml_val(x) for x in v) + ']'
    return '"' + v.replace('\\', '\\\\').replace('"', '\\"').replace('\t', '\\t') + '"'


def _ini_val(v):
    if isinstance(v, bool):
        return 'true' if v else 'false'
    if isinstance(v, int):
        return str(v)
    if isinstance(v, list):
        if any(_needs_quote(x) for x in v):
            return '[' + ', '.join(_dq(x) for x in v) + ']'          # documented list-literal syntax
        return '\n    ' + '\n    '.join(v)                             # documented one-value-per-line syntax
    return _dq(v) if _needs_quote(v) else v


def _ini_escape(text, fmt):
    """configparser's own escaping rule: a literal percent sign is written %% (files with a [tool:pydoctor]
    section are not valid TOML, so the INI reader, with interpolation, is the one that reads them)"""
    return text.replace('%', '%%') if fmt == 'setupcfg' else text


def _dq(s):
    """double-quoted with the escapes Python and TOML share"""
    return '"' + s.replace('\\', '\\\\').replace('"', '\\"').replace('\t', '\\t').replace('\n', '\\n') + '"'


def _needs_quote(s):
    return s != s.strip() or s == '' or s.startswith(('[', '"', "'", '#', ';')) or '\n' in s or '\t' in s or '%' in s


def _write(d, fmt, items, style=None):
    key = lambda f: f.lstrip('-')    # noqa
    if fmt == 'toml':
        def tv(v):
            if style == 'literal' and isinstance(v, str):
                return "'" + v + "'"
            return _toml_val(v) + ('   # a comment' if style == 'comment' else '')
        body = '[tool.pydoctor]\n' + ''.join(f'{key(f)} = {tv(v)}\n' for f, v in items)
        name = 'pyproject.toml'
    else:
        sec = 'tool:pydoctor' if fmt == 'setupcfg' else 'pydoctor'
        body = f'[{sec}]\n' + ''.join(f'{key(f)} = {_ini_escape(_ini_val(v), fmt)}\n' for f, v in items)
        name = 'setup.cfg' if fmt == 'setupcfg' else 'pydoctor.ini'
    with open(os.path.join(d, name), 'w', encoding='utf-8') as fh:
        fh.write(body)


def _argv(flag, kind, v):
    if kind in ('_StoreTrueAction', '_StoreFalseAction'):
        return [flag]
    if kind == '_CountAction':
        return [flag] * v
    if isinstance(v, list):
        out = []
        for x in v:
            out += [f'{flag}={x}']
        return out
    return [f'{flag}={v}']


def _from_args(argv, cwd):
    from pydoctor import options
    old = os.getcwd()
    os.chdir(cwd)
    try:
        with warnings.catch_warnings(record=True) as w, contextlib.redirect_stderr(io.StringIO()), contextlib.redirect_stdout(io.StringIO()):
            warnings.simplefilter('always')
            try:
                o = options.Options.from_args(argv)
            except SystemExit as ex:
                return ('SystemExit', ex.code), w
        return o, w
    finally:
        os.chdir(old)


def _cmp(o):
    import attr
    d = attr.asdict(o, recurse=False)
    return {k: (str(v) if not isinstance(v, (int, bool, str, list, type(None))) else v) for k, v in d.items()}


def _check(case):
    d1 = tempfile.mkdtemp(prefix='c20f.', dir='/var/tmp')
    d2 = tempfile.mkdtemp(prefix='c20c.', dir='/var/tmp')
    try:
        if case.get('special') == 'ini-rules-in-pydoctor-ini':
            # a value written by the documented INI rules (quoted escapes, %%) in pydoctor.ini
            with open(os.path.join(d1, 'pydoctor.ini'), 'w') as fh:
                fh.write('[pydoctor]\n' + case['text'] + '\n')
            o, _ = _from_args([], d1)
            got = o if isinstance(o, tuple) else o.projectname
            if got != case['want']:
                return {'observed': f'pydoctor.ini line {case["text"]!r} is read as {got!r}', 'required': f'{case["want"]!r} (INI rules)',
                        'class': 'ini-as-toml', 'ini_as_toml': True}
            return None
        if case.get('special') == 'dashed-key':
            sec = {'toml': '[tool.pydoctor]', 'setupcfg': '[tool:pydoctor]', 'ini': '[pydoctor]'}[case['fmt']]
            name = {'toml': 'pyproject.toml', 'setupcfg': 'setup.cfg', 'ini': 'pydoctor.ini'}[case['fmt']]
            q = '"' if case['fmt'] == 'toml' else ''
            with open(os.path.join(d1, name), 'w') as fh:
                fh.write(f'{sec}\n--project-name = {q}named{q}\n--docformat = {q}restructuredtext{q}\n')
            o, w = _from_args([], d1)
            if isinstance(o, tuple) or o.projectname != 'named' or o.docformat != 'restructuredtext' or any('No such config option' in str(x.message) for x in w):
                return {'observed': f'keys spelled --project-name / --docformat in {name}: ' + (str(o) if isinstance(o, tuple) else f'projectname={o.projectname!r} docformat={o.docformat!r}, warnings {[str(x.message)[:50] for x in w]}'),
                        'required': "as on the command line: projectname='named', docformat='restructuredtext', no warning", 'class': 'dashed-key'}
            return None
        if case.get('special') == 'toml-unknown-table':
            with open(os.path.join(d1, 'pyproject.toml'), 'w') as fh:
                fh.write('[tool.pydoctor]\n' + case['text'] + '\n')
            o, w = _from_args([], d1)
            if isinstance(o, tuple):
                return {'observed': f'pyproject.toml with {case["text"]!r} aborted: {o}', 'required': 'warned about, not aborting', 'class': 'toml-table-abort'}
            if not any(case['key'] in str(x.message) for x in w):
                return {'observed': f'no warning for the unknown key {case["key"]!r} ({case["text"]!r}); warnings: {[str(x.message)[:60] for x in w]}', 'required': 'a warning',
                        'class': 'toml-table-silent'}
            return None
        if case.get('special') == 'toml-scalar':
            with open(os.path.join(d1, 'pyproject.toml'), 'w') as fh:
                fh.write('[tool.pydoctor]\n' + case['text'] + '\n')
            o, _ = _from_args([], d1)
            if case['cli'] is None:
                o2, _ = _from_args(['-vv'], d2)
            else:
                o2, _ = _from_args([f'{case["flag"]}={case["cli"]}'], d2)
            g1 = o if isinstance(o, tuple) else getattr(o, case['dest'])
            g2 = o2 if isinstance(o2, tuple) else getattr(o2, case['dest'])
            if g1 != g2:
                return {'observed': f'pyproject.toml line {case["text"]!r} gives {case["dest"]}={g1!r}', 'required': f'{g2!r}, as on the command line', 'class': 'toml-scalar'}
            return None
        if case.get('special') == 'makehtml-default':
            o, _ = _from_args(case['flags'], d1)
            want = True if '--make-html' in case['flags'] else not ('--testing' in case['flags'] or '--make-intersphinx' in case['flags'])
            if isinstance(o, tuple) or o.makehtml != want:
                return {'observed': f'{case["flags"]} -> makehtml={o if isinstance(o, tuple) else o.makehtml}',
                        'required': f'{want} (HTML is made unless only testing / only the inventory is asked for)', 'class': 'makehtml'}
            return None
        if case.get('special') == 'unknown-key':
            uk = case.get('key', 'no-such-option')
            _write(d1, case['fmt'], [('--' + uk, 'x'), ('--project-name', 'named')])
            o, w = _from_args([], d1)
            if isinstance(o, tuple):
                return {'observed': f'unknown key {uk!r} aborted the run: {o}', 'required': 'warned about, not aborting', 'class': 'unknown-key-abort'}
            if not any(uk in str(x.message) for x in w):
                return {'observed': f'no warning for the unknown key {uk!r}', 'required': 'a warning', 'class': 'unknown-key-silent'}
            if o.projectname != 'named' or hasattr(o, 'no_such_option'):
                return {'observed': f'projectname={o.projectname!r}', 'required': 'known keys applied, unknown key not applied'}
            return None
        if case.get('special') == 'cli-overrides':
            _write(d1, case['fmt'], [('--project-name', 'fromfile'), ('--docformat', 'restructuredtext')])
            o, _ = _from_args(['--project-name=fromcli'], d1)
            if isinstance(o, tuple) or o.projectname != 'fromcli' or o.docformat != 'restructuredtext':
                return {'observed': f'{o if isinstance(o, tuple) else (o.projectname, o.docformat)}',
                        'required': "('fromcli', 'restructuredtext'): the command line overrides the file"}
            return None
        if case.get('special') == 'accumulate':
            _write(d1, case['fmt'], [('--intersphinx', ['http://a/objects.inv', 'http://b/objects.inv', 'http://c/objects.inv'])])
            o, _ = _from_args([], d1)
            o2, _ = _from_args(['--intersphinx=http://a/objects.inv', '--intersphinx=http://b/objects.inv', '--intersphinx=http://c/objects.inv'], d2)
            if isinstance(o2, tuple):
                return None
            if isinstance(o, tuple) or o.intersphinx != o2.intersphinx:
                return {'observed': f'{o if isinstance(o, tuple) else o.intersphinx}', 'required': f'{o2.intersphinx}: repeated options accumulate in order'}
            return None
        _write(d1, case['fmt'], [(case['flag'], case['value'])], case.get('toml_style'))
        of, wf = _from_args([], d1)
        for f in os.listdir(d1):
            os.unlink(os.path.join(d1, f))
        oc, _ = _from_args(_argv(case['flag'], case['kind'], case['value']), d1)      # same directory, no config file
        if isinstance(of, tuple) or isinstance(oc, tuple):
            if isinstance(of, tuple) != isinstance(oc, tuple):
                return {'observed': f'{case["flag"]}={case["value"]!r} in {case["fmt"]}: file -> {of if isinstance(of, tuple) else "ok"}, command line -> {oc if isinstance(oc, tuple) else "ok"}',
                        'required': 'the same effective configuration', 'class': 'abort:' + case['dest']}
            return None
        a, b = _cmp(of), _cmp(oc)
        diff = {k: (a[k], b[k]) for k in a if a[k] != b[k]}
        if diff:
            return {'observed': f'{case["flag"]}={case["value"]!r} in {case["fmt"]}: file vs command line differ: {diff}',
                    'required': 'the same effective configuration', 'class': 'differs:' + case['dest'] + ':' + case['fmt']}
        return None
    finally:
        shutil.rmtree(d1, ignore_errors=True)
        shutil.rmtree(d2, ignore_errors=True)


def _quote_cases(tier, seed):
    alpha = ['a', ' ', "'", '"', '\\', '\n', '\t', '#', '[', ']', ',']
    maxn = 3 if tier == 'quick' else 4
    for n in range(0, maxn + 1):
        for c in itertools.product(alpha, repeat=n):
            yield {'s': ''.join(c)}
    for s in STR_VALUES + ['"""', "'''", "''''", '\\"', "\\'", '\\\\', 'a\\', "x'''y", 'multi\nline\ntext']:
        yield {'s': s}


def _check_quote(case):
    """what is written quoted is read back as the same text"""
    from pydoctor import _configparser as cp
    s = case['s']
    for q in (repr(s), '"' + s.replace('\\', '\\\\').replace('"', '\\"').replace('\n', '\\n').replace('\t', '\\t') + '"'):
        if not cp.is_quoted(q):
            return {'observed': f'is_quoted({q!r}) is False', 'required': 'every quoted string is recognised as quoted', 'class': 'not-quoted'}
        try:
            got = cp.unquote_str(q)
        except BaseException as ex:   # noqa
            return {'observed': f'unquote_str({q!r}) raised {type(ex).__name__}', 'required': f'{s!r}', 'class': 'raise'}
        if got != s:
            return {'observed': f'unquote_str({q!r}) = {got!r}', 'required': f'{s!r}', 'class': 'changed'}
    # the same text between triple quotes (quotes and backslashes escaped, line feeds as they are)
    for qq in ("'''", '"""'):
        q = qq + s.replace('\\', '\\\\').replace(qq[0], '\\' + qq[0]) + qq
        if not cp.is_quoted(q):
            return {'observed': f'is_quoted({q!r}) is False', 'required': 'every quoted string is recognised as quoted', 'class': 'not-quoted-triple'}
        try:
            got = cp.unquote_str(q)
        except BaseException as ex:   # noqa
            return {'observed': f'unquote_str({q!r}) raised {type(ex).__name__}', 'required': f'{s!r}', 'class': 'raise-triple'}
        if got != s:
            return {'observed': f'unquote_str({q!r}) = {got!r}', 'required': f'{s!r}', 'class': 'changed-triple'}
    # unquoted text is left alone
    if not (s[:1] in ('"', "'") and s[-1:] == s[:1] and len(s) > 1):
        if not cp.is_quoted(s) and cp.unquote_str(s) != s:
            return {'observed': f'unquote_str({s!r}) = {cp.unquote_str(s)!r}', 'required': 'unchanged', 'class': 'unquoted-changed'}
    return None


HARNESS = {
    f'{O}:Options.from_args': {'cases': _cases, 'check': _check,
        'covers': [f'{CP}:ValidatorParser.parse', f'{CP}:TomlConfigParser.parse', f'{CP}:IniConfigParser.parse',
                   f'{CP}:CompositeConfigParser.parse', f'{O}:Options.from_namespace'],
        'budget_s': {'quick': 120, 'thorough': 900},
        'bound': 'every option of the real argument parser x a representative value (adversarial strings for free-text options) x '
                 '{pyproject.toml, setup.cfg, pydoctor.ini}, file vs command line; unknown key, override, accumulation'},
    f'{CP}:unquote_str': {'cases': _quote_cases, 'check': _check_quote, 'covers': [f'{CP}:is_quoted', 'lemma.quoting'],
        'bound': 'all strings of length <= 3 (4) over an 11-character quoting-relevant alphabet, repr- and double-quoted'},
}
