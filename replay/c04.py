"""C04 native harness (bounded): a name resolves to what Python would bind it to, or not at all.

One case = one generated acyclic multi-package project in which every definition has a globally unique name and each name is
bound once per scope.  The project is (1) imported by CPython in a subprocess, which reports for every module and class namespace
what each bound name denotes (defining module + qualified name for classes/functions, module name for modules), also through one
level of attribute access on names bound to modules; (2) analysed by pydoctor, whose resolveName() is asked for the same names in
the same scopes.  Whenever pydoctor resolves a name to a documented object it must be the object CPython reports; a name imported
directly from the defining module, or reached through a module alias, must resolve."""
from __future__ import annotations
import json
import os
import random
import re
import shutil
import subprocess
import sys
import tempfile

A = 'pydoctor/astbuilder.py'
M = 'pydoctor/model.py'

ORACLE = r'''
import importlib, inspect, json, sys, types
root, mods = sys.argv[1], json.loads(sys.argv[2])
sys.path.insert(0, root)
project_roots = {m.split('.')[0] for m in mods}
out = {}
import os
def ident(v):
    """identity of a project object, independent of the names it goes by: source file (and first line)"""
    try:
        if isinstance(v, types.ModuleType):
            f = getattr(v, '__file__', None)
            return os.path.relpath(f, root) if f and v.__name__.split('.')[0] in project_roots else None
        if inspect.isclass(v) or inspect.isfunction(v):
            m = getattr(v, '__module__', None)
            if m and m.split('.')[0] in project_roots:
                return os.path.relpath(inspect.getsourcefile(v), root) + ':' + str(inspect.getsourcelines(v)[1])
    except (OSError, TypeError):
        return None
    return None
def scan(ns_name, ns, is_class):
    d = {}
    for k, v in list(vars(ns).items()):
        if k.startswith('__'):
            continue
        t = ident(v)
        if t is not None:
            d[k] = t
            # dotted access through names bound to modules and classes, up to three more parts
            def deeper(prefix, obj, depth):
                if depth == 0 or not (isinstance(obj, types.ModuleType) or inspect.isclass(obj)):
                    return
                members = dict(vars(obj))
                if inspect.isclass(obj):
                    # attribute access on a class also finds what it inherits (lookup along its MRO)
                    members = {}
                    for klass in reversed(obj.__mro__):
                        if klass is not object:
                            members.update(vars(klass))
                for k2, v2 in list(members.items()):
                    if not k2.startswith('__'):
                        t2 = ident(v2)
                        if t2 is not None:
                            d[prefix + '.' + k2] = t2
                            deeper(prefix + '.' + k2, v2, depth - 1)
            deeper(k, v, 3)
        if inspect.isclass(v) and getattr(v, '__module__', None) == (ns.__name__ if not is_class else ns.__module__) \
                and v.__qualname__ == ((ns.__qualname__ + '.' if is_class else '') + k):
            scan(ns_name + '.' + k, v, True)
    out[ns_name] = d
for m in mods:
    mod = importlib.import_module(m)
for m in mods:
    scan(m, sys.modules[m], False)
print(json.dumps(out))
'''


def _project(seed):
    """-> {relpath: text}, list of module names in import order"""
    rnd = random.Random(seed)
    files = {}
    mods = []              # (dotted name, is_package)
    defs = {}              # module -> list of (kind, name) defined there
    star_all = {}          # module -> names listed in its __all__ (only own definitions)
    uid = [0]

    def fresh(prefix):
        uid[0] += 1
        return f'{prefix}{uid[0]}'
    npk = rnd.randint(1, 3)
    layout = []
    for p in range(npk):
        pk = f'pk{p}'
        layout.append((pk, True))
        for _ in range(rnd.randint(1, 3)):
            layout.append((f'{pk}.{fresh("m")}', False))
        if rnd.random() < 0.6:
            sub = f'{pk}.{fresh("sub")}'
            layout.append((sub, True))
            for _ in range(rnd.randint(1, 2)):
                layout.append((f'{sub}.{fresh("m")}', False))
    if rnd.random() < 0.5:
        layout.append((fresh('top'), False))
    # definition order = import order: a module only imports from modules earlier in the list (acyclic); packages' __init__ come
    # first in their package so that importing a submodule never re-enters a half-initialised module that is needed
    order = [m for m in layout]
    texts = {}
    for idx, (name, is_pkg) in enumerate(order):
        lines = []
        earlier = [(n, p) for (n, p) in order[:idx] if defs.get(n) and not name.startswith(n + '.')]
        bound = set()
        for _ in range(rnd.randint(0, 4) if earlier else 0):
            src, _p = rnd.choice(earlier)
            kind, obj = rnd.choice(defs[src])
            style = rnd.choice(['from', 'from_as', 'import', 'import_as', 'relative', 'star', 'class_scope', 'alias_assign', 'guarded'])
            parts = src.split('.')
            if style == 'from' and obj not in bound:
                lines.append(f'from {src} import {obj}')
                bound.add(obj)
            elif style == 'from_as':
                a = fresh('al')
                lines.append(f'from {src} import {obj} as {a}')
                bound.add(a)
            elif style == 'import' and parts[0] not in bound:
                lines.append(f'import {src}')
                bound.add(parts[0])
            elif style == 'import_as':
                a = fresh('md')
                lines.append(f'import {src} as {a}')
                bound.add(a)
            elif style == 'relative':
                # a sibling or cousin reached with dots, when the two modules share a package
                me = name.split('.') if is_pkg else name.split('.')[:-1]
                common = 0
                while common < len(me) and common < len(parts) - 1 and me[common] == parts[common]:
                    common += 1
                if me and common > 0:
                    dots = '.' * (len(me) - common + 1)
                    rest = '.'.join(parts[common:])
                    a = fresh('rl')
                    if rnd.random() < 0.5 and len(parts) - common >= 1:
                        lines.append(f'from {dots}{rest} import {obj} as {a}')
                    else:
                        tail = parts[common:]
                        lines.append(f'from {dots}{".".join(tail[:-1])} import {tail[-1]} as {a}')
                    bound.add(a)
            elif style == 'star' and not any(l.endswith('import *') for l in lines):
                names = star_all[src] if src in star_all else [o for (_k, o) in defs[src]]
                if not (set(names) & bound):
                    lines.append(f'from {src} import *')
                    bound.update(names)
            elif style == 'class_scope':
                c = fresh('Holder')
                a = fresh('ci')
                body = f'class {c}:\n    from {src} import {obj} as {a}\n    class {fresh("Inner")}:\n        pass'
                if rnd.random() < 0.6:
                    # the class body binds a name the module binds too (once per scope each), and aliases it by assignment:
                    # the right-hand side is looked up in the class body first
                    src2, _p2 = rnd.choice(earlier)
                    kind2, obj2 = rnd.choice(defs[src2])
                    sh = fresh('sh')
                    if (src2, obj2) != (src, obj) and sh not in bound:
                        lines.append(f'from {src2} import {obj2} as {sh}')
                        bound.add(sh)
                        body += f'\n    from {src} import {obj} as {sh}\n    {fresh("via")} = {sh}'
                        # ... and an alias assignment in the class body under a name that the module binds to something else
                        mo = fresh('mo')
                        lines.append(f'from {src2} import {obj2} as {mo}')
                        bound.add(mo)
                        body += f'\n    {mo} = {a}'
                lines.append(body)
                defs.setdefault(name, []).append(('class', c))
            elif style == 'guarded':
                # executed on import / not executed on import (the names gm<N> are never bound)
                a, b = fresh('gd'), fresh('gm')
                if rnd.random() < 0.5:
                    lines.append(f"if __name__ != '__main__':\n    from {src} import {obj} as {a}\nelse:\n    from {src} import {obj} as {b}")
                else:
                    lines.append(f"if __name__ == '__main__':\n    from {src} import {obj} as {b}\nif '__main__' != __name__:\n    from {src} import {obj} as {a}")
                bound.add(a)
            elif style == 'alias_assign':
                a = fresh('md')
                b = fresh('as')
                lines.append(f'import {src} as {a}\n{b} = {a}')
                bound.update((a, b))
        mine = []
        for _ in range(rnd.randint(1, 3)):
            if rnd.random() < 0.6:
                c = fresh('C')
                body = [f'class {c}:']
                if rnd.random() < 0.5:
                    n = fresh('N')
                    body.append(f'    class {n}:\n        def {fresh("meth")}(self): pass')
                body.append(f'    def {fresh("meth")}(self): pass')
                lines.append('\n'.join(body))
                mine.append(('class', c))
            else:
                f = fresh('f')
                lines.append(f'def {f}(): pass')
                mine.append(('func', f))
        pv = None
        if rnd.random() < 0.4:
            # a private definition: a star import of this module does not bind it (unless __all__ lists it)
            pv = fresh('_pv')
            lines.append(f'class {pv}:\n    pass')
        if rnd.random() < 0.3:
            # __all__ listing some (possibly none) of the module's own definitions: a star import binds exactly those
            chosen = [o for (_k, o) in mine if rnd.random() < 0.5]
            if pv is not None and rnd.random() < 0.6:
                chosen.append(pv)           # __all__ decides, not the underscore
            lines.append('__all__ = [' + ', '.join(repr(o) for o in chosen) + ']')
            star_all[name] = chosen
        defs.setdefault(name, []).extend(mine)
        texts[name] = '\n'.join(lines) + '\n'
    for name, is_pkg in order:
        rel = name.replace('.', '/') + ('/__init__.py' if is_pkg else '.py')
        files[rel] = texts[name]
    return files, [n for n, _ in order]


def _cases(tier, seed):
    rnd = random.Random(seed)
    for _ in range(25 if tier == 'quick' else 400):
        yield {'seed': rnd.randrange(10 ** 6)}
    # hand-written shapes
    for k in range(len(FIXED)):
        yield {'fixed': k}


FIXED = [
    # a class re-exported by its package; the package and the defining module bind the same name to different objects
    ({'pkg/__init__.py': 'from .other import Z as util\nfrom ._impl import Foo\n__all__ = ["Foo"]\n', 'pkg/helpers.py': 'class H:\n    "doc"\n', 'pkg/other.py': 'class Z:\n    "doc"\n',
      'pkg/_impl.py': 'from .helpers import H as util\nclass Foo:\n    "doc"\n    def m(self): "doc"\nclass Stay:\n    def n(self): "doc"\n'},
     ['pkg.helpers', 'pkg.other', 'pkg._impl', 'pkg']),
    # two roots; the second one re-exports a class of its private module, the first one imports it from where it is defined
    ({'alpha/__init__.py': '', 'alpha/use.py': 'from beta._core import Wheel\nfrom beta._core import Wheel as W2\nimport beta._core as core\nclass Car:\n    from beta._core import Wheel as Inner\n    class Nest: pass\n',
      'beta/__init__.py': 'from beta._core import Wheel\n__all__ = ["Wheel"]\n', 'beta/_core.py': 'class Wheel:\n    def spin(self): pass\ndef unrelated(): pass\n',
      'gamma.py': 'from beta._core import Wheel as GW\nimport beta\n',
      'alpha/late.py': 'from beta._core import Wheel\nclass Fancy(Wheel):\n    def shine(self): pass\nclass Leaf(Fancy):\n    pass\n', 'delta.py': 'import alpha.late as w\nimport beta._core as bc\n',
      # the same subclass in a root that is analysed after the re-export happened
      'zlate.py': 'from beta._core import Wheel\nclass Fancy2(Wheel):\n    def shine2(self): pass\nclass Leaf2(Fancy2):\n    pass\n', 'zuse.py': 'import zlate as w2\n'},
     ['alpha', 'beta._core', 'beta', 'alpha.use', 'gamma', 'alpha.late', 'delta', 'zlate', 'zuse']),
    ({'a/__init__.py': 'class A0: pass\n', 'a/b/__init__.py': 'from .. import A0 as Up\nfrom ..c import C1\nfrom . import d\nfrom .d import D1 as Dx\n',
      'a/b/d.py': 'class D1:\n    class Nest: pass\n', 'a/c.py': 'class C1: pass\n',
      'a/e.py': 'import a.b.d\nimport a.b.d as dmod\nfrom a.b import d as d2\nfrom a import c\nclass E1(a.b.d.D1, dmod.D1.Nest, c.C1): pass\n'},
     ['a', 'a.c', 'a.b.d', 'a.b', 'a.e']),
    ({'p/__init__.py': '', 'p/x.py': 'class X1:\n    def m(self): pass\ndef fx(): pass\n__all__ = ["X1"]\n',
      'p/y.py': 'from p.x import *\nfrom p import x as xm\nclass Y1(X1):\n    from p.x import fx as inner_fx\n    class In:\n        pass\n'},
     ['p', 'p.x', 'p.y']),
    ({'q/__init__.py': 'from q import r\nfrom q.r import R1\n', 'q/r.py': 'class R1: pass\n', 'q/s.py': 'import q\nfrom q import R1 as viaPkg\nalias = q\n',
      't.py': 'import q.r, q.s\nfrom q.s import viaPkg as far\n'},
     ['q.r', 'q', 'q.s', 't']),
    ({'rp/__init__.py': 'from .impl import engine as core\n__all__ = ["core"]\nclass TopX: pass\n', 'rp/impl/__init__.py': '',
      'rp/impl/helpers.py': 'def helper_f(): pass\n', 'rp/helpers.py': 'def wrong_f(): pass\n',
      'rp/impl/engine.py': 'from . import helpers\nfrom .helpers import helper_f\nfrom .helpers import helper_f as hf\nclass Engine:\n    from . import helpers as h2\n'},
     ['rp.impl', 'rp.impl.helpers', 'rp.helpers', 'rp.impl.engine', 'rp']),
    ({'ea/__init__.py': '', 'ea/consts.py': '__all__ = []\ndef helper(): pass\nclass Konst: pass\n', 'ea/plain.py': 'def plain_func(): pass\n',
      'ea/user.py': 'from ea.plain import plain_func as helper\nfrom ea.consts import *\n'},
     ['ea', 'ea.consts', 'ea.plain', 'ea.user']),
    # two roots, the name of the first a prefix of the name of the second; the second re-exports a class of its private module
    ({'qlib/__init__.py': 'from ._qb import Thing\n__all__ = ["Thing"]\n', 'qlib/_qb.py': 'class Thing:\n    def tm(self): pass\n',
      'qlib/quser.py': 'from qlib._qb import Thing as DirectThing\nimport qlib._qb as tmod\n',
      'qlibext/__init__.py': 'from ._qi import Widget\n__all__ = ["Widget"]\n', 'qlibext/_qi.py': 'class Widget:\n    def wm(self): pass\nclass Gadget:\n    pass\n',
      'qlibext/qclient.py': 'from qlibext._qi import Widget\nfrom qlibext._qi import Widget as W2\nimport qlibext._qi as wmod\nfrom qlib._qb import Thing as OtherRootThing\n'
                            'class Scope:\n    from qlibext._qi import Widget as InClass\n'},
     ['qlib._qb', 'qlib', 'qlib.quser', 'qlibext._qi', 'qlibext', 'qlibext.qclient']),
]


def _check(case):
    if 'fixed' in case:
        files, order = FIXED[case['fixed']]
    else:
        files, order = _project(case['seed'])
    d = tempfile.mkdtemp(prefix='c04.', dir='/var/tmp')
    try:
        for rel, text in files.items():
            p = os.path.join(d, rel)
            os.makedirs(os.path.dirname(p), exist_ok=True)
            with open(p, 'w') as f:
                f.write(text)
        p = subprocess.run([sys.executable, '-c', ORACLE, d, json.dumps(order)], capture_output=True, text=True, timeout=120, cwd=d,
                           env={k: v for k, v in os.environ.items() if k != 'PYTHONPATH'})
        if p.returncode != 0:
            # the generated project does not import under CPython: not a verdict on pydoctor (generator limitation)
            return None
        runtime = json.loads(p.stdout.strip().splitlines()[-1])
        # pydoctor on the same files (from disk, so that every object knows its source file)
        import contextlib, io
        from pathlib import Path
        from pydoctor import model
        system = model.System()
        builder = system.systemBuilder(system)
        with contextlib.redirect_stdout(io.StringIO()):
            for r_ in sorted({rel.split('/')[0] for rel in files}):
                builder.addModule(Path(d) / r_)
            builder.buildModules()

        def pid_(o):
            if o.source_path is None:
                return None
            rel = os.path.relpath(str(o.source_path), d)
            return rel if isinstance(o, model.Module) else f'{rel}:{o.linenumber}'
        by_id = {}
        for o_ in system.allobjects.values():
            if isinstance(o_, (model.Module, model.Class, model.Function)) and pid_(o_) is not None:
                by_id[pid_(o_)] = o_
        fails = []
        checked = 0
        for scope, names in runtime.items():
            ctx = system.allobjects.get(scope)
            if ctx is None:
                continue
            text = files.get(scope.replace('.', '/') + '.py') or files.get(scope.replace('.', '/') + '/__init__.py') or ''
            for name, target in names.items():
                checked += 1
                got = ctx.resolveName(name)
                if got is not None and pid_(got) != target:
                    # (witness of KF-C04-scope-of-moved-class: the scope is a class that a re-export moved under another module, and the
                    #  name is one that the class body does not bind itself)
                    moved_scope = isinstance(ctx, model.Class) and ctx.parent is not None and str(ctx.source_path) != str(getattr(ctx.parent, 'source_path', None)) \
                        and name.split('.')[0] not in ctx.contents and name.split('.')[0] not in getattr(ctx, '_localNameToFullName_map', {})
                    fails.append({'observed': f'in {scope}, {name!r} resolves to {got.fullName()} ({pid_(got)}) but Python binds it to {target}',
                                  'required': 'the object the name denotes when the project is imported', 'class': 'wrong-object' + ('+moved-scope' if moved_scope else ''),
                                  'moved_scope': bool(moved_scope)})
                if got is None:
                    # must resolve: imported directly from the defining module, or reached through a module alias
                    first = name.split('.')[0]
                    tob = by_id.get(target)
                    # <alias>.<class defined in the aliased module>.<attribute, own or inherited>: reached through a module alias
                    if tob is not None and name.count('.') >= 2 and scope in order:
                        m_ = next((mm for mm in (re.fullmatch(r'import ([\w.]+) as ' + re.escape(first), l) for l in text.splitlines()) if mm), None)
                        second = names.get(first + '.' + name.split('.')[1])
                        if m_ is not None and second is not None and ':' in second:
                            mfile = m_.group(1).replace('.', '/')
                            if second.split(':')[0] in (mfile + '.py', mfile + '/__init__.py') and isinstance(by_id.get(second), model.Class):
                                fails.append({'observed': f'in {scope}, {name!r} (Python: {target}) does not resolve', 'required': 'always resolves (reached through a module alias)',
                                              'class': 'unresolved-through-alias'})
                                continue
                    if tob is None or isinstance(tob, model.Module) or tob.parent is None or not isinstance(tob.parent, model.Module):
                        continue
                    tmod = target.split(':')[0][:-3].replace('/', '.').removesuffix('.__init__')     # the defining module, by file
                    last = tob.name
                    # `from <defining module> import <object> [as <name>]` standing in this scope's text, for an undotted name
                    direct = '.' not in name and any(
                        l.strip() in (f'from {tmod} import {last}', f'from {tmod} import {last} as {name}') and (name == last or l.strip().endswith(f' as {name}'))
                        for l in text.splitlines())
                    # `import <defining module> as <alias>` and the name <alias>.<object>
                    via_alias = name.count('.') == 1 and name.split('.')[1] == last and \
                        any(l.strip() == f'import {tmod} as {first}' for l in text.splitlines())
                    # ... or, at any depth, through an alias of some module of the project (`import <module> as <alias>` at module level)
                    # `from <defining module> import *` standing in this scope's text (Python binds the name: it is in the run-time namespace)
                    direct_star = '.' not in name and name == last and any(l.strip() == f'from {tmod} import *' for l in text.splitlines())
                    if direct or via_alias or direct_star:
                        fails.append({'observed': f'in {scope}, {name!r} (Python: {target}) does not resolve', 'required': 'always resolves',
                                      'class': 'unresolved'})
        # the names of the enclosing module seen from inside its classes (hand-written projects): inside a class body / its methods a
        # name that the class does not bind itself denotes what the *defining* module binds it to - also after the class was re-exported
        if 'fixed' in case:
            for scope, names in runtime.items():
                if scope in order:
                    continue
                modname = next((m for m in sorted(order, key=len, reverse=True) if scope.startswith(m + '.')), None)
                cls_target = runtime.get(modname, {}).get(scope[len(modname) + 1:]) if modname else None
                ctx = by_id.get(cls_target) if cls_target else None
                if not isinstance(ctx, model.Class):
                    continue
                for name, target in runtime[modname].items():
                    if '.' in name or name in names:
                        continue
                    got = ctx.resolveName(name)
                    if got is not None and pid_(got) != target:
                        moved_scope = str(ctx.source_path) != str(getattr(ctx.parent, 'source_path', None))
                        fails.append({'observed': f'in class {ctx.fullName()} (defined as {scope}), {name!r} resolves to {got.fullName()} ({pid_(got)}) but Python binds it to {target}',
                                      'required': 'the object the name denotes when the project is imported', 'class': 'wrong-object-in-class' + ('+moved-scope' if moved_scope else ''),
                                      'moved_scope': bool(moved_scope)})
        # ... or not at all: a definition of the project that a module namespace does not bind at run time must not resolve there
        all_defs = {by_id[t].name: t for names in runtime.values() for t in names.values()
                    if t in by_id and not isinstance(by_id[t], model.Module)}
        for scope, names in runtime.items():
            ctx = system.allobjects.get(scope)
            if ctx is None or scope not in order:
                continue
            for short, target in all_defs.items():
                if short in names or short in {m.split('.')[0] for m in order}:
                    continue
                got = ctx.resolveName(short)
                if got is not None:
                    fails.append({'observed': f'in module {scope}, {short!r} resolves to {got.fullName()} although Python binds no such name there',
                                  'required': 'resolves to what Python would bind it to, or not at all', 'class': 'phantom-binding'})
        # ... nor does a name that some other scope binds (an alias of a class body, of another module) or that no scope binds at all
        # (the gm<N> names under `if __name__ == '__main__':`) resolve in a module that does not bind it
        import re as _re
        other_names = {n for names in runtime.values() for n in names if '.' not in n} | set(_re.findall(r' as (gm\d+)', '\n'.join(files.values())))
        tops = {m.split('.')[0] for m in order}
        for scope, names in runtime.items():
            ctx = system.allobjects.get(scope)
            if ctx is None or scope not in order:
                continue
            for short in sorted(other_names - set(names) - tops - set(all_defs)):
                if short.startswith('__'):
                    continue
                got = ctx.resolveName(short)
                if got is not None:
                    fails.append({'observed': f'in module {scope}, {short!r} resolves to {got.fullName()} although Python binds no such name there',
                                  'required': 'resolves to what Python would bind it to, or not at all', 'class': 'phantom-alias'})
        if checked == 0:
            return None
        return fails or None
    finally:
        shutil.rmtree(d, ignore_errors=True)


HARNESS = {
    f'{M}:Documentable.resolveName': {'cases': _cases, 'check': _check,
        'covers': [f'{M}:Documentable.expandName', f'{M}:Module._localNameToFullName', f'{M}:Class._localNameToFullName', f'{A}:ModuleVistor.visit_Import',
                   f'{A}:ModuleVistor.visit_ImportFrom', f'{A}:ModuleVistor._importNames', f'{A}:ModuleVistor._importAll', f'{A}:_handleAliasing',
                   f'{M}:System.find_object'],
        'bound': '25 (400) generated acyclic projects of 1-3 packages with sub-packages, 3-12 modules, globally unique definition names; import '
                 'styles: from / from-as / import / import-as / relative with dots / star / in a class body / assignment alias of a module; plus 3 '
                 'hand-written projects; every runtime-bound name of every module and class namespace, and one level of attribute access on '
                 'module-valued names, compared with CPython (subprocess import of the same files)',
        'budget_s': {'quick': 240, 'thorough': 2400}},
}
