"""C18 native harness (bounded): equal inputs give byte-identical output.

One case = one project and option set.  pydoctor is run in fresh interpreter processes (the hash seed is fixed at start-up) with
the same sources, options and SOURCE_DATE_EPOCH / --buildtime:
   run A: PYTHONHASHSEED=1, fresh output directory        (reference)
   run B: PYTHONHASHSEED=2, fresh output directory
   run C: PYTHONHASHSEED=77, directory listings reversed (pathlib.Path.iterdir / os.listdir / os.scandir patched in the child)
   run D: PYTHONHASHSEED=3, output written over the result of run A (reused directory)
and the output trees are compared byte for byte."""
from __future__ import annotations
import filecmp
import hashlib
import os
import shutil
import subprocess
import sys
import tempfile
from replay import site, kitchen

D = 'pydoctor/driver.py'
M = 'pydoctor/model.py'

CHILD = r'''
import os, sys, pathlib
if os.environ.get('C18_REVERSE'):
    _iterdir = pathlib.Path.iterdir
    def iterdir(self):
        return iter(sorted(_iterdir(self), reverse=True))
    pathlib.Path.iterdir = iterdir
    _listdir = os.listdir
    def listdir(p='.'):
        return sorted(_listdir(p), reverse=True)
    os.listdir = listdir
    _scandir = os.scandir
    class _Scan:
        def __init__(self, p): self._it = _scandir(p); self._l = sorted(self._it, key=lambda e: e.name, reverse=True)
        def __iter__(self): return iter(self._l)
        def __enter__(self): return self
        def __exit__(self, *a): self._it.close()
        def close(self): self._it.close()
    os.scandir = lambda p='.': _Scan(p)
from pydoctor import driver
sys.exit(driver.main(sys.argv[1:]))
'''

MANY = {f'many/m{i:02d}.py': f'"""Module {i}."""\nfrom many import m{(i * 7) % 23:02d}\nclass C{i}(m{(i * 7) % 23:02d}.C{(i * 7) % 23} if {i} % 5 else object):\n    "doc"\n    def meth_{i}(self): "doc"\nv{i} = {{1, 2, 3}}\n"""set value"""\n'
        for i in range(23)}
MANY['many/__init__.py'] = '"""Package with many modules: set-typed values, cross imports, many subclasses."""\n__all__ = ["a", "b", "c"]\na = b = c = 1\n'

PROJECTS = {
    'single_root_named': (dict(site.PROJECT_B), ['--project-name', 'proj'], None),
    'single_root_unnamed': (dict(site.PROJECT_B), [], None),
    'two_roots_unnamed': ({**site.PROJECT_B, 'beta/__init__.py': '"""Second root."""\nfrom pk.mod import Base\nclass B2(Base):\n    "doc"\n', 'gamma.py': '"""Third root."""\nx = 1\n'}, [], None),
    'three_roots_named': ({'zeta.py': '"""z"""\nclass Z: pass\n', 'alpha.py': '"""a"""\nimport zeta\nclass A(zeta.Z): pass\n', 'mid/__init__.py': '"""m"""\nfrom alpha import A\nfrom zeta import Z\nclass M(A, Z): pass\n'},
                          ['--project-name', 'three', '--project-version', '1.2'], None),
    'many_modules': (MANY, ['--project-name', 'many'], None),
    'zope_and_subclasses': ({'zp/__init__.py': 'from zope.interface import Interface, implementer\nclass IA(Interface):\n    def m(): "doc"\nclass IB(IA): pass\n'
                                               + ''.join(f'@implementer(IA, IB)\nclass Impl{i}:\n    def m(self): pass\n' for i in range(12))
                                               + ''.join(f'class Sub{i}(Impl{i % 3}): pass\n' for i in range(12))}, ['--project-name', 'zp'], None),
    # names that differ only by case, names that sort differently with and without case folding
    'case_pairs': ({'cp/__init__.py': '"""Package."""\n', 'cp/Handler.py': 'class H1:\n    "doc"\n', 'cp/handler.py': 'class h2:\n    "doc"\n',
                    'cp/Zeta.py': 'x = 1\n', 'cp/alpha.py': 'y = 2\n', 'cp/_b.py': 'z = 3\n', 'cp/B.py': 'w = 4\n'}, ['--project-name', 'cp'], None),
    'docstring_errors': ({'de/__init__.py': '"""L{unknown} and L{other.unknown}"""\n' + ''.join(f'def f{i}():\n    """@param x: nope\n    L{{missing{i}}}\n    @bogus: field"""\n' for i in range(15)),
                          'de/rst.py': '__docformat__ = "restructuredtext"\n' + ''.join(f'def g{i}(a):\n    """:param a: `nowhere{i}`\n    :type a: unknown{i}\n    """\n' for i in range(15))},
                         ['--project-name', 'de'], None),
    'intersphinx_like': (dict(site.PROJECT_B), ['--project-name', 'proj', '--html-viewsource-base', 'http://example.org/src', '--project-url', 'http://example.org',
                                                '--privacy', 'HIDDEN:pk.mod.Hid', '--privacy', 'PRIVATE:pk.sub'], 'with_base'),
    'buildtime_option': (dict(site.PROJECT_B), ['--project-name', 'proj', '--buildtime', '2020-02-02 02:02:02', '--theme', 'readthedocs'], 'no_epoch'),
    # most features at once (zope interfaces, overloads, re-exports, import cycle, several docformats, a module root next to the package)
    'kitchen': (dict(kitchen.KITCHEN), ['--project-name', 'ks', '--process-types', '--privacy=PRIVATE:ks.api.Point', '--sidebar-expand-depth', '2'], None),
    # the roots come from the add-package key of a config file, in an order that is not the sorted one
    'config_roots': ({'zeta.py': '"""z"""\nclass Z: pass\n', 'alpha.py': '"""a"""\nimport zeta\nclass A(zeta.Z): pass\n', 'mid/__init__.py': '"""m"""\nfrom alpha import A\nclass M(A): pass\n',
                      'beta/__init__.py': '"""b"""\n', 'gamma.py': 'x = 1\n', 'delta/__init__.py': 'y = 2\n'}, ['--project-name', 'cfg'], 'config'),
    # overlapping pattern rules of different privacy classes (the one given last wins: their order must survive option handling)
    'overlapping_rules': (dict(site.PROJECT_B), ['--project-name', 'proj', '--privacy=PRIVATE:pk.**', '--privacy=HIDDEN:pk.mod.*d', '--privacy=PUBLIC:pk.m*.S*', '--privacy=PRIVATE:pk.mod.S*',
                                                 '--privacy=HIDDEN:pk.*.B*', '--privacy=PUBLIC:pk.mod.Ba*', '--privacy=PRIVATE:pk.sub*', '--privacy=PUBLIC:pk.su?'], None),
    # members defined on one line (they tie on the source order), listed on the page of a subclass in source order
    'source_order_ties': ({'so/__init__.py': 'class Base:\n    "doc"\n    low, high, step, unit, label = 0, 100, 5, None, None\n    alpha = beta = gamma = delta = 1\n    def m(self): "doc"\n'
                                             'class Sub(Base):\n    "doc"\n    zeta, eta = 1, 2\nclass SubSub(Sub):\n    "doc"\n'},
                          ['--project-name', 'so', '--cls-member-order=source', '--mod-member-order=source'], None),
    # only some objects are written, named in an order that is not the sorted one
    'html_subjects': (dict(site.PROJECT_B), ['--project-name', 'proj', '--sidebar-expand-depth', '2', '--make-html', '--make-intersphinx'] + [x for n in
                      ('pk.sub.leaf.Leaf', 'pk.mod.Base', 'pk.mod.Sub', 'pk.Exported', 'pk.mod', 'pk.mod.Base.Nested', 'pk.sub') for x in ('--html-subject', n)], None),
    # a star import of a module without __all__, several of the names re-exported by the importer
    'star_reexport': ({'sr/__init__.py': 'from ._impl import *\n__all__ = ["Alpha", "Beta", "Gamma", "Delta", "Epsilon", "zeta", "eta"]\n',
                       'sr/_impl.py': ''.join(f'class {n}:\n    "doc"\n    def m(self): "doc"\n' for n in ('Alpha', 'Beta', 'Gamma', 'Delta', 'Epsilon')) + 'def zeta(): "doc"\ndef eta(): "doc"\nkept = 1\n',
                       'sr/user.py': 'from sr import *\nclass U(Alpha, Beta): pass\n'}, ['--project-name', 'sr'], None),
    # expandable sidebar entries (ids are generated while the pages are rendered)
    'sidebar_expanded': (dict(site.PROJECT_B), ['--project-name', 'proj', '--sidebar-expand-depth', '3', '--sidebar-toc-depth', '3'], None),
    # the epoch itself is a valid value of SOURCE_DATE_EPOCH
    'epoch_zero': ({'ez.py': '"""Module."""\nclass K:\n    "doc"\n'}, ['--project-name', 'ez'], 'epoch0'),
    # interfaces that reach a class only through its bases, several of them declaring the method the class overrides without a docstring
    'zope_inherited_interfaces': ({'st/__init__.py': '"""Streams."""\n',
                                   'st/ifaces.py': 'from zope.interface import Interface\n' + ''.join(
                                       f'class I{n}(Interface):\n    "Interface {n}."\n    def close():\n        "Close as {n} does."\n    def only_{n.lower()}():\n        "doc"\n'
                                       for n in ('Reader', 'Writer', 'Seekable', 'Pollable', 'Lockable', 'Mappable')),
                                   'st/impl.py': 'from zope.interface import implementer\nfrom st.ifaces import *\n' + ''.join(
                                       f'@implementer(I{n})\nclass {n}:\n    "Implements {n}."\n' for n in ('Reader', 'Writer', 'Seekable', 'Pollable', 'Lockable', 'Mappable'))
                                       + 'class Pipe(Reader, Writer, Seekable, Pollable, Lockable, Mappable):\n    "All of them, inherited."\n    def close(self):\n        pass\n'
                                       + 'class Half(Mappable, Lockable, Pollable):\n    def close(self):\n        pass\n'
                                       # several interfaces that arrive through one and the same base
                                       + 'class Multi(Pipe):\n    def close(self):\n        pass\nclass Multi2(Half, Reader):\n    def close(self):\n        pass\n'},
                                  ['--project-name', 'st'], None),
}


def _cases(tier, seed):
    names = list(PROJECTS)
    if tier == 'quick':
        names = ['single_root_unnamed', 'two_roots_unnamed', 'three_roots_named', 'zope_and_subclasses', 'docstring_errors', 'buildtime_option', 'case_pairs',
                 'epoch_zero', 'zope_inherited_interfaces', 'star_reexport', 'sidebar_expanded', 'kitchen', 'html_subjects', 'overlapping_rules', 'source_order_ties', 'config_roots']
    for n in names:
        yield {'project': n}
    if tier == 'thorough':
        for n in ('two_roots_unnamed', 'many_modules', 'zope_and_subclasses', 'zope_inherited_interfaces'):
            for s in (5, 11, 123, 4242):
                yield {'project': n, 'seed_b': s}


def _run(src, out, argv, roots, seed, reverse=False, epoch=True):
    env = dict(os.environ, PYTHONHASHSEED=str(seed), PYTHONPATH=os.environ.get('VERIF_REPO', '/repo'))
    env.pop('C18_REVERSE', None)
    if reverse:
        env['C18_REVERSE'] = '1'
    if epoch:
        env['SOURCE_DATE_EPOCH'] = '0' if epoch == 'zero' else '1600000000'
    else:
        env.pop('SOURCE_DATE_EPOCH', None)
    cmd = [sys.executable, '-c', CHILD, '--html-output', out, '--quiet', *argv] + [os.path.join(src, r) for r in roots]
    p = subprocess.run(cmd, env=env, capture_output=True, text=True, timeout=600, cwd=src)
    return p.returncode, p.stdout + p.stderr


def _tree(d):
    out = {}
    for base, _, files in os.walk(d):
        for f in files:
            p = os.path.join(base, f)
            out[os.path.relpath(p, d)] = hashlib.sha256(open(p, 'rb').read()).hexdigest()
    return out


def _first_diff(a, b, rel):
    x, y = open(os.path.join(a, rel), 'rb').read(), open(os.path.join(b, rel), 'rb').read()
    i = next((k for k in range(min(len(x), len(y))) if x[k] != y[k]), min(len(x), len(y)))
    return f'{x[max(0, i - 60):i + 60]!r} vs {y[max(0, i - 60):i + 60]!r}'


def _check(case):
    files, argv, mode = PROJECTS[case['project']]
    d = tempfile.mkdtemp(prefix='c18.', dir='/var/tmp')
    try:
        src = os.path.join(d, 'src')
        for rel, text in files.items():
            p = os.path.join(src, rel)
            os.makedirs(os.path.dirname(p), exist_ok=True)
            with open(p, 'w') as f:
                f.write(text)
        roots = sorted({rel.split('/')[0] for rel in files})
        argv = list(argv)
        if mode == 'config':
            order = ['zeta.py', 'mid', 'alpha.py', 'gamma.py', 'delta', 'beta']
            with open(os.path.join(src, 'setup.cfg'), 'w') as f:
                f.write('[tool:pydoctor]\nadd-package =\n' + ''.join(f'    {os.path.join(src, r)}\n' for r in order))
            roots = []
        if mode == 'with_base':
            argv += ['--project-base-dir', src]
        epoch = 'zero' if mode == 'epoch0' else mode != 'no_epoch'
        runs = [('A', 1, False, 'outA'), ('B', case.get('seed_b', 2), False, 'outB'), ('C', 77, True, 'outC')]
        fails = []
        rcs = {}
        for tag, seed, rev, out in runs:
            rcs[tag], log = _run(src, os.path.join(d, out), argv, roots, seed, rev, epoch)
            if rcs[tag] not in (0, 2, 3):
                return {'observed': f'run {tag} ended with status {rcs[tag]}: {log[-300:]}', 'required': 'a normal run', 'class': 'run-failed'}
        # D: over the result of A (copy first so that A stays the reference)
        shutil.copytree(os.path.join(d, 'outA'), os.path.join(d, 'outD'))
        rcs['D'], log = _run(src, os.path.join(d, 'outD'), argv, roots, 3, False, epoch)
        ref = _tree(os.path.join(d, 'outA'))
        what = {'B': 'another hash seed', 'C': 'reversed directory listings', 'D': 'a reused output directory'}
        for tag in ('B', 'C', 'D'):
            if rcs[tag] != rcs['A']:
                fails.append({'observed': f'exit status {rcs[tag]} with {what[tag]}, {rcs["A"]} in the reference run', 'required': 'identical', 'class': 'status:' + tag})
            t = _tree(os.path.join(d, 'out' + tag))
            diff = sorted(set(ref) ^ set(t)) + sorted(k for k in ref if k in t and ref[k] != t[k])
            if diff:
                rel = diff[0]
                detail = _first_diff(os.path.join(d, 'outA'), os.path.join(d, 'out' + tag), rel) if rel in ref and rel in t else 'present in only one tree'
                fails.append({'observed': f'{len(diff)} files differ with {what[tag]} (first: {rel}: {detail})', 'required': 'byte-identical output trees',
                              'class': f'diff:{tag}', 'files': diff[:8], 'varies_with': what[tag],
                              'project_name_guess': '--project-name' not in argv and len(roots) > 1})
        return fails or None
    finally:
        shutil.rmtree(d, ignore_errors=True)


HARNESS = {
    f'{D}:get_system': {'cases': _cases, 'check': _check,
        'covers': [f'{D}:make', f'{M}:System.addPackage', f'{M}:System.root_names', 'pydoctor/templatewriter/util.py:objects_order',
                   'pydoctor/templatewriter/summary.py:_lckey', 'pydoctor/templatewriter/writer.py:TemplateWriter.writeSummaryPages'],
        'bound': '16 (19) projects (one/two/three roots, with and without --project-name, 23 cross-importing modules, zope interfaces with 12 implementers, '
                 'reported docstring errors, source links, --buildtime) x {hash seed 1, hash seed 2, hash seed 77 with reversed directory listings, reused '
                 'output directory}; fresh interpreter per run; sha256 of every written file',
        'budget_s': {'quick': 400, 'thorough': 2400}},
}
