"""Replay of a solver counter-model on the real function (pure module-level functions over strings / ints / lists):
    python -m replay.model <PID> <relpath> <qualname> '<json kwargs>'
prints one JSON line {"failure": null | {...}}; exit 0 when the contract holds on that input, 1 when it fails."""
from __future__ import annotations
import importlib
import json
import sys
from replay.native import check_pure, spec_env, load_contracts


def run(pid, relpath, qualname, kwargs):
    reg = load_contracts(pid)
    c = reg.contracts[(relpath, qualname)]
    mod = importlib.import_module(relpath[:-3].replace('/', '.'))
    fn = getattr(mod, qualname)
    cmod = importlib.import_module(f'contracts.{pid.lower()}')
    specs = ['specs.' + pid.lower()] + ['specs.' + s for s in getattr(cmod, 'SPECS', [])]
    env = spec_env(*[s for s in specs if _exists(s)])
    return check_pure(c, fn, kwargs, env)


def _exists(modname):
    try:
        importlib.import_module(modname)
        return True
    except ImportError:
        return False


if __name__ == '__main__':
    pid, relpath, qualname, kw = sys.argv[1:5]
    try:
        f = run(pid, relpath, qualname, json.loads(kw))
    except BaseException as ex:    # noqa  (a model the real function cannot even be called with is not a verdict)
        print(json.dumps({'failure': None, 'error': f'{type(ex).__name__}: {ex}'}))
        sys.exit(0)
    print(json.dumps({'failure': f}, default=str))
    sys.exit(1 if f else 0)
