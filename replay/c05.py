"""C05 native harness (bounded): pydoctor.mro against CPython's own MRO, exhaustively for small hierarchies."""
from __future__ import annotations
import itertools
import random

R = 'pydoctor/mro.py'


def _hierarchies(nmax):
    """every ordered choice of bases for classes C0..C{n-1} (bases among earlier classes, no repeats)"""
    def rec(n, acc):
        if len(acc) == n:
            yield list(acc)
            return
        i = len(acc)
        for r in range(0, i + 1):
            for bs in itertools.permutations(range(i), r):
                yield from rec(n, acc + [list(bs)])
    for n in range(1, nmax + 1):
        yield from rec(n, [])


def _cases(tier, seed):
    nmax = 5
    for h in _hierarchies(nmax):
        yield {'bases': h}
    rnd = random.Random(seed)
    for _ in range(300 if tier == 'quick' else 3000):
        n = rnd.randint(5, 8)
        h = []
        for i in range(n):
            k = rnd.randint(0, min(i, 3))
            h.append(rnd.sample(range(i), k))
        yield {'bases': h}


def _cpython(bases):
    """-> list of mro index lists, or None where Python rejects the class (TypeError)"""
    classes = []
    out = []
    for i, bs in enumerate(bases):
        if any(classes[b] is None for b in bs):
            classes.append(None)
            out.append(None)
            continue
        try:
            c = type(f'C{i}', tuple(classes[b] for b in bs), {})
        except TypeError:
            classes.append(None)
            out.append(None)
            continue
        classes.append(c)
        out.append([classes.index(k) for k in c.__mro__ if k is not object])
    return out


def _check(case):
    from pydoctor import mro
    bases = case['bases']
    want = _cpython(bases)
    names = [f'C{i}' for i in range(len(bases))]
    fails = []
    for i in range(len(bases)):
        def getbases(n):
            return [names[b] for b in bases[names.index(n)]]
        try:
            got = mro.mro(names[i], getbases)
        except ValueError:
            got = None
        except BaseException as ex:   # noqa
            return {'observed': f'mro({names[i]}) raised {type(ex).__name__}: {ex}', 'required': 'a list or ValueError'}
        w = None if want[i] is None or any(want[b] is None for b in _closure(bases, i)) else [names[k] for k in want[i]]
        # Python cannot even build a class below a rejected one; C3 itself is still defined there, so compare
        # only where CPython has an answer or rejects this very class
        if want[i] is None and all(want[b] is not None for b in bases[i]):
            if got is not None:
                return {'observed': f'mro({names[i]}) = {got}', 'required': 'ValueError: Python rejects this hierarchy',
                        'class': 'accepts-inconsistent'}
        elif w is not None and got != w:
            return {'observed': f'mro({names[i]}) = {got}', 'required': f"Python's MRO {w}", 'class': 'wrong-order'}
    return None


def _closure(bases, i):
    seen = set()
    todo = list(bases[i])
    while todo:
        b = todo.pop()
        if b not in seen:
            seen.add(b)
            todo.extend(bases[b])
    return seen


def _merge_cases(tier, seed):
    elems = ['A', 'B', 'C']
    lists = [[]] + [list(p) for r in (1, 2, 3) for p in itertools.permutations(elems, r)]
    maxn = 3
    for n in range(0, maxn + 1):
        for combo in itertools.product(lists, repeat=n):
            yield {'lists': [list(c) for c in combo]}


def _check_merge(case):
    """_merge against the C3 spec function of specs/c05.py (the text the VCs are generated from)"""
    from pydoctor import mro
    import specs.c05 as S
    want = S.c3_merge([list(l) for l in case['lists']])
    try:
        got = mro._merge(*[list(l) for l in case['lists']])
    except ValueError:
        got = None
    except BaseException as ex:   # noqa
        return {'observed': f'raised {type(ex).__name__}: {ex}', 'required': 'a list or ValueError'}
    if got != want:
        return {'observed': f'_merge = {got}', 'required': f'c3_merge = {want}'}
    return None


HARNESS = {
    f'{R}:mro': {'cases': _cases, 'check': _check,
        'covers': [f'{R}:Dependency.head', f'{R}:Dependency.tail', f'{R}:DependencyList.__init__',
                   f'{R}:DependencyList.__contains__', f'{R}:DependencyList.heads', f'{R}:DependencyList.tails',
                   f'{R}:DependencyList.exhausted', f'{R}:DependencyList.remove'],
        'bound': 'every hierarchy of <= 4 (5 thorough) classes, every ordered choice of bases, against type().__mro__; + 300 (3000) random hierarchies of 5..8 classes'},
    f'{R}:_merge': {'cases': _merge_cases, 'check': _check_merge,
        'bound': 'all tuples of <= 3 lists over permutations of subsets of {A,B,C}, against the c3_merge spec function'},
}
