"""C05 native harness (bounded): pydoctor.mro against CPython's own MRO, exhaustively for small hierarchies."""
from __future__ import annotations
import itertools
import random

R = 'pydoctor/mro.py'


def _hierarchies(nmax):
    """every ordered choice of bases for classes C0..C{n-1} (bases among earlier classes, no repeats)"""
    def rec(n, acc):
        if len(acc) == n:
            yield list(acc)
            return
        i = len(acc)
        for r in range(0, i + 1):
            for bs in itertools.permutations(range(i), r):
                yield from rec(n, acc + [list(bs)])
    for n in range(1, nmax + 1):
        yield from rec(n, [])


def _cases(tier, seed):
    nmax = 5
    for h in _hierarchies(nmax):
        yield {'bases': h}
    rnd = random.Random(seed)
    for _ in range(300 if tier == 'quick' else 3000):
        n = rnd.randint(5, 8)
        h = []
        for i in range(n):
            k = rnd.randint(0, min(i, 3))
            h.append(rnd.sample(range(i), k))
        yield {'bases': h}


def _cpython(bases):
    """-> list of mro index lists, or None where Python rejects the class (TypeError)"""
    classes = []
    out = []
    for i, bs in enumerate(bases):
        if any(classes[b] is None for b in bs):
            classes.append(None)
            out.append(None)
            continue
        try:
            c = type(f'C{i}', tuple(classes[b] for b in bs), {})
        except TypeError:
            classes.append(None)
            out.append(None)
            continue
        classes.append(c)
        out.append([classes.index(k) for k in c.__mro__ if k is not object])
    return out


def _check(case):
    from pydoctor import mro
    bases = case['bases']
    want = _cpython(bases)
    names = [f'C{i}' for i in range(len(bases))]
    fails = []
    for i in range(len(bases)):
        def getbases(n):
            return [names[b] for b in bases[names.index(n)]]
        try:
            got = mro.mro(names[i], getbases)
        except ValueError:
            got = None
        except BaseException as ex:   # noqa
            return {'observed': f'mro({names[i]}) raised {type(ex).__name__}: {ex}', 'required': 'a list or ValueError'}
        w = None if want[i] is None or any(want[b] is None for b in _closure(bases, i)) else [names[k] for k in want[i]]
        # Python cannot even build a class below a rejected one; C3 itself is still defined there, so compare
        # only where CPython has an answer or rejects this very class
        if want[i] is None and all(want[b] is not None for b in bases[i]):
            if got is not None:
                return {'observed': f'mro({names[i]}) = {got}', 'required': 'ValueError: Python rejects this hierarchy',
                        'class': 'accepts-inconsistent'}
        elif w is not None and got != w:
            return {'observed': f'mro({names[i]}) = {got}', 'required': f"Python's MRO {w}", 'class': 'wrong-order'}
    return None


def _closure(bases, i):
    seen = set()
    todo = list(bases[i])
    while todo:
        b = todo.pop()
        if b not in seen:
            seen.add(b)
            todo.extend(bases[b])
    return seen


def _merge_cases(tier, seed):
    elems = ['A', 'B', 'C']
    lists = [[]] + [list(p) for r in (1, 2, 3) for p in itertools.permutations(elems, r)]
    maxn = 3
    for n in range(0, maxn + 1):
        for combo in itertools.product(lists, repeat=n):
            yield {'lists': [list(c) for c in combo]}


def _check_merge(case):
    """_merge against the C3 spec function of specs/c05.py (the text the VCs are generated from)"""
    from pydoctor import mro
    import specs.c05 as S
    want = S.c3_merge([list(l) for l in case['lists']])
    try:
        got = mro._merge(*[list(l) for l in case['lists']])
    except ValueError:
        got = None
    except BaseException as ex:   # noqa
        return {'observed': f'raised {type(ex).__name__}: {ex}', 'required': 'a list or ValueError'}
    if got != want:
        return {'observed': f'_merge = {got}', 'required': f'c3_merge = {want}'}
    return None


HARNESS = {
    f'{R}:mro': {'cases': _cases, 'check': _check,
        'covers': [f'{R}:Dependency.head', f'{R}:Dependency.tail', f'{R}:DependencyList.__init__',
                   f'{R}:DependencyList.__contains__', f'{R}:DependencyList.heads', f'{R}:DependencyList.tails',
                   f'{R}:DependencyList.exhausted', f'{R}:DependencyList.remove'],
        'bound': 'every hierarchy of <= 4 (5 thorough) classes, every ordered choice of bases, against type().__mro__; + 300 (3000) random hierarchies of 5..8 classes'},
    f'{R}:_merge': {'cases': _merge_cases, 'check': _check_merge,
        'bound': 'all tuples of <= 3 lists over permutations of subsets of {A,B,C}, against the c3_merge spec function'},
}


# ---- model.py side: real projects built from generated class hierarchies, compared with CPython ----------------
M = 'pydoctor/model.py'
MEMBERS = ['m', 'n']


def _dfs(bases, i):
    out = [i]
    for b in bases[i]:
        out.extend(_dfs(bases, b))
    return out


def _model_cases(tier, seed):
    rnd = random.Random(seed + 3)
    hs = list(_hierarchies(4))
    n_plain = 0
    for h in hs:
        py = _cpython(h)
        top = len(h) - 1
        interesting = py[top] is not None and [x for k, x in enumerate(_dfs(h, top)) if x not in _dfs(h, top)[:k]] != py[top]
        if interesting:
            # depth-first order differs from the MRO: every placement of member m over the classes
            pats = list(itertools.product([False, True], repeat=len(h)))
            if tier == 'quick':
                pats = [p for p in pats if sum(p) == 2] + [tuple([True] * len(h))]
            for p in pats:
                yield {'bases': h, 'defs': {'m': list(p), 'n': [rnd.random() < 0.5 for _ in h]},
                       'docs': {'m': [rnd.random() < 0.6 for _ in h], 'n': [rnd.random() < 0.6 for _ in h]},
                       'split': rnd.random() < 0.5, 'style': rnd.randrange(4), 'hide': rnd.choice([None, None, 'class', 'member'])}
        else:
            n_plain += 1
            if tier == 'quick' and n_plain % 3:
                continue
            yield {'bases': h, 'defs': {mem: [rnd.random() < 0.5 for _ in h] for mem in MEMBERS},
                   'docs': {mem: [rnd.random() < 0.6 for _ in h] for mem in MEMBERS},
                   'split': rnd.random() < 0.5, 'style': rnd.randrange(4), 'hide': rnd.choice([None, None, 'class', 'member'])}


def _source(case):
    """-> list of (modname, text) ; with split=True the classes alternate between two modules importing each other's names"""
    bases, defs, docs = case['bases'], case['defs'], case['docs']
    mods = {'hmod': [], 'hmod2': []}
    where = {}
    for i, bs in enumerate(bases):
        mod = 'hmod2' if (case['split'] and i % 2) else 'hmod'
        where[i] = mod
    texts = {}
    style = case.get('style', 0)     # 0: bare names, 1: Name[int], 2: module.Name, 3: module.Name[int]
    for mod in mods:
        lines = ['from typing import Generic, TypeVar', 'T = TypeVar("T")']
        for i, bs in enumerate(bases):
            if where[i] != mod:
                continue
            for b in bs:
                if where[b] != mod:
                    lines.append(f'from {where[b]} import C{b}')
                    lines.append(f'import {where[b]}')
        for i, bs in enumerate(bases):
            if where[i] != mod:
                continue

            def spell(b):
                nm = f'C{b}'
                if style >= 2 and where[b] != mod:
                    nm = f'{where[b]}.{nm}'
                if style in (1, 3):
                    nm += '[int]'
                return nm
            bl = [spell(b) for b in bs]
            lines.append(f'class C{i}({", ".join(bl)}):' if bl else f'class C{i}:')
            body = ['    def __class_getitem__(cls, item): return cls'] if not bs else []
            for mem in MEMBERS:
                if defs[mem][i]:
                    body.append(f'    def {mem}(self):')
                    body.append(f'        "doc of C{i}.{mem}"' if docs[mem][i] else '        pass')
            lines.extend(body or ['    pass'])
        texts[mod] = '\n'.join(lines) + '\n'
    return texts, where


def _check_model(case):
    from pydoctor import model
    from replay import fixtures
    texts, where = _source(case)
    # CPython oracle
    ns = {}
    classes = {}
    try:
        import types, sys
        mods = {}
        for name in texts:
            mods[name] = types.ModuleType(name)
        # execute in dependency order: class i only depends on earlier classes, so interleave by class index is
        # not possible with two modules importing each other; build the classes directly instead
        for i, bs in enumerate(case['bases']):
            d = {}
            for mem in MEMBERS:
                if case['defs'][mem][i]:
                    def f(self):
                        pass
                    f.__doc__ = f'doc of C{i}.{mem}' if case['docs'][mem][i] else None
                    f.__name__ = mem
                    d[mem] = f
            classes[i] = type(f'C{i}', tuple(classes[b] for b in bs), d)
    except TypeError:
        classes = None
    privacy = []
    nb = len(case['bases'])
    if case.get('hide') == 'class' and nb >= 3:
        privacy = [('HIDDEN', f'{where[nb - 2]}.C{nb - 2}')]
    elif case.get('hide') == 'member' and nb >= 2:
        privacy = [('HIDDEN', f'{where[nb - 2]}.C{nb - 2}.m')]
    system = fixtures.build_system([(n, t, False) for n, t in sorted(texts.items())], privacy)
    if classes is not None:
        f_ = _check_tables(system, case, where, classes)
        if f_ is not None:
            return f_
    for i, bs in enumerate(case['bases']):
        c = system.allobjects.get(f'{where[i]}.C{i}')
        if c is None:
            return {'observed': f'class C{i} missing', 'required': 'documented'}
        if classes is None:
            continue
        py = classes.get(i)
        if py is None:
            continue
        want = [k.__name__ for k in py.__mro__ if k is not object]
        got = [k.name for k in c.mro()]
        if got != want:
            return {'observed': f'C{i}.mro() = {got}', 'required': f'Python: {want}', 'class': 'mro'}
        if c.mro()[0] is not c:
            return {'observed': 'mro()[0] is not the class', 'required': 'linearisation starts with the class itself'}
        for mem in MEMBERS:
            # attribute lookup along the MRO
            owner = next((k for k in py.__mro__ if mem in vars(k)), None)
            f = c.find(mem)
            if (owner is None) != (f is None) or (f is not None and f.parent.name != owner.__name__):
                return {'observed': f'C{i}.find({mem}) -> {f.parent.name if f else None}',
                        'required': f'defined by {owner.__name__ if owner else None}', 'class': 'find'}
            own = c.contents.get(mem)
            if own is not None:
                srcs = [s.parent.name for s in own.docsources()]
                wsrc = [k.__name__ for k in py.__mro__ if mem in vars(k)]
                if srcs != wsrc:
                    return {'observed': f'C{i}.{mem}.docsources() = {srcs}', 'required': f'{wsrc}', 'class': 'docsources'}
                doc, src = model.get_docstring(own)
                # what attribute lookup along the MRO yields (inspect.getdoc's rule for methods)
                wdoc = next((vars(k)[mem].__doc__ for k in py.__mro__ if mem in vars(k) and vars(k)[mem].__doc__), None)
                if doc != wdoc:
                    return {'observed': f'get_docstring(C{i}.{mem}) = {doc!r}', 'required': f'inspect.getdoc: {wdoc!r}',
                            'class': 'docstring'}
    return None


def _check_tables(system, case, where, classes):
    """inherited-member tables and override notes follow the linearisation: a member is attributed to the class that
    attribute lookup along the MRO yields; a hidden member or class is not listed but still masks what it overrides"""
    from pydoctor.templatewriter import util
    for i, bs in enumerate(case['bases']):
        c = system.allobjects[f'{where[i]}.C{i}']
        if not c.isVisible:
            continue
        py = classes[i]
        want = {}
        for mem in MEMBERS:
            owner = next((k for k in py.__mro__ if mem in vars(k)), None)
            if owner is None or owner is py:
                continue
            ob = system.allobjects[f'{where[int(owner.__name__[1:])]}.{owner.__name__}.{mem}']
            if ob.isVisible:
                want[mem] = owner.__name__
        got = {}
        for o in util.inherited_members(c):
            if o.name in MEMBERS:
                if o.name in got:
                    return {'observed': f'C{i}: inherited member {o.name} listed twice', 'required': 'once', 'class': 'tables-dup'}
                got[o.name] = o.parent.name
        if got != want:
            return {'observed': f'C{i} (privacy {case.get("hide")}): inherited members {got}', 'required': f'{want} (attribute lookup along the MRO)',
                    'class': 'tables'}
        # the 'overrides' note of an own member names the definition that lookup along the rest of the MRO yields
        if case.get('hide') is None:
            from pydoctor.templatewriter import pages
            from pydoctor.stanutils import flatten
            import re as _re
            for mem in MEMBERS:
                if mem not in vars(py):
                    continue
                owner = next((k for k in py.__mro__[1:] if mem in vars(k)), None)
                html = flatten(list(pages.get_override_info(c, mem)))
                m = _re.search(r'overrides\s*<code>(.*?)</code>', html, _re.S)
                named = _re.sub(r'<[^>]+>', '', m.group(1)).replace('\u200b', '').strip() if m else None
                wanted = f'{where[int(owner.__name__[1:])]}.{owner.__name__}.{mem}' if owner is not None else None
                if named != wanted:
                    return {'observed': f"C{i}.{mem}: note says 'overrides {named}'", 'required': f'overrides {wanted} (first definition along the MRO after the class)',
                            'class': 'override-note'}
    return None


def _incons_cases(tier, seed):
    yield {'src': 'class A: pass\nclass B(A): pass\nclass X(A, B): pass\nclass Y(X): pass\nclass Z: pass\n'}
    yield {'src': 'class A: pass\nclass B: pass\nclass P(A, B): pass\nclass Q(B, A): pass\nclass R(P, Q): pass\n'}
    yield {'src': 'class A(B): pass\nclass B(A): pass\nclass C: pass\n'}


def _check_incons(case):
    """Python rejects the hierarchy: pydoctor reports it for that class (section mro) and still documents it"""
    import io, contextlib
    from replay import fixtures
    buf = io.StringIO()
    with contextlib.redirect_stdout(buf):
        try:
            system = fixtures.build_system([('inc', case['src'], False)], quiet=False)
        except BaseException as ex:  # noqa
            return {'observed': f'build raised {type(ex).__name__}: {ex}', 'required': 'report and continue'}
    ns = {}
    bad = []
    for line in case['src'].splitlines():
        try:
            exec(line, ns)
        except (TypeError, NameError):
            bad.append(line.split()[1].split('(')[0].rstrip(':'))
    mod = system.allobjects['inc']
    for name in [l.split()[1].split('(')[0].rstrip(':') for l in case['src'].splitlines()]:
        c = mod.contents.get(name)
        if c is None:
            return {'observed': f'{name} not documented', 'required': 'still documented'}
        if not c.mro() or c.mro()[0] is not c:
            return {'observed': f'{name}.mro() = {[k.name for k in c.mro()]}', 'required': 'starts with the class itself'}
    warned = [n for n in bad if f'inc.{n}' in buf.getvalue() or 'Cannot compute' in buf.getvalue() or 'Cycle' in buf.getvalue()]
    if bad and not system.parse_errors and 'mro' not in str(system.violations) and not warned:
        return {'observed': f'no report for {bad}; output {buf.getvalue()[:200]!r}', 'required': 'inconsistency reported'}
    return None


HARNESS[f'{M}:Class.mro'] = {'cases': _model_cases, 'check': _check_model,
    'covers': [f'{M}:Class.find', f'{M}:Inheritable.docsources', f'{M}:get_docstring', f'{M}:compute_mro', f'{M}:Class._init_mro',
               'pydoctor/templatewriter/util.py:unmasked_attrs', 'pydoctor/templatewriter/util.py:nested_bases',
               'pydoctor/templatewriter/util.py:inherited_members'],
    'bound': '120 (1500) hierarchies of <= 4 classes with members m/n defined and documented at random levels, one or two modules, against CPython type()/inspect.getdoc'}
HARNESS[f'{M}:Class._init_mro'] = {'cases': _incons_cases, 'check': _check_incons,
    'bound': '3 inconsistent / cyclic hierarchies'}


# ---- zope interfaces: the docstring an implementer's undocumented member takes from its interfaces follows the linearisation ----
def _iface_cases(tier, seed):
    # which of the four interfaces of the diamond IBoth(ILeft, IRight) over IRoot declare (and document) the member
    for mask in range(1, 16):
        yield {'declares': [bool(mask & (1 << k)) for k in range(4)]}


def _check_ifaces(case):
    """an undocumented method of a class that implements IBoth is documented by the first interface of IBoth's linearisation
    (IBoth, ILeft, IRight, IRoot - C3, what zope computes as __iro__) that declares it"""
    from replay import fixtures
    from pydoctor import model
    names = ['IBoth', 'ILeft', 'IRight', 'IRoot']
    decl = dict(zip(names, case['declares']))

    def body(n):
        return (f'    def meth():\n        "doc from {n}"\n' if decl[n] else '    pass\n')
    src = ('from zope.interface import Interface, implementer\n'
           'class IRoot(Interface):\n' + body('IRoot') +
           'class ILeft(IRoot):\n' + body('ILeft') +
           'class IRight(IRoot):\n' + body('IRight') +
           'class IBoth(ILeft, IRight):\n' + body('IBoth') +
           '@implementer(IBoth)\nclass Impl:\n    def meth(self):\n        pass\n'
           'class Sub(Impl):\n    def meth(self):\n        pass\n'
           # a class that inherits a documented definition from an ordinary base class: that one comes first (it is on the MRO)
           'class Documented:\n    def meth(self):\n        "doc from Documented"\n'
           '@implementer(IBoth)\nclass Impl2(Documented):\n    def meth(self):\n        pass\n'
           # the same for a variable: the documented class variable of the base class comes before the interface's Attribute
           'from zope.interface import Attribute\nclass IAttr(Interface):\n    level = Attribute("doc from IAttr")\n'
           'class DocumentedAttr:\n    level = 1\n    "doc from DocumentedAttr"\n'
           '@implementer(IAttr)\nclass Impl3(DocumentedAttr):\n    level = 2\n'
           '@implementer(IAttr)\nclass Impl4:\n    level = 3\n')
    system = fixtures.build_system([('zi', src, False)])
    want = next((n for n in names if decl[n]), None)
    fails = []
    for cls in ('zi.Impl', 'zi.Sub'):
        o = system.allobjects[cls + '.meth']
        doc, source = model.get_docstring(o)
        got = None if doc is None else doc.replace('doc from ', '')
        if got != want:
            fails.append({'observed': f'{cls}.meth takes its docstring from {got} (declared by {[n for n in names if decl[n]]})', 'required': f'{want}: the first interface along IBoth, ILeft, IRight, IRoot',
                          'class': 'interface-docsource'})
    doc2, _src2 = model.get_docstring(system.allobjects['zi.Impl2.meth'])
    if doc2 != 'doc from Documented':
        fails.append({'observed': f'zi.Impl2.meth takes its docstring {doc2!r}', 'required': "'doc from Documented': the base class on the linearisation comes before the interfaces",
                      'class': 'interface-before-base'})
    doc3, _s3 = model.get_docstring(system.allobjects['zi.Impl3.level'])
    if doc3 != 'doc from DocumentedAttr':
        fails.append({'observed': f'zi.Impl3.level takes its docstring {doc3!r}', 'required': "'doc from DocumentedAttr': the base class on the linearisation comes before the interfaces",
                      'class': 'interface-before-base-attribute'})
    doc4, _s4 = model.get_docstring(system.allobjects['zi.Impl4.level'])
    if doc4 != 'doc from IAttr':
        fails.append({'observed': f'zi.Impl4.level takes its docstring {doc4!r}', 'required': "'doc from IAttr': the interface documents what no class on the linearisation does",
                      'class': 'interface-attribute-docsource'})
    return fails or None


HARNESS['pydoctor/extensions/zopeinterface.py:_inheritedDocsources'] = {'cases': _iface_cases, 'check': _check_ifaces,
    'bound': 'a diamond of four interfaces, every non-empty subset of them declaring the member (15), an implementer and a subclass of it'}


# ---- nested classes: a base named in a class body is looked up in that class body first -----------------------------------
NESTED_SRC = '''\
from typing import Generic, TypeVar
T = TypeVar("T")
class A:
    def m(self): "A.m"
    def only_a(self): "A.only_a"
class G(Generic[T]):
    def g(self): "G.g"
class Outer:
    class A:
        def m(self): "Outer.A.m"
    class G(Generic[T]):
        def g(self): "Outer.G.g"
    class B(A):
        pass
    class H(G[int], B):
        pass
    class Deep:
        class A:
            def m(self): "Outer.Deep.A.m"
        class C(A):
            pass
class Later(Outer.B):
    pass
class Plain(A):
    pass
class DA:
    def m(self): "DA.m"
    class Inner: pass
class DB(DA):
    pass
class DC(DA):
    def m(self): "DC.m"
    class Inner: pass
class DD(DB, DC):
    """See L{DD.m} and L{DD.Inner}."""
'''


def _nested_cases(tier, seed):
    yield {'nested': True}


def _check_nested(case):
    """linearisation, defining class and inherited docstring of classes whose bases are written with names that both the enclosing
    class body and the module bind - against CPython on the same source"""
    import inspect
    from replay import fixtures
    from pydoctor import model
    ns = {'__name__': 'nm'}
    exec(NESTED_SRC, ns)
    system = fixtures.build_system([('nm', NESTED_SRC, False)])
    fails = []
    for qual in ('Outer.B', 'Outer.H', 'Outer.Deep.C', 'Later', 'Plain', 'DD', 'DB'):
        pycls = ns[qual.split('.')[0]]
        for part in qual.split('.')[1:]:
            pycls = getattr(pycls, part)
        want = ['nm.' + c.__qualname__ for c in pycls.__mro__ if c.__module__ == 'nm']
        o = system.allobjects['nm.' + qual]
        got = [c.fullName() for c in o.mro() if isinstance(c, model.Class)]
        if got != want:
            fails.append({'observed': f'nm.{qual}: linearisation {got}', 'required': f'{want} (type().__mro__)', 'class': 'nested-mro'})
            continue
        for member in ('m', 'g', 'only_a', 'Inner'):
            pym = getattr(pycls, member, None)
            # ... and the same lookup written as a dotted name in the module
            dotted = system.allobjects['nm'].resolveName(f'{qual}.{member}')
            if (pym is None) != (dotted is None) or (pym is not None and 'nm.' + pym.__qualname__ != dotted.fullName()):
                fails.append({'observed': f"nm.resolveName('{qual}.{member}') -> {dotted and dotted.fullName()}", 'required': f'{pym and pym.__qualname__}', 'class': 'nested-dotted'})
            found = o.find(member)
            if (pym is None) != (found is None) or (pym is not None and 'nm.' + pym.__qualname__ != found.fullName()):
                fails.append({'observed': f'nm.{qual}.find({member!r}) -> {found and found.fullName()}', 'required': f'{pym and pym.__qualname__}', 'class': 'nested-find'})
    return fails or None


HARNESS['pydoctor/astbuilder.py:ModuleVistor.visit_ClassDef'] = {'cases': _nested_cases, 'check': _check_nested,
    'bound': 'one module with classes nested two levels deep whose base names (plain and generic) are bound both in the enclosing class body and in the module'}
