"""A "kitchen sink" project shared by the site-level harnesses (C01 C11 C12 C17 C18): one package that uses most documented
features at once, so that a change in a rarely visited corner (a theme template, an extension, a summary page) meets input that
reaches it.  Kept free of the constructs behind listed findings (duplicate definitions, footnotes, lone surrogates)."""

KITCHEN = {
    'ks/__init__.py': '''"""
Kitchen sink package.

Usage
=====

See L{ks.core.Engine}, L{Engine.start}, L{ks.api.Widget} and L{helper}.

Details
=======

More text with C{code}, I{italic} and a U{link<https://example.org>}.
"""
from ks._impl import Engine, helper
from ks._impl import *
from ks import api, core
__all__ = ["Engine", "helper", "Alpha", "Beta", "api", "VERSION"]
VERSION = "1.0"
"""The version, see L{Engine}."""
''',
    'ks/__main__.py': '"""Entry point."""\nfrom ks import Engine\ndef main(argv=None):\n    "Run."\n    return Engine().start()\nif __name__ == "__main__":\n    main()\n',
    'ks/_impl.py': '''"""Implementation module (private)."""
import re
from typing import Dict, Generic, List, Optional, TypeVar, Union, overload
T = TypeVar("T")
K = TypeVar("K", "str", "bytes")
Json = Union[str, int, List["Json"], Dict[str, "Json"]]
"""A recursive alias."""
PATTERN = re.compile(r"[a\\-z]+(?i:x)|abcq|abdz", flags=re.I)
WIDE = ["a" * 30, "b" * 30, "c" * 30, "d" * 30]
class Alpha:
    """Alpha. See L{Beta} and L{Alpha.run}."""
    def run(self, x: "Json" = None, *args: int, key: Optional[str] = None, **kw: T) -> "Beta":
        """Run.

        @param x: the value
        @type x: L{Json}
        @return: a L{Beta}
        @raise ValueError: never
        """
    @property
    def size(self):
        """
        @return: the size, see L{Beta}
        @rtype: int
        """
        return 1
    @size.setter
    def size(self, v): pass
    attr: "Beta" = None
    """An attribute."""
class Beta(Alpha, Generic[T]):
    "Beta."
    def run(self, x=None, *args, key=None, **kw):
        pass
    class Inner:
        "Nested."
        Key = Union[str, bytes]
        "Key type."
        class Table(Dict[Key, int]):
            "Uses an attribute of the enclosing class."
            def get(self, k: Key) -> "Beta.Inner":
                "doc"
class Engine(Beta[int]):
    """The engine.

    @ivar speed: how fast
    @type speed: int
    @cvar LIMIT: the limit
    """
    LIMIT = 10
    def __init__(self, speed: int = 1):
        self.speed = speed
        self._secret = 0
    def start(self) -> "Engine":
        "Start. See L{stop}."
        return self
    def stop(self): pass
    @classmethod
    def make(cls) -> "Engine":
        "Constructor."
    @staticmethod
    def version(sep=".", *, pad=f"x\\n{VERSION if False else 1}") -> str:
        "Static."
    @overload
    def feed(self, a: int) -> int: ...
    @overload
    def feed(self, a: str, b: bytes = b"it's") -> str: ...
    def feed(self, a, b=None):
        "Overloaded."
def helper(a, /, b=(1, 2), *, c: "Alpha" = None) -> None:
    """Helper.

    @param a: see L{Alpha}
    """
def _private_helper(): pass
class _Hidden:
    "Hidden by rules in some runs."
    def visible_name(self): "doc"
''',
    'ks/core.py': '''"""
Core (reStructuredText).

Overview
========

Text with `Engine`, `ks.api.Widget.draw` and ``literal``.

.. note:: A note.
"""
__docformat__ = "restructuredtext"
from ks._impl import Engine, Alpha as A2
from ks import cyc_b
import extlib
class Fast(Engine, extlib.Mixin):
    """Fast engine.

    :ivar gear: the gear
    :type gear: int
    """
    maker: "ks.core.factory" = None
    """Named by its full dotted name, without an import."""
    limit: "ks._impl.Engine.LIMIT" = 3
    def start(self, how: "ks.core.factory" = None) -> "ks.core.Cyc":
        pass
    def stop(self):
        """Stop. See `start` and `Engine.start`.

        :param nothing: does not exist
        :returns: nothing
        """
class Cyc(cyc_b.CycBase):
    "Across an import cycle."
def factory(kind: A2 = A2, engine: "Engine" = None, *more: "Fast") -> Fast:
    "Factory."
''',
    'ks/cyc_b.py': 'from ks import core\nclass CycBase:\n    "Base."\n    def m(self): "doc"\nclass CycSub(core.Fast):\n    "Sub."\n',
    'ks/api.py': '''"""Public API (google style)."""
__docformat__ = "google"
from zope.interface import Interface, Attribute, implementer
from ks._impl import Beta as Widget
from twisted.python.deprecate import deprecated
from incremental import Version
import attr
__all__ = ["Widget", "IDraw", "Canvas"]
class IShape(Interface):
    "Shape."
    area = Attribute("The area.")
    def draw(scale):
        "Draw as a shape."
class IDraw(IShape):
    "Drawable."
    def draw(scale):
        "Draw it."
class IPaint(IShape):
    "Paintable."
    def paint(): "Paint it."
@implementer(IDraw, IPaint)
class Canvas:
    """Canvas.

    Attributes:
        width (int): the width
    """
    def draw(self, scale): pass
    def paint(self): pass
    @deprecated(Version("ks", 1, 2, 0), "Canvas.paint")
    def old(self):
        """Old.

        Args:
            nothing: no such parameter

        Returns:
            int: zero
        """
class Sub(Canvas):
    def draw(self, scale=1.5): pass
@attr.s(auto_attribs=True)
class Point:
    "Point."
    x: int = 0
    y: int = attr.ib(default=0, kw_only=True)
''',
    'ks/sub/__init__.py': '"""Sub package (numpy style)."""\n__docformat__ = "numpy"\n',
    'ks/sub/leaf.py': '''"""Leaf."""
from ks.core import Fast
from ks import Engine as E
class Ünï(Fast):
    """Non-ASCII.

    Parameters
    ----------
    speed : int
        The speed.
    """
    def méthode(self, ñ=1): "döc"
def late(): "first"
late.__doc__ = "Assigned later, see L{Ünï}."
''',
    'solo.py': '"""A module root next to the package."""\nimport ks\nclass S(ks.Engine):\n    "doc"\n',
}

OPTION_SETS = [
    {'rules': [], 'extra': []},
    {'rules': ['HIDDEN:ks._impl._Hidden', 'PRIVATE:ks.api.Point', 'PUBLIC:ks._impl'], 'extra': ['--process-types']},
    {'rules': ['HIDDEN:ks.cyc_b'], 'extra': ['--theme', 'readthedocs', '--sidebar-expand-depth', '3', '--sidebar-toc-depth', '3']},
    {'rules': ['PRIVATE:ks.core.F*', 'HIDDEN:ks.api.IPaint'], 'extra': ['--theme', 'classic']},
    # every known subclass / implementation of some visible classes is hidden
    {'rules': ['HIDDEN:ks.cyc_b', 'HIDDEN:ks.sub', 'HIDDEN:solo', 'HIDDEN:ks.api.Canvas', 'HIDDEN:ks.api.Sub'], 'extra': []},
]
