"""C15 native harness (bounded): displayed expression text, read back as Python, is the same expression."""
from __future__ import annotations
import ast
import itertools
import random

P = 'pydoctor/epydoc/markup/_pyval_repr.py'
BIN = ['+', '-', '*', '/', '//', '%', '**', '@', '<<', '>>', '&', '|', '^']
UN = ['-', '+', '~', 'not ']
BOOL = [' and ', ' or ']


def _text(expr_src, linelen=None, maxlines=1, linebreakok=False):
    from pydoctor.epydoc.markup._pyval_repr import colorize_pyval
    from pydoctor.node2stan import gettext
    node = ast.parse(expr_src, mode='eval').body
    r = colorize_pyval(node, linelen=linelen, maxlines=maxlines, linebreakok=linebreakok)
    return ''.join(gettext(r.to_node())), r


def _norm(src):
    """canonical dump, with the documented spelling changes undone (set([...]) is a set literal)"""
    t = ast.parse(src, mode='eval').body

    class N(ast.NodeTransformer):
        def visit_Call(self, node):
            self.generic_visit(node)
            if isinstance(node.func, ast.Name) and node.func.id == 'set' and len(node.args) == 1 and \
                    isinstance(node.args[0], ast.List) and not node.keywords:
                return ast.Set(elts=node.args[0].elts)
            if ast.unparse(node.func) == 're.compile' and all(k.arg in ('pattern', 'flags') for k in node.keywords) and \
                    not any(isinstance(a, ast.Starred) for a in node.args) and len(node.args) + len(node.keywords) <= 2:
                # re.compile(pattern, flags): shown with positional arguments whichever way they were passed
                by = dict(zip(('pattern', 'flags'), node.args))
                by.update({k.arg: k.value for k in node.keywords})
                if 'pattern' in by:
                    return ast.Call(func=node.func, args=[by['pattern']] + ([by['flags']] if 'flags' in by else []), keywords=[])
            return node
    return ast.dump(N().visit(t))


def _chains():
    leaves = ['a', 'b', 'c']
    # depth-3 operator chains with explicit grouping on either side
    for o1, o2 in itertools.product(BIN, repeat=2):
        yield f'(a {o1} b) {o2} c'
        yield f'a {o1} (b {o2} c)'
    for u in UN:
        for o in BIN:
            yield f'{u}(a {o} b)'
            yield f'({u}a) {o} b'
            yield f'a {o} ({u}b)'
            yield f'a {o} {u}b' if o != '**' or u != 'not ' else 'a'
        for b in BOOL:
            yield f'{u}(a{b}b)'
            yield f'({u}a){b}b'
    for b1, b2 in itertools.product(BOOL, repeat=2):
        yield f'(a{b1}b){b2}c'
        yield f'a{b1}(b{b2}c)'
    for b in BOOL:
        for o in BIN:
            yield f'(a{b}b) {o} c'
            yield f'a {o} (b{b}c)'
            yield f'(a {o} b){b}c'


def _depth2():
    forms = ['a', '1', "'s'", 'a.b', 'a[b]', 'a[b, c]', 'a[b,]', 'a[1:2]', 'f(a)', 'f(a, b=c)', 'f(*a, **b)', '(a,)', '(a, b)', '()',
             '[a]', '[a, b]', '{a}', '{a: b}', 'a if b else c', 'a < b', 'a < b < c', 'a is not b', 'a not in b', 'lambda x: x',
             '-a', 'not a', 'a + b', 'a and b', '*a', 'a.b.c', '1.5', '1e10', '0x10', "b'x'", 'None', 'True', '...',
             "f'{a}\\n{b}'", "f'x{a!r:>10}y'", "f'''{a}\n{b}'''", "f'{a} {b}'", "'a\\nb'", "'''a\nb'''", "b'a\\nb'",
             "lambda x: 'a\\nb'", "a if 'x\\ny' else b",
             'b"it\'s"', "b'q\"q'", "'a\\x00b'", "'\\x1f\\x7f'", "'it\\'s'", '1e999', 'x[(a, b):c]',
             "re.compile(r'[a\\-z]')", "re.compile('(?i:ab)')", "re.compile(r'\\d+(?P<n>x)')",
             "re.compile('a+b', flags=re.I)", "re.compile('a', **kw)", "re.compile('a', re.I, **kw)", "re.compile(flags=re.I | re.M, pattern='a+b')", "re.compile('a+b', re.X)", "re.compile(pattern='a+b')",
             '[x for x in y]', '{x: y for x in z}', '(x for x in y)', 'a[(b, c)]', 'a[b][c]', 'f(a)(b)', '(a, (b,))', '[(a,)]']
    for f in forms:
        if not f.startswith('*'):
            yield f
    wrappers = ['[{0}]', '({0},)', '({0}, b)', 'f({0})', 'f(k={0})', '{{k: {0}}}', 'x[{0}]', '({0}).attr', '-({0})', 'not ({0})',
                '({0}) + y', 'y - ({0})', '({0}) and y', '({0}) if c else d', 'c if ({0}) else d', '({0}) < y', 'f(*({0}))',
                '({0})[i]', '({0})(z)', 'y ** ({0})', '({0}) ** y',
                # starred operands in displays and calls
                '[*({0}), c]', '(*({0}), None)', '{{*({0}), 3}}', 'f(*({0}), k=1)', 'f(**({0}))', '{{**({0}), k: v}}']
    for w in wrappers:
        for f in forms:
            if f.startswith('*'):
                continue
            yield w.format(f)


def _cases(tier, seed):
    seen = set()
    for s in itertools.chain(_chains(), _depth2()):
        if s not in seen:
            seen.add(s)
            try:
                ast.parse(s, mode='eval')
            except SyntaxError:
                continue
            yield {'expr': s}
    rnd = random.Random(seed)
    atoms = ['a', 'b', '1', "'s'", '(a,)', 'x[i]', 'f(y)']

    def gen(d):
        if d == 0 or rnd.random() < 0.2:
            return rnd.choice(atoms)
        k = rnd.random()
        if k < 0.5:
            return f'({gen(d - 1)}) {rnd.choice(BIN)} ({gen(d - 1)})'
        if k < 0.65:
            return f'{rnd.choice(UN)}({gen(d - 1)})'
        if k < 0.8:
            return f'({gen(d - 1)}){rnd.choice(BOOL)}({gen(d - 1)})'
        if k < 0.9:
            return f'({gen(d - 1)}, )' if rnd.random() < 0.5 else f'[{gen(d - 1)}, {gen(d - 1)}]'
        return f'({gen(d - 1)}) if ({gen(d - 1)}) else ({gen(d - 1)})'
    for _ in range(300 if tier == 'quick' else 5000):
        yield {'expr': gen(rnd.randint(2, 4))}


def _check(case):
    src = case['expr']
    try:
        text, r = _text(src)
    except BaseException as ex:    # noqa
        return {'observed': f'colorizer raised {type(ex).__name__}: {ex}', 'required': 'renders', 'class': 'raise'}
    if not r.is_complete:
        if '...' not in text:
            return {'observed': f'incomplete but not marked: {text!r}', 'required': 'visibly marked as truncated', 'class': 'unmarked'}
        return None
    try:
        got = _norm(text)
    except SyntaxError:
        return {'observed': f'{src!r} is displayed as {text!r}, which is not Python', 'required': 'reads back as the same expression',
                'class': 'unparsable:' + _shape(src), 'regex_redisplay': False, **_finding_flags(src)}
    want = _norm(src)
    if got != want:
        # listed findings, recognised by "the disagreement disappears once that sub-expression is replaced"
        flags = _finding_flags(src)
        return {'observed': f'{src!r} is displayed as {text!r}', 'required': 'reads back as the same expression',
                'class': 'meaning:' + _shape(src) + ''.join('+' + k for k, v in flags.items() if v and k != 'short_tuple'), 'shape': _shape(src),
                'regex_redisplay': False, **flags}
    return None


class _Pad(ast.NodeTransformer):
    def visit_Tuple(self, node):
        self.generic_visit(node)
        while len(node.elts) == 1:
            node.elts.append(ast.Name(id='pad_', ctx=ast.Load()))
        return node


class _NoInf(ast.NodeTransformer):
    def visit_Constant(self, node):
        return ast.Constant(value=1.5) if _is_inf(node) else node


class _NoSliceTuple(ast.NodeTransformer):
    def visit_Slice(self, node):
        self.generic_visit(node)
        for f in ('lower', 'upper', 'step'):
            if isinstance(getattr(node, f), ast.Tuple):
                setattr(node, f, ast.Name(id='bound_', ctx=ast.Load()))
        return node


def _finding_flags(src):
    """which listed findings the disagreement on `src` consists of: the features present in the expression, such that the disagreement
    disappears once all of them are replaced by something harmless - and is there again when only that one is put back"""
    feats = {'short_tuple': (lambda n: isinstance(n, ast.Tuple) and len(n.elts) == 1, _Pad), 'float_inf': (_is_inf, _NoInf),
             'slice_tuple_bound': (_is_slice_tuple, _NoSliceTuple)}
    out = {k: False for k in feats}
    t0 = ast.parse(src, mode='eval').body
    present = [k for k, (pred, _) in feats.items() if any(pred(n) for n in ast.walk(t0))]

    def ok_without(keys):
        t = ast.parse(src, mode='eval').body
        for k in keys:
            t = feats[k][1]().visit(t)
        neutral = ast.unparse(ast.fix_missing_locations(t))
        try:
            text, r = _text(neutral)
            return _norm(text) == _norm(neutral)
        except Exception:     # noqa
            return False
    if present and ok_without(present):
        for k in present:
            if len(present) == 1 or not ok_without([p for p in present if p != k]):
                out[k] = True
    return out


def _short_tuple(src):
    """the expression contains a tuple of one element that is displayed (known finding KF-C15-one-tuple),
    and the disagreement disappears once those tuples are given a second element"""
    t = ast.parse(src, mode='eval').body
    if not any(isinstance(n, ast.Tuple) and len(n.elts) == 1 for n in ast.walk(t)):
        return False

    class Pad(ast.NodeTransformer):
        def visit_Tuple(self, node):
            self.generic_visit(node)
            while len(node.elts) == 1:
                node.elts.append(ast.Name(id='pad_', ctx=ast.Load()))
            return node
    padded = ast.unparse(ast.fix_missing_locations(Pad().visit(t)))
    try:
        text, r = _text(padded)
        return _norm(text) == _norm(padded)
    except Exception:
        return False


def _neutralised_ok(src, present, transform):
    """the expression has the feature, and the disagreement disappears once the feature is replaced by something harmless"""
    t = ast.parse(src, mode='eval').body
    if not any(present(n) for n in ast.walk(t)):
        return False
    try:
        neutral = ast.unparse(ast.fix_missing_locations(transform().visit(t)))
        text, r = _text(neutral)
        return _norm(text) == _norm(neutral)
    except Exception:
        return False


def _is_inf(n):
    return isinstance(n, ast.Constant) and isinstance(n.value, float) and n.value in (float('inf'), float('-inf'))


def _float_inf(src):
    class T(ast.NodeTransformer):
        def visit_Constant(self, node):
            return ast.Constant(value=1.5) if _is_inf(node) else node
    return _neutralised_ok(src, _is_inf, T)


def _is_slice_tuple(n):
    return isinstance(n, ast.Slice) and any(isinstance(b, ast.Tuple) for b in (n.lower, n.upper, n.step) if b is not None)


def _slice_tuple(src):
    class T(ast.NodeTransformer):
        def visit_Slice(self, node):
            self.generic_visit(node)
            for f in ('lower', 'upper', 'step'):
                if isinstance(getattr(node, f), ast.Tuple):
                    setattr(node, f, ast.Name(id='bound_', ctx=ast.Load()))
            return node
    return _neutralised_ok(src, _is_slice_tuple, T)


def _is_re_compile(n):
    return isinstance(n, ast.Call) and ast.unparse(n.func) == 're.compile' and n.args and isinstance(n.args[0], ast.Constant) \
        and isinstance(n.args[0].value, str) and ('\\-' in n.args[0].value or '(?i:' in n.args[0].value)


def _regex_redisplay(src):
    class T(ast.NodeTransformer):
        def visit_Call(self, node):
            self.generic_visit(node)
            if _is_re_compile(node):
                node.args[0] = ast.Constant(value='abc')
            return node
    return _neutralised_ok(src, _is_re_compile, T)


def _shape(src):
    """coarse classification of a disagreement (used to tell known findings apart)"""
    t = ast.parse(src, mode='eval').body
    kinds = sorted({type(n).__name__ for n in ast.walk(t) if isinstance(n, (ast.Tuple, ast.BinOp, ast.BoolOp, ast.UnaryOp, ast.Subscript,
                                                                            ast.Lambda, ast.IfExp, ast.Compare, ast.Starred,
                                                                            ast.GeneratorExp, ast.ListComp, ast.DictComp))})
    return '+'.join(kinds)[:60]


def _trunc_cases(tier, seed):
    exprs = ['[1, 2, 3, 4, 5, 6, 7, 8, 9, 10, 11, 12, 13, 14, 15, 16, 17, 18, 19, 20]', "'" + 'x' * 200 + "'",
             '{"a": [1, 2, 3], "b": [4, 5, 6], "c": [7, 8, 9]}', 'f(aaaaaaaaaa, bbbbbbbbbbbb, cccccccccccc, dddddddddddd)',
             "'line1\\nline2\\nline3'", 'a + b']
    for e in exprs:
        for linelen in (None, 10, 20, 40, 80):
            for maxlines in (1, 2, 3, 10):
                for lbok in (True, False):
                    yield {'expr': e, 'linelen': linelen, 'maxlines': maxlines, 'linebreakok': lbok}


def _check_trunc(case):
    """cut output is visibly marked; complete output is complete"""
    try:
        text, r = _text(case['expr'], case['linelen'], case['maxlines'], case['linebreakok'])
        full, _ = _text(case['expr'], None, 1000, True)
    except BaseException as ex:    # noqa
        return {'observed': f'raised {type(ex).__name__}: {ex}', 'required': 'renders'}
    plain = text.replace('↵\n', '')
    if r.is_complete:
        try:
            same = _norm(plain) == _norm(case['expr'])
        except SyntaxError:
            same = False
        if not same:
            return {'observed': f'is_complete but {text!r} does not read back as {case["expr"][:60]!r}', 'required': 'never silently shortened',
                    'class': 'silent'}
    else:
        if not text.rstrip().endswith('...'):
            return {'observed': f'truncated output {text!r} does not end with the ellipsis marker', 'required': 'visibly marked', 'class': 'unmarked'}
    return None


ANN_SOURCES = [
    "def f(a: t.Literal['on', 'off'], b: typing_extensions.Literal['r', 'w'] = 'r') -> typing.Literal['x y']:\n    pass\n",
    "def f(a: Literal['a b', 1, None], b: 'List[t.Literal[\"q\"]]', c: \"typing.Literal['z']\") -> 'a.B':\n    pass\n",
    "def f(a: List['a.B'] = [], *args: 'int', k: t.Literal['only'] = 'only', **kw: \"List['str']\"):\n    pass\n",
    "def f(a: typing_extensions.Literal['pass', 'class']) -> List[typing_extensions.Literal['x']]:\n    pass\n",
    # strings that are only a part of the annotation, next to an operator that binds tighter than theirs
    "def f(a: A & 'B | C', b: ~'A | B' = 1, c: 'int' | None = None, d: 'A | B' & 'C | D' = 0) -> -'a + b':\n    pass\n",
    "def f(a: List['A | B'] | 'C & D', b: ('X' | Y)['Z | W'] = 2) -> 'P | Q' | R:\n    pass\n",
]


def _ann_cases(tier, seed):
    for s_ in ANN_SOURCES:
        yield {'src': s_}


def _check_ann(case):
    """annotations are displayed expressions too: as written, string annotations unquoted, the arguments of (any spelling of) Literal untouched"""
    from replay import c14
    return c14._check(case)


REGEXES = ['abcx|abdy', 'ab|ac', 'a|b', 'foo|foobar', '(abc|abd)', '(?:ab|ac)+', 'abc|abd|x', 'xa|ya', 'a(b|c)d', 'ab?|ac*', 'x(?:ab|ac)+y', '(?P<n>ab|ac)z|q',
           'ab|abc|abd', 'a|ab|abc', '^ab$|^ac$', 'a.|a\\d', '[ab]c|[ab]d', 'abab|abba', '(ab|ac)\\1', 'a{2}b|a{2}c', 'ab|', '|ab', 'aa|ab|ba|bb',
           # sets with a literal dash, scoped inline flags
           '[a\\-z]', '[-az]', '[az-]', '[+--]b', '[\\w-]a', '[^-]a', '(?i:ab)c', '(?-i:ab)c', '(?i:a)(?s:.)b', 'a(?i:b|c)d']


def _regex_cases(tier, seed):
    for r_ in REGEXES:
        yield {'regex': r_}
    rnd = random.Random(seed)
    for _ in range(60 if tier == 'quick' else 1500):
        alts = [''.join(rnd.choice('ab') for _ in range(rnd.randint(0, 4))) + rnd.choice(['', '', 'c', 'd?', '[cd]', '(?:e|f)']) for _ in range(rnd.randint(2, 4))]
        yield {'regex': '|'.join(alts) if rnd.random() < 0.6 else 'x(?:' + '|'.join(alts) + ')y'}


def _check_regex(case):
    """re.compile(<pattern>) is re-rendered from the parsed pattern: the pattern shown must match exactly the same strings"""
    import re
    src = f're.compile({case["regex"]!r})'
    try:
        re.compile(case['regex'])
    except re.error:
        return None
    text, r = _text(src)
    try:
        shown = ast.parse(text, mode='eval').body
        assert isinstance(shown, ast.Call) and ast.unparse(shown.func) == 're.compile' and len(shown.args) == 1 and not shown.keywords
        shown_pat = ast.literal_eval(shown.args[0])
        a, b = re.compile(case['regex']), re.compile(shown_pat)
    except Exception as ex:      # noqa
        return {'observed': f'{src} is displayed as {text!r}: {type(ex).__name__}', 'required': 'the call that was written', 'class': 'regex-unreadable'}
    letters = sorted(set(c for c in case['regex'] if c.isalpha()) | {'z'})[:6]
    for n in range(0, 7):
        for tup in itertools.product(letters, repeat=n):
            w = ''.join(tup)
            ma, mb = a.fullmatch(w), b.fullmatch(w)
            if (ma is None) != (mb is None) or (ma is not None and ma.groups() != mb.groups()):
                return {'observed': f'{src} is displayed as {text!r}; on {w!r} the written pattern gives {ma and (ma.group(0), ma.groups())}, the displayed one {mb and (mb.group(0), mb.groups())}',
                        'required': 'a pattern that matches the same strings', 'class': 'regex-meaning'}
            if n * len(letters) ** n > 60000:
                break
    return None


CONST_MODULE = '''\
from typing import TypeVar, Union, List, Optional, Final, TypeAlias
import typing as t
import re
T = TypeVar('T')
S = TypeVar('S', 'str', 'bytes')
B = TypeVar('B', bound='K')
C = t.TypeVar('C', covariant=True)
Alias = Union['K', int]
Alias2: TypeAlias = 'List[K]'
Alias3 = Optional[List['K']]
NAMES: Final = ('a', 'b c')
PATTERN: Final = re.compile('a+b', flags=re.I)
PATTERN2: Final = re.compile(flags=re.M, pattern='^x')
MAPPING: Final = {'key': ['v', 1], 2: ('t',  'u')}
TEXT: Final = 'T'
NBSP: Final = '\xa0'
BLANKS: Final = [' ', '\xa0', '\t', 'a b', 'two\xa0words']
class K:
    LEVELS: Final = ['str', 'bytes']
    V = TypeVar('V', 'K', int)
'''


def _const_cases(tier, seed):
    yield {'module': CONST_MODULE}


def _check_consts(case):
    """the value shown for a constant, type variable or type alias of a real module reads back as the expression that was written
    (for type aliases: string parts unquoted, as for annotations)"""
    from replay import fixtures, c14
    from pydoctor import epydoc2stan, model
    from pydoctor.stanutils import flatten_text
    system = fixtures.build_system([('cm', case['module'], False)])
    tree = ast.parse(case['module'])
    written = {}
    for scope, body in (('cm', tree.body), ('cm.K', next(n for n in tree.body if isinstance(n, ast.ClassDef)).body)):
        for st in body:
            if isinstance(st, (ast.Assign, ast.AnnAssign)) and st.value is not None:
                tgt = st.targets[0] if isinstance(st, ast.Assign) else st.target
                written[f'{scope}.{tgt.id}'] = st.value
    fails = []
    for name, value in written.items():
        o = system.allobjects.get(name)
        if o is None or o.value is None:
            fails.append({'observed': f'{name} has no displayed value', 'required': 'a constant / type variable / alias with its value', 'class': 'const-missing'})
            continue
        rows = [flatten_text(r) for r in epydoc2stan._format_constant_value(o)]
        shown = '\n'.join(rows[1:]) if rows and rows[0].strip() == 'Value' else '\n'.join(rows)
        shown = shown.replace('\u21b5', '')          # the continuation mark of a wrapped line
        try:
            got = _norm(shown)
        except SyntaxError:
            fails.append({'observed': f'{name} = {ast.unparse(value)} is displayed as {shown!r}, which is not Python', 'required': 'reads back as the same expression',
                          'class': 'const-unparsable'})
            continue
        if o.kind is model.DocumentableKind.TYPE_ALIAS:
            want = ast.dump(N_norm(ast.parse(ast.unparse(ast.parse(c14._unstring_src(value), mode='eval').body), mode='eval').body))
        else:
            want = _norm(ast.unparse(value))
        if got != want:
            fails.append({'observed': f'{name} = {ast.unparse(value)} ({o.kind.name}) is displayed as {shown!r}', 'required': 'reads back as the same expression',
                          'class': 'const-meaning:' + o.kind.name})
    return fails or None


CLASS_MODULE = '''\
from ext import Base, Other as Alias, pkg
from typing import Generic, TypeVar, Dict, List
import typing as t
T = TypeVar('T')
class Mixin:
    "doc"
class Second:
    "doc"
class Base(Base, Mixin):
    "an external base imported under the name of the class itself"
class Other(Mixin, Generic[T], Alias):
    "doc"
class Dotted(pkg.mod.Klass, Second, Mixin):
    "doc"
class Gen(Dict[str, List['Mixin']], t.Generic[T]):
    "doc"
class Three(Mixin, Second, Base):
    "doc"
from collections import namedtuple
Point = namedtuple('Point', 'x y')
"A documented variable that is used as a base class."
def factory(): pass
class P(Point, Mixin):
    "doc"
class Q(Mixin, factory(), Second):
    "doc"
class Outer:
    Key = t.Union[str, bytes]
    class Inner(Dict[Key, int], Mixin):
        "doc"
'''


def _class_cases(tier, seed):
    yield {'classes': CLASS_MODULE}


def _check_class_sigs(case):
    """the base list shown in the header of a class page is the base list that was written (string parts as written or unquoted)"""
    from replay import fixtures, c14
    from pydoctor.templatewriter import pages
    from pydoctor.stanutils import flatten_text
    from pydoctor import model
    system = fixtures.build_system([('cs', case['classes'], False)])
    tree = ast.parse(case['classes'])
    fails = []

    def classes(scope, body):
        for st in body:
            if isinstance(st, ast.ClassDef):
                yield f'{scope}.{st.name}', st
                yield from classes(f'{scope}.{st.name}', st.body)
    for name, node in classes('cs', tree.body):
        o = system.allobjects.get(name)
        if not isinstance(o, model.Class):
            fails.append({'observed': f'{name} is not documented as a class', 'required': 'a class', 'class': 'classsig-missing'})
            continue
        shown = ''.join(flatten_text(x) if not isinstance(x, str) else x for x in pages.format_class_signature(o))
        want = [ast.dump(ast.parse(ast.unparse(b), mode='eval').body) for b in node.bases]
        want_unquoted = [ast.dump(ast.parse(c14._unstring_src(b), mode='eval').body) for b in node.bases]
        try:
            got = [ast.dump(a) for a in ast.parse('f' + (shown or '()'), mode='eval').body.args]
        except SyntaxError:
            fails.append({'observed': f'class {name}({", ".join(ast.unparse(b) for b in node.bases)}) is displayed as {shown!r}, which is not Python', 'required': 'the bases as written',
                          'class': 'classsig-unparsable'})
            continue
        if got != want and got != want_unquoted:
            fails.append({'observed': f'class {name}({", ".join(ast.unparse(b) for b in node.bases)}) is displayed as {name.split(".")[-1]}{shown}', 'required': 'the bases as written',
                          'class': 'classsig-meaning'})
    return fails or None


ATTRS_MODULE = '''\
import attr
from typing import Sequence, Optional, List
@attr.s
class A:
    "doc"
    ratio = attr.ib(type=float, default=0)
    names = attr.ib(type=Sequence[str], default=())
    label = attr.ib(default='', type='Optional[str]')
    only_type = attr.ib(type=List[int])
    only_default = attr.ib(default=3)
    factory = attr.ib(type=dict, factory=list)
@attr.s(auto_attribs=True)
class B:
    "doc"
    x: int = 0
    y: 'Optional[A]' = attr.ib(default=None)
    z: List[str] = attr.ib(factory=list)
'''
DECO_MODULE = '''\
from typing import overload
def register(*a, **k):
    return lambda f: f
@overload
@register('text', priority=1)
def f(a: str) -> str: ...
@register('num', [1, 2], flag=not True)
@overload
def f(a: int) -> int: ...
@register('any')
def f(a):
    "doc"
class K:
    "doc"
    @overload
    @register(key=('a', 'b'))
    def m(self, a: int) -> int: ...
    @overload
    def m(self, a: str) -> str: ...
    @register(-1)
    @register(x=lambda: 0)
    def m(self, a):
        "doc"
    @staticmethod
    @register('s' + 't')
    def s(): "doc"
'''


FIELDS_MODULE = '''\
from typing import Dict, Optional, Sequence
class Base:
    def run(self, retries: int = 0, *names: str) -> int:
        {doc}
class Sub(Base):
    def run(self, retries: Optional[Sequence[int]] = None, *names: bytes) -> Dict[str, int]:
        pass
class Same(Base):
    def run(self, retries=0, *names):
        pass
'''


def _decl_cases(tier, seed):
    yield {'decl': 'attrs'}
    yield {'decl': 'decorators'}
    yield {'decl': 'fields', 'fmt': 'epytext'}
    yield {'decl': 'fields', 'fmt': 'restructuredtext'}


def _check_decl(case):
    """(attrs) the type shown for an attr.ib() attribute is the declared one (type= / annotation), an inferred one only without it;
    (decorators) on the written page every definition - each overload and the implementation - shows its own decorators"""
    import html as _html, os, re
    from replay import fixtures, c14, site
    fails = []
    if case['decl'] == 'attrs':
        system = fixtures.build_system([('am', ATTRS_MODULE, False)])
        declared = {'am.A.ratio': 'float', 'am.A.names': 'Sequence[str]', 'am.A.label': 'Optional[str]', 'am.A.only_type': 'List[int]', 'am.A.factory': 'dict',
                    'am.B.x': 'int', 'am.B.y': 'Optional[A]', 'am.B.z': 'List[str]', 'am.A.only_default': 'int'}
        for name, want in declared.items():
            o = system.allobjects.get(name)
            got = None if o is None or o.annotation is None else ast.unparse(o.annotation)
            if got is None or _norm(got) != _norm(want):
                fails.append({'observed': f'{name}: the type shown is {got!r}', 'required': f'{want!r} (as declared)', 'class': 'attrs-type'})
        return fails or None
    if case['decl'] == 'fields':
        # the types shown in the parameter table of a method that inherits its docstring are those of the method itself
        from pydoctor import epydoc2stan
        from pydoctor.stanutils import flatten_text
        doc = ('"""Run.\n\n        @param retries: how often\n        @param names: the names\n        @return: the count\n        """' if case['fmt'] == 'epytext' else
               '"""Run.\n\n        :param retries: how often\n        :param names: the names\n        :returns: the count\n        """')
        system = fixtures.build_system([('fm', FIELDS_MODULE.replace('{doc}', doc), False)], options={'docformat': case['fmt']})
        want = {'fm.Base.run': ('retries: int', '*names: str', 'int'), 'fm.Sub.run': ('retries: Optional[Sequence[int]]', '*names: bytes', 'Dict[str, int]'),
                'fm.Same.run': ('retries', '*names', None)}
        for name, (p1, p2, ret) in want.items():
            text = flatten_text(epydoc2stan.format_docstring(system.allobjects[name])).replace('\u200b', '')
            text = re.sub(r'\s+', '', text)
            p1, p2, ret = p1.replace(' ', ''), p2.replace(' ', ''), (ret.replace(' ', '') if ret else ret)
            for piece in (p1, p2):
                if piece not in text or (':' not in piece and (piece + ':') in text):
                    fails.append({'observed': f'{name}: the parameter table reads {text[:160]!r}', 'required': f'{piece!r} (the types of the method that is documented)', 'class': 'field-types'})
                    break
            if ret is not None and ret not in text.split('Returns', 1)[-1]:
                fails.append({'observed': f'{name}: the Returns row reads {text.split("Returns", 1)[-1][:80]!r}', 'required': f'{ret!r}', 'class': 'field-types'})
        return fails or None
    rc, out, d = site.run_project({'dm/__init__.py': DECO_MODULE}, [])
    try:
        tree = ast.parse(DECO_MODULE)
        written = {}
        for scope, body in (('dm', tree.body), ('dm.K', next(n for n in tree.body if isinstance(n, ast.ClassDef)).body)):
            for st in body:
                if isinstance(st, ast.FunctionDef) and st.name != 'register':
                    written.setdefault(f'{scope}.{st.name}', []).append(st)
        for qual, defs in written.items():
            page = 'index.html' if qual.count('.') == 1 else 'dm.K.html'
            text = open(os.path.join(d, 'out', page), encoding='utf-8').read()
            m = re.search(r'<a name="%s">.*?<div class="functionHeader">(.*?)<a class="headerLink"' % re.escape(qual), text, re.S)
            if not m:
                fails.append({'observed': f'{qual}: no entry on {page}', 'required': 'documented', 'class': 'deco-missing'})
                continue
            # the header as text: '@deco' lines and 'def name(...)' lines in page order
            flat = _html.unescape(re.sub(r'<br\s*/?>', '\n', m.group(1)))
            flat = re.sub(r'<[^>]+>', '', flat)
            groups, cur = [], []
            for line in (l.strip() for l in flat.splitlines()):
                for piece in re.split(r'(?=@)|(?=\bdef )', line):
                    piece = piece.strip()
                    if piece.startswith('@'):
                        cur.append(piece[1:])
                    elif piece.startswith('def '):
                        groups.append(cur)
                        cur = []
            want = [[ast.unparse(x) for x in fd.decorator_list] for fd in defs]
            if len(defs) > 1:
                # an overloaded function shows its overloads, each with its own decorators (the implementation has no def line of its own)
                want = want[:-1]
            if len(groups) != len(want):
                fails.append({'observed': f'{qual}: {len(groups)} definitions in the header ({groups}), {len(want)} written', 'required': 'each definition with its decorators', 'class': 'deco-count'})
                continue
            for g, w in zip(groups, want):
                try:
                    same = [_norm(x) for x in g] == [_norm(x) for x in w]
                except SyntaxError:
                    same = False
                if not same:
                    fails.append({'observed': f'{qual}: decorators shown {g}, written {w}', 'required': 'the decorators of that definition', 'class': 'deco-meaning'})
        return fails or None
    finally:
        site.cleanup(d)


def N_norm(t):
    return ast.parse(ast.unparse(t), mode='eval').body


HARNESS = {
    'pydoctor/templatewriter/pages/__init__.py:format_decorators': {'cases': _decl_cases, 'check': _check_decl,
        'covers': ['pydoctor/extensions/attrs.py:annotation_from_attrib', 'pydoctor/templatewriter/pages/__init__.py:format_overloads'],
        'bound': 'one attrs module (9 attributes: type=, default=, factory=, annotations, in both orders) and one module with differently decorated overloads and '
                 'implementations (function, method, static method), read from the written page'},
    'pydoctor/templatewriter/pages/__init__.py:format_class_signature': {'cases': _class_cases, 'check': _check_class_sigs,
        'covers': ['pydoctor/model.py:compute_mro'],
        'bound': 'one module with 9 classes (an external base imported under the class name, generic and dotted bases, string parts, a nested class naming '
                 'attributes of the enclosing class)'},
    'pydoctor/epydoc2stan.py:format_constant_value': {'cases': _const_cases, 'check': _check_consts,
        'covers': ['pydoctor/astbuilder.py:TypeAliasVisitorExt.visit_Assign'],
        'bound': 'one module with 17 constants, type variables and type aliases (strings inside TypeVar calls, aliases with string parts, '
                 're.compile with keyword arguments, nested containers), at module and class level'},
    f'{P}:PyvalColorizer.colorize': {'cases': _cases, 'check': _check,
        'covers': [f'{P}:_OperatorDelimiter.__init__', f'{P}:_OperatorDelimiter.__exit__'],
        'budget_s': {'quick': 60, 'thorough': 600},
        'bound': 'every operator chain of depth three over 13 binary, 4 unary and 2 boolean operators with either grouping; 45 expression forms and 21 wrappers (depth two); 300 (5000) random deeper trees; oracle: the text parses back to the same AST'},
    'pydoctor/astutils.py:unstring_annotation': {'cases': _ann_cases, 'check': _check_ann,
        'bound': '4 signatures whose annotations use Literal under four spellings, nested in string annotations and generics; read back as Python'},
    f'{P}:PyvalColorizer._colorize_re_tree': {'cases': _regex_cases, 'check': _check_regex,
        'bound': '23 alternation patterns (common prefixes, empty alternatives, groups, back references) + 60 (1500) random alternations; the displayed pattern '
                 'and the written one agree (match, groups) on every string of length <= 6 over the letters of the pattern'},
    f'{P}:PyvalColorizer._output': {'cases': _trunc_cases, 'check': _check_trunc,
        'bound': '6 values x 5 line lengths x 4 max-lines x {linebreakok}'},
}
