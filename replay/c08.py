"""C08 native harness (bounded): any docstring in any format on any kind of object is rendered; a parser that gives up degrades
to plain text, reported against that object, other objects unaffected.

One case = (docstring text, docformat, process-types).  The text is attached to every kind of object of a small module at once
(module, class, function, method, property, module/class/instance variable, docstring-field attribute), next to a sentinel
object whose rendering must not change.  Everything the page renderer asks of a docstring is exercised: parsed form, body,
summary, table of contents, field extraction, flattening to HTML."""
from __future__ import annotations
import html
import itertools
import random
import re
import signal
from replay import fixtures

E = 'pydoctor/epydoc2stan.py'
MK = 'pydoctor/epydoc/markup/__init__.py'
FORMATS = ('epytext', 'restructuredtext', 'google', 'numpy', 'plaintext')

FRAGMENTS = [
    # epytext
    'L{foo}', 'C{x}', 'I{it}', 'B{b}', 'U{http://x.y}', 'U{name<http://x>}', 'M{x}', 'X{idx}', 'E{lb}', 'E{', 'L{', '}', 'L{a{b}c}',
    '@param x: the x', '@type x: C{int}', '@return: something', '@rtype: L{int}', '@raise ValueError: bad', '@ivar v: v doc', '@unknown: field',
    '@param: no arg', '@type', '@see: L{other}', '@note: n', '@since: 1', '@param x: a\n    continued\n  badly',
    'Title\n=====', 'Sub\n---', 'Title\n==', '- item\n- item2', '1. one\n2. two', '  - nested\n     - deeper\n - dedent', '1. one\n3. three',
    # directives without content, alone and inside fields
    'Yields\n------\nx\n.. code:: python\nParameters\n-------', 'Text.\n\n.. code:: python\n\nMore.', '.. python::', '@return: x\n    .. python::', ':returns: x\n\n   .. code::',
    'Returns:\n    int: r\n\n    .. code:: python', '.. note::', '.. versionadded::', '.. image::',
    # headings that repeat (section ids have to be made unique), a field tag followed by many words and no colon
    'Example\n=======\n\ntext\n\nExample\n=======\n\nmore\n\nExample\n=======\n\nend\n\nExample\n=======\n\nlast',
    'Head\n====\n\nSub\n---\n\na\n\nSub\n---\n\nb\n\nSub\n---\n\nc',
    'Step\n====\n\na\n\nStep 2\n======\n\nb\n\nStep\n====\n\nc\n\nStep 1\n======\n\nd\n\nStep\n====\n\ne', 'Level 22\n========\n\na\n\nLevel 22\n========\n\nb\n\nLevel\n=====\n\nc\n\nLevel 2\n=======\n\nd',
    '@note ' + 'word ' * 40 + 'and no colon', '@param name ' + 'lorem ipsum ' * 25, 'Text.\n\n@return ' + 'x ' * 60,
    # types that start with a bracket or parenthesis (the type-expression renderer), on parameters, returns and attributes
    '@param x: the x\n@type x: (int, str)\n@rtype: [int]', ':param x: the x\n:type x: (int, str)\n:rtype: [int]', '@ivar v: doc\n@type v: (int, str)', ':ivar v: doc\n:type v: [int]',
    'Args:\n    x ((int, str)): the x\n\nReturns:\n    [int]: r\n\nAttributes:\n    v ((int, str)): doc', 'Parameters\n----------\nx : (int, str)\n    the x\n\nAttributes\n----------\nv : [int]\n    doc',
    '@type: (int, str)', ':type: [int]',
    # a tokenizer warning first, a fatal error later (the order of the collected errors must not matter)
    'Frob A.\n\n@note that this is slow B\n\n    This paragraph is indented too much C.', 'Frob A.\n\nUsage\n======\n\nCall it B.\n\n    Indented too much C.',
    'Frob A.\n\n@note that this is slow B\n\nClosing brace without opening C} here.', '@note that this is slow\n\nText L{unclosed',
    'para::\n    literal\n      more', '>>> doctest(1)\n1', '>>> unfinished(', 'a\n\n\n\nb', '    indented start', 'x{y}z', 'G{classtree}',
    # reStructuredText
    ':param x: the x', ':type x: int', ':returns: r', ':rtype: int', ':raises ValueError: v', ':ivar v: doc', ':param: noarg', ':unknown field: x',
    '`ref`', '``lit``', '*em*', '**strong**', '*unbalanced', '``unbalanced', '`unb', '|subst|', 'foot [1]_', 'anon__', 'target_', '_`inline target`',
    '`anon ref`__', '`anon ref`__\n\n:param x: the x', 'See `text`__ here.\n\n- item', '.. code::', '.. code:: python', '.. note:: n', '.. warning::\n   w', '.. code:: python\n\n   x = 1', '.. unknown:: x', '.. image:: x.png', '.. raw:: html\n\n   <b>x</b>',
    '.. include:: /nonexistent', '.. math:: x^2', '.. |s| replace:: t', '.. _t: http://x', '.. [1] foot', '..', '.. versionadded:: 1.0',
    '.. deprecated:: 2', '.. python::\n\n   x = 1', '.. contents::', '.. csv-table::\n   :widths: x\n\n   a,b', '.. table::',
    'Head\n====\n\nSub\n---\n\nSubsub\n~~~~', 'Head\n==', '====\nOver\n====', '=====  =====\nA      B\n=====  =====\n1      2\n=====  =====',
    '+---+---+\n| a | b |\n+---+---+', '+---+\n| a |', '* bullet\n* b2\n\n  para', '#. auto', 'term\n  definition', ':field: x', '>>> 1\n1',
    '::\n\n  lit', 'a\n  unexpected indent\nb', ':class:`X`', ':py:func:`f`', ':unknownrole:`x`', '\\*escaped', '`text <http://url>`_', '`dup`_ `dup`_',
    # google / numpy
    'Args:\n    x (int): the x\n    y: the y', 'Returns:\n    int: r', 'Raises:\n    ValueError: v', 'Attributes:\n    a (int): doc', 'Yields:\n    x',
    'Args:\n  x', 'Args:', 'Example:\n    >>> 1', 'Note:\n    n', 'Todo:\n    * x', 'Args:\n    *args: a\n    **kwargs: k', 'Args:\n    x (:obj:`int`, optional): d',
    'Parameters\n----------\nx : int\n    the x\ny\n    the y', 'Returns\n-------\nint\n    r', 'Raises\n------\nValueError\n    v', 'Attributes\n----------\na : int',
    'Parameters\n----------', 'Parameters\n---', 'See Also\n--------\nfoo : bar\nbaz', 'Yields\n------\nx', 'Other Parameters\n----------------\nz : {a, b}, optional',
    'Parameters\n----------\nx : list[int] or None, default: None', 'Returns\n-------\ntuple(int, str', 'Methods\n-------\nm(x)\n    doc',
    # odd characters
    '\x00', '\x0b', '\x0c', '\x1b[0m', '\x7f', ' ', '​', '﻿', '\ud800', '\U0001f600', 'é́', '\t\ttabs', '\r\n', '\r', '&amp; <b> </p> "q" \'',
    '<script>x</script>', ']]>', '<!--', '%s %(x)s {0}', '\\', '\\\\n', '"""', "'''", '{' * 30, 'L{' * 40, '[' * 50, '*' * 60, '`' * 7, '- ' * 40, '  ' * 40 + 'deep',
    ':' * 20, '@' * 5, '=' * 3, '=' * 80, '-' * 3, 'x' * 3000, 'word ' * 400, '\n' * 30,
]

BENIGN = 'Just a sentence.'

def _source(doc, fmt_line):
    """the docstring is attached to every kind by literal insertion (repr() of the text is a valid Python literal)"""
    lit = repr(doc)
    src = []
    if fmt_line:
        src.append(fmt_line)
    src += [lit,                                  # module docstring
            'sentinel_var = 1', repr('Sentinel docstring with C{markup}, `markup` and plain words.'),
            'def sentinel(a, b):', '    ' + repr('Sentinel function.\n\nMore words here.\n'),
            'class K:', '    ' + lit,
            '    def meth(self, x, y=1):', '        ' + lit,
            '    @property', '    def prop(self):', '        ' + lit,
            '    cvar = 1', '    ' + lit,
            '    def __init__(self):', '        self.ivar = 1', '        ' + lit,
            'def func(x: int, *args, **kw) -> str:', '    ' + lit,
            'mvar = 1', lit,
            'class Base:', '    def inh(self):', '        ' + lit,
            'class Derived(Base):', '    def inh(self):', '        pass',
            # a deprecated function: the generated notice (its replacement text has markup problems of its own) is parsed as well
            'from twisted.python.deprecate import deprecated', 'from incremental import Version',
            '@deprecated(Version("m", 1, 2, 0), "``connect()`` or *dial()")', 'def dep(a):', '    # (comment lines: the docstring', '    #  starts well below', '    #  the decorator', '    #  and the def line)', '    ' + lit,
            # the same text attached after the fact (X.__doc__ = ...) to a class and a property that were documented differently before
            'class Late:', '    ' + repr('Initial text.\n\n@ivar early: an attribute documented by the first docstring\n'),
            '    @property', '    def lp(self):', '        ' + repr('Initial property text.'),
            'Late.__doc__ = ' + lit, 'Late.lp.__doc__ = ' + lit]
    return '\n'.join(src) + '\n'


TARGETS = ('m', 'm.K', 'm.K.meth', 'm.K.prop', 'm.K.cvar', 'm.K.ivar', 'm.func', 'm.mvar')
SENTINELS = ('m.sentinel_var', 'm.sentinel')


def _texts(tier, seed):
    rnd = random.Random(seed)
    yield ''
    yield ' '
    yield '\n'
    for f in FRAGMENTS:
        yield f
    n = 150 if tier == 'quick' else 2500
    for _ in range(n):
        k = rnd.randint(2, 5)
        parts = [rnd.choice(FRAGMENTS) for _ in range(k)]
        sep = rnd.choice(['\n', '\n\n', ' ', '\n    ', ''])
        t = sep.join(parts)
        r = rnd.random()
        if r < 0.25 and t:       # character-level mutation
            i = rnd.randrange(len(t))
            t = t[:i] + rnd.choice(['{', '}', '`', '*', ':', '@', '\n', ' ', '\x00', '|', '_', '<', '\\', '\t']) + t[i + rnd.randint(0, 2):]
        elif r < 0.4 and t:      # truncation
            t = t[:rnd.randrange(len(t))]
        elif r < 0.5:            # indentation
            t = '\n'.join(rnd.choice(['', ' ', '  ', '    ', '\t']) + l for l in t.split('\n'))
        yield t


def _cases(tier, seed):
    texts = list(_texts(tier, seed))
    rnd = random.Random(seed + 1)
    for i, t in enumerate(texts):
        if tier == 'thorough' or i < 3 + len(FRAGMENTS):
            combos = [(f, p) for f in FORMATS for p in (False, True)] if (tier == 'thorough' or i % 3 == 0) else \
                     [(FORMATS[i % 5], bool(i % 2)), (FORMATS[(i + 2) % 5], not (i % 2))]
        else:
            combos = [(rnd.choice(FORMATS), rnd.random() < 0.5)]
        for f, p in combos:
            yield {'doc': t, 'docformat': f, 'processtypes': p}
    # every symbol and escape code the epytext parser accepts, between plain words that must survive
    try:
        from pydoctor.epydoc.markup import epytext as _ep
        codes = ['S{%s}' % x for x in _ep.SYMBOLS] + ['E{%s}' % x for x in _ep._ESCAPES] + ['S{nosuchsymbol}', 'E{nosuch}', 'S{}']
    except Exception:     # noqa
        codes = []
    for k, c in enumerate(codes):
        if tier == 'thorough' or k % 2 == seed % 2 or 'inf' in c or 'E{' in c:
            yield {'doc': f'Before qzxa {c} after qzxb.\n\n@return: value qzxc {c} end\n', 'docformat': 'epytext', 'processtypes': False}
            yield {'doc': f'Before qzxa  {c} after qzxb.\n\n@return: value qzxc {c} end\n', 'docformat': 'epytext', 'processtypes': False}
    # the docformat can also be chosen per module
    for f in FORMATS:
        yield {'doc': 'L{x} `y` Args:\n    z: w', 'docformat': 'epytext', 'module_docformat': f, 'processtypes': False}
    for name in ('_types', '_napoleon', '__init__', '_pyval_repr', 'nosuchformat', 'EPYTEXT', 'restructuredtext en', '', '.', 'a.b', 'epytext.x'):
        yield {'doc': BENIGN, 'docformat': 'epytext', 'module_docformat': name, 'processtypes': False}


class _Timeout(Exception):
    pass


def _alarm(signum, frame):
    raise _Timeout()


def _render(system, names):
    """-> {name: (body html, summary html, toc html)}; raises whatever the renderer raises"""
    from pydoctor import epydoc2stan
    from pydoctor.stanutils import flatten
    out = {}
    for n in names:
        o = system.allobjects.get(n)
        if o is None:
            continue
        if len(o.docstring or '') % 3:
            # in the order a site is written: the summary for the listings of the parent first, then the page of the object itself
            summ = flatten(epydoc2stan.format_summary(o))
            toc = epydoc2stan.format_toc(o)
            body = flatten(epydoc2stan.format_docstring(o))
        else:
            body = flatten(epydoc2stan.format_docstring(o))
            summ = flatten(epydoc2stan.format_summary(o))
            toc = epydoc2stan.format_toc(o)
        out[n] = (body, summ, flatten(toc) if toc is not None else None)
    return out


def _build(doc, case):
    line = ''
    if 'module_docformat' in case:
        line = f'__docformat__ = {case["module_docformat"]!r}'
    src = _source(doc, line)
    # (not quiet: the messages printed while the system is built are part of what the caller captures)
    return fixtures.build_system([('m', src, False)], options={'docformat': case['docformat'], 'processtypes': case['processtypes']}, quiet=False)


_BASELINE = {}


def _plain(s):
    return re.sub(r'\s+', ' ', s).strip()


def _nested_field(doc):
    """witness of KF-C08-epytext-nested-field: the epytext parser accepts the text but leaves a field inside a block, and the conversion
    of its own tree then trips its assertion ('There should not be any field lists left')"""
    import inspect
    from pydoctor.epydoc.markup import epytext
    for text in {doc, inspect.cleandoc(doc)}:
        try:
            pd = epytext.parse_docstring(text, [])
            pd.to_node()
        except AssertionError as ex:
            if 'field lists left' in str(ex):
                return True
        except Exception:     # noqa
            pass
    return False


def _check(case):
    import contextlib, io
    buf = io.StringIO()
    with contextlib.redirect_stdout(buf), contextlib.redirect_stderr(io.StringIO()):
        r = _check1(case, buf)
        if r and (case.get('module_docformat') or case['docformat']) == 'epytext':
            nf = _nested_field(case['doc'])
            for f_ in (r if isinstance(r, list) else [r]):
                f_['epytext_nested_field'] = nf
                if nf:
                    f_['class'] = str(f_.get('class', '')) + '+nested-field'
        return r


def _check1(case, log=None):
    import inspect
    from pydoctor.epydoc.markup.plaintext import ParsedPlaintextDocstring
    doc = case['doc']
    fails = []
    old = signal.signal(signal.SIGALRM, _alarm)
    signal.alarm(60)
    try:
        try:
            system = _build(doc, case)
            # every object of the module, including attributes created from docstring fields (@ivar, :ivar:, Attributes:)
            got = _render(system, list(system.allobjects))
        except _Timeout:
            return {'observed': 'rendering did not terminate within 60 s', 'required': 'always succeeds and terminates', 'class': 'hang'}
        except BaseException as ex:     # noqa
            import traceback
            tb = traceback.extract_tb(ex.__traceback__)
            where = next((f'{t.filename.split("/")[-1]}:{t.name}' for t in reversed(tb) if '/pydoctor/' in t.filename), '?')
            return {'observed': f'{type(ex).__name__}: {str(ex)[:120]} (in {where})', 'required': 'always succeeds', 'class': f'raise:{type(ex).__name__}:{where}',
                    'exception': type(ex).__name__, 'where': where,
                    # a code point that no UTF-8 page can carry (known finding KF-C08-lone-surrogate)
                    'lone_surrogate': bool(re.search('[\ud800-\udfff]', doc)) and 'surrogates not allowed' in str(ex)}
        finally:
            signal.alarm(0)
    finally:
        signal.signal(signal.SIGALRM, old)
    # no other object is affected: the sentinels render exactly as next to a harmless docstring
    key = (case['docformat'], case['processtypes'], case.get('module_docformat'))
    if key not in _BASELINE:
        try:
            _BASELINE[key] = _render(_build(BENIGN, case), SENTINELS)
        except BaseException:   # noqa  (an invalid module docformat: reported by the case itself)
            _BASELINE[key] = None
    base = _BASELINE[key]
    if base is not None:
        for n in SENTINELS:
            if got.get(n) != base.get(n):
                fails.append({'observed': f'{n} renders differently next to this docstring: {got.get(n)!r:.150} vs {base.get(n)!r:.150}',
                              'required': 'no other object is affected', 'class': 'other-affected'})
    # an inherited docstring is rendered (and falls back, and is reported) in the context of the object that holds it
    b, dd = system.allobjects.get('m.Base.inh'), system.allobjects.get('m.Derived.inh')
    if b is not None and dd is not None and b.docstring:
        # (same-page links are spelled differently on the two pages; headings gain a back-link once a table of contents was asked for)
        strip = lambda h: re.sub(r'href="[^"]*"', 'href', re.sub(r'<a class="rst-toc-backref"[^>]*>(.*?)</a>', r'\1', h))     # noqa
        if strip(got['m.Derived.inh'][0]) != strip(got['m.Base.inh'][0]):
            fails.append({'observed': f'the inherited docstring renders differently on the overriding method: {got["m.Derived.inh"][0]!r:.160} vs {got["m.Base.inh"][0]!r:.160}',
                          'required': 'the complete original text is still shown', 'class': 'inherited-differs'})
        if 'm.Derived.inh' in system.parse_errors['docstring']:
            fails.append({'observed': 'a problem of the docstring of m.Base.inh is reported against m.Derived.inh, which only inherits it',
                          'required': 'the problem is reported against that object', 'class': 'inherited-report'})
    # a docstring attached by assignment to __doc__ is a docstring like any other
    for late, ref in (('m.Late', 'm.K'), ('m.Late.lp', 'm.K.prop')):
        lo, ro = system.allobjects.get(late), system.allobjects.get(ref)
        if lo is None or ro is None or late not in got or ref not in got:
            continue
        if lo.docstring != doc:          # (the assigned text is taken as it is; a literal docstring is cleaned of its indentation)
            fails.append({'observed': f'{late}.docstring is {lo.docstring!r:.80}, assigned was {doc!r:.80}', 'required': 'the assigned text is the docstring',
                          'class': 'late-docstring'})
        elif 'Initial' in html.unescape(got[late][0]) and 'Initial' not in (lo.docstring or ''):
            fails.append({'observed': f'{late}: the text shown is the one that was replaced: {html.unescape(got[late][0])!r:.160}', 'required': 'the docstring is rendered',
                          'class': 'late-stale'})
        elif lo.docstring == ro.docstring and lo.docstring.strip() and type(lo.parsed_docstring) is not type(ro.parsed_docstring):
            fails.append({'observed': f'{late} (assigned docstring) is parsed as {type(lo.parsed_docstring).__name__}, the same text on {ref} as {type(ro.parsed_docstring).__name__}',
                          'required': 'any docstring text attached to any kind of object is treated alike', 'class': 'late-parsed'})
    # the renderer's own "could not render this" markers stand for text that is not shown
    # (not judged for text with characters no XML page can carry - form feed and other C0 controls, U+FFFE/U+FFFF, surrogates -, where
    #  the flattener itself gives up: KF-C08-lone-surrogate is the listed instance of that family)
    xml_illegal = re.search('[\x00-\x08\x0b\x0c\x0e-\x1f\ufffe\uffff\ud800-\udfff]', doc) is not None
    for n in ([] if xml_illegal else list(got)):
        for part, text_ in zip(('body',), got[n]):      # (a summary that cannot be produced is replaced by a marker by design: the body still has the text)
            if text_ and re.search(r'Broken (description|summary)', text_):
                fails.append({'observed': f'{n}: the {part} shows a "Broken ..." marker in place of text: {html.unescape(text_)!r:.160}',
                              'required': 'the full HTML body and the summary are always produced (or the original text is shown as plain text)', 'class': 'broken-marker:' + part})
                break
    # marker words of the docstring (plain words next to the markup under test) are never lost, whichever way the docstring is rendered
    for n in TARGETS:
        o = system.allobjects.get(n)
        if o is None or not o.docstring or n not in got:
            continue
        for w in re.findall(r'qzx[a-z]', o.docstring):
            if w == 'qzxc' and n not in ('m.K.meth', 'm.func'):
                continue        # (@return on something that does not return: reported, not shown)
            if w not in got[n][0]:
                fails.append({'observed': f'{n}: the word {w!r} of the docstring is not in the rendered text: {html.unescape(got[n][0])!r:.200}',
                              'required': 'the docstring is rendered, or its complete original text is shown as plain text', 'class': 'words-lost'})
                break
    effective = case.get('module_docformat') or case['docformat']
    if case['docformat'] == 'plaintext':
        effective = 'plaintext'
    cleaned = inspect.cleandoc(doc)
    # a fatal epytext markup error (ParseError.is_fatal, collected by the epytext parser itself in the error list it is handed)
    # must end in the plain-text fallback - asked of the parser directly, independently of how parse() ends
    fatal_epytext = False
    fatal_descrs = []
    if effective == 'epytext' and cleaned:
        from pydoctor.epydoc.markup import epytext as _ep
        errs_ = []
        try:
            _ep.parse_docstring(cleaned, errs_)
        except Exception:      # noqa
            pass
        fatal_epytext = any(getattr(e_, 'is_fatal', lambda: False)() for e_ in errs_)
        fatal_descrs = [str(e_.descr()).split('\n')[0][:25] for e_ in errs_ if getattr(e_, 'is_fatal', lambda: False)()]
    for n in list(system.allobjects):
        o = system.allobjects.get(n)
        if n in SENTINELS or o is None or o.docstring is None:
            continue
        pd = o.parsed_docstring
        gave_up = isinstance(pd, ParsedPlaintextDocstring) and effective in FORMATS and effective != 'plaintext'
        if fatal_epytext and not gave_up and n not in ('m.Derived.inh',) and o.docstring == cleaned:
            fails.append({'observed': f'{n}: the docstring has a fatal epytext error but is rendered as markup ({type(pd).__name__}): {html.unescape(got[n][0])!r:.160}',
                          'required': 'any fatal epytext markup error: the complete original text is shown as plain text', 'class': 'fatal-not-plain'})
        if gave_up and log is not None and o.docstring_lineno:
            # ... by a message that points into that docstring (not only by a message about something else on the same object)
            span = range(o.docstring_lineno, o.docstring_lineno + o.docstring.count('\n') + 2)
            msgs_ = [(int(m_.group(1)), m_.group(2)) for m_ in re.finditer(r'(?m)^m:(\d+): bad docstring: (.*)$', log.getvalue())]
            lines_ = [l_ for l_, _t in msgs_]
            if fatal_epytext and o.docstring == cleaned and not any(l_ in span and any(t_.startswith(d_) for d_ in fatal_descrs) for l_, t_ in msgs_):
                fails.append({'observed': f'{n}: the fatal epytext error ({fatal_descrs[0]!r}) is not among the messages that point into its docstring (lines {span.start}-{span.stop - 1}): '
                                          f'{[(l_, t_[:40]) for l_, t_ in msgs_ if l_ in span]}', 'required': 'the problem is reported against that object', 'class': 'fatal-unreported'})
            if not any(l_ in span for l_ in lines_):
                fails.append({'observed': f'{n}: the {effective} parser gave up, but no "bad docstring" message points into its docstring (lines {span.start}-{span.stop - 1}; messages at {sorted(set(lines_))[:8]})',
                              'required': 'the problem is reported against that object', 'class': 'unreported-in-docstring'})
        if gave_up:
            if o.fullName() not in system.parse_errors['docstring']:
                fails.append({'observed': f'{n}: the {effective} parser gave up (plain-text fallback) without a report against the object',
                              'required': 'the problem is reported against that object', 'class': 'unreported'})
            shown = html.unescape(got[n][0])
            if _plain(o.docstring) and _plain(o.docstring) not in _plain(shown):
                fails.append({'observed': f'{n}: fallback output does not contain the original text: {shown!r:.200}',
                              'required': 'the complete original text is still shown as plain text', 'class': 'text-lost'})
    return fails or None


RECOVERED = ['Text.\n\nTitle\n==\n\nmore', '3. three\n4. four', 'Intro.\n\nDup\n===\n\ntext\n\nDup\n===\n\ntext', 'para\n\n====\nnot a title', 'Text\n\n- item\n-- not item',
             'A\n\nxx\n=\n', 'term\n  def\n::\n', 'b. bee\nc. sea', 'Text\n\n* one\n* two\nno blank line', 'Para\n   indented more\nback', 'x\n\n+---+\n| a |\n+---+\n| b', 'A title\n~~\n\ntext',
             '#. one\n\n5. five', 'Word\n\n| line block\nnot continued', 'Plain words only.', 'Two\n\nparagraphs.']


def _recover_cases(tier, seed):
    for k, t in enumerate(RECOVERED):
        yield {'doc': t, 'docformat': 'restructuredtext', 'processtypes': bool(k % 2)}
    rnd = random.Random(seed)
    for _ in range(20 if tier == 'quick' else 300):
        yield {'doc': rnd.choice(['\n\n', '\n']).join(rnd.choice(RECOVERED) for _ in range(rnd.randint(2, 3))), 'docformat': 'restructuredtext', 'processtypes': rnd.random() < 0.5}


def _check_recover(case):
    """markup problems docutils recovers from (down to its INFO level: a title underline taken as text, a duplicate implicit target, a list
    not starting at one) are reported against the object.  Oracle: docutils itself on the same text, every message it can produce switched on;
    the texts use neither roles nor directives, which pydoctor configures differently."""
    import contextlib, io, inspect
    from docutils.core import publish_doctree
    from docutils import nodes
    doc = inspect.cleandoc(case['doc'])
    with contextlib.redirect_stderr(io.StringIO()):
        tree = publish_doctree(doc, settings_overrides={'report_level': 1, 'halt_level': 5, 'warning_stream': io.StringIO()})
    complaints = [m.astext().split('\n')[0][:90] for m in tree.findall(nodes.system_message)]
    with contextlib.redirect_stdout(io.StringIO()), contextlib.redirect_stderr(io.StringIO()):
        system = _build(case['doc'], case)
        _render(system, TARGETS)
    fails = []
    for n in ('m.func', 'm.K', 'm.K.meth'):
        o = system.allobjects.get(n)
        if o is None:
            continue
        reported = o.fullName() in system.parse_errors['docstring']
        if complaints and not reported:
            fails.append({'observed': f'{n}: docutils complains ({complaints[0]!r}) but nothing is reported against the object', 'required': 'markup problems that docutils recovers from are reported against the object',
                          'class': 'recovered-unreported'})
    return fails or None


HARNESS = {
    'pydoctor/epydoc/markup/restructuredtext.py:_EpydocReader.report': {'cases': _recover_cases, 'check': _check_recover,
        'bound': '16 reST texts without roles or directives (title underlines, list numbering, duplicate targets, tables, unindents) and 20 (300) random '
                 'combinations; oracle: docutils on the same text with every message level switched on'},
    f'{E}:parse_docstring': {'cases': _cases, 'check': _check,
        'covers': [f'{E}:safe_to_stan', f'{E}:format_docstring', f'{E}:format_summary', f'{E}:format_toc', f'{E}:reportErrors',
                   f'{E}:format_docstring_fallback', f'{E}:format_summary_fallback', f'{E}:ensure_parsed_docstring', f'{E}:extract_fields',
                   f'{MK}:get_parser_by_name', f'{MK}:ParsedDocstring.get_summary', f'{MK}:ParsedDocstring.get_toc', f'{MK}:ParsedDocstring.to_stan'],
        'bound': 'about 170 markup fragments (epytext, reST, google, numpy, control/Unicode characters, deep nesting, long text) and 150 (2500) '
                 'random combinations / mutations / truncations of them x 5 docformats x process-types on/off (sampled in the quick tier), each '
                 'attached to 8 kinds of object at once; per-module __docformat__ incl. names of non-parser modules; 60 s per case',
        'budget_s': {'quick': 240, 'thorough': 1500}},
}
