"""python -m replay.facts '<json list of [relpath, name]>' : real values of module-level globals (under /venv/bin/python)"""
import importlib, json, sys

def main():
    req = json.loads(sys.argv[1])
    out = {}
    for relpath, name in req:
        modname = relpath[:-3].replace('/', '.')
        if modname.endswith('.__init__'):
            modname = modname[:-9]
        try:
            val = getattr(importlib.import_module(modname), name)
            if isinstance(val, (int, str, bool, type(None))):
                out[f'{relpath}:{name}'] = val
            elif isinstance(val, (tuple, list)) and all(isinstance(x, (int, str, bool)) for x in val):
                out[f'{relpath}:{name}'] = list(val)
            elif hasattr(val, 'pattern') and hasattr(val, 'flags'):
                out[f'{relpath}:{name}'] = {'__regex__': val.pattern, 'flags': int(val.flags)}
        except Exception as ex:
            out[f'{relpath}:{name}'] = {'error': repr(ex)}
    if len(sys.argv) > 2:
        for key, expr in json.loads(sys.argv[2]):
            try:
                val = eval(expr, {'__import__': __import__, '__builtins__': __builtins__})
                json.dumps(val)
                out['expr:' + key] = val
            except Exception as ex:
                out['expr:' + key] = {'error': repr(ex)}
    print(json.dumps(out))

if __name__ == '__main__':
    main()
