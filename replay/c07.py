"""C07 native harness (bounded): a re-exported object is documented once, where exported, and stays reachable by both names."""
from __future__ import annotations
import itertools
from replay import fixtures
from replay.c02 import check_model

A = 'pydoctor/astbuilder.py'
M = 'pydoctor/model.py'


def _project(style, renamed, consumer_first, origin_all, where='package', scope='module', rebinds=False):
    """style: 'plain' | 'star'; renamed: export under another name; origin_all: the defining module lists the name itself;
    where: the re-exporter is the package or a sibling module; scope: the import statement sits at module level or in a class body"""
    exp = 'Pub' if renamed else 'X'
    pub = 'pk' if where == 'package' else 'pk.api'
    if style == 'star':
        imp = 'from ._impl import *'
    elif renamed:
        imp = 'from ._impl import X as Pub'
    else:
        imp = 'from ._impl import X'
    # Y: a second object of the defining module with its own (single) re-exporter pk.api2; the members of X name it the way
    # the defining module does
    impl = ('class Y:\n    """doc of Y"""\n    def ping(self): pass\n'
            'class X:\n    """doc of X"""\n    sib: Y = None\n    """see L{Y.ping}"""\n    def m(self):\n        """doc m"""\n    class In:\n        v = 1\ndef other(): pass\n')
    if rebinds:
        # the defining module binds the name twice: an import of a same-named base first, then the class itself
        impl = 'from pk._base import X\n' + impl.replace('class X:', 'class X(X):')
    if origin_all:
        impl += '__all__ = ["X"]\n'
    elif style == 'star':
        impl += '__all__ = ["X", "other"]\n' if False else ''
    if where == 'sibling':
        imp = imp.replace('._impl', 'pk._impl')
    if scope == 'class':
        imp = 'class Holder:\n    ' + imp
    user = ('from %s import %s as FromPkg\nfrom pk._impl import X as FromImpl\n'
            'class U1(FromPkg):\n    """see L{pk._impl.X}, L{%s.%s} and L{pk._impl.X.m}"""\n'
            'class U2(FromImpl):\n    """see L{FromImpl.In}"""\n'
            'def f(a: FromImpl, b: "FromPkg") -> None:\n    pass\n'
            # nested subclasses whose base is named through a binding of the enclosing class body (an alias, an import)
            'class Holder:\n    Base = FromImpl\n    class N1(Base):\n        "doc"\n    from pk._impl import X as Local\n    class N2(Local):\n        "doc"\n') % (pub, exp, pub, exp)
    star_user = 'from pk._impl import *\nclass S1(X):\n    """see L{X.m}"""\n'
    if scope == 'class':
        user = user.replace(f'from {pub} import {exp} as FromPkg', 'from pk._impl import X as FromPkg')
    if where == 'package':
        mods = [('pk', f'{imp}\n__all__ = ["{exp}"]\n', True), ('pk._impl', impl, False), ('pk.user', user, False)]
    else:
        mods = [('pk', '', True), ('pk.api', f'{imp}\n__all__ = ["{exp}"]\n', False), ('pk._impl', impl, False), ('pk.user', user, False)]
    mods.append(('pk.api2', 'from pk._impl import Y\n__all__ = ["Y"]\n', False))
    if not origin_all:
        mods.append(('pk.zstar', star_user, False))
    if rebinds:
        mods.insert(1, ('pk._base', 'class X:\n    """the base of the same name"""\n    def bm(self): pass\n', False))
    if consumer_first:
        mods = [mods[0], ('pk.auser', user.replace('U1', 'V1').replace('U2', 'V2'), False)] + mods[1:]
        if scope == 'module':
            # a consumer that only knows the defining module and is analysed while the object still lives there: the package imports
            # it before the statement that re-exports (package case) / it is handed over before the re-exporting module (sibling case)
            early = 'from pk._impl import X as FromImpl\nclass E2(FromImpl):\n    "doc"\nclass E3(FromImpl.In):\n    "doc"\ndef ef(a: FromImpl) -> "FromImpl.In":\n    pass\n'
            mods = [mods[0], ('pk.aearly', early, False)] + mods[1:]
            if where == 'package':
                mods[0] = ('pk', 'from pk import aearly\n' + mods[0][1], True)
    return mods, exp, pub


def _cases(tier, seed):
    for style, renamed, first, oall in itertools.product(('plain', 'star'), (False, True), (False, True), (False, True)):
        if style == 'star' and renamed:
            continue
        yield {'style': style, 'renamed': renamed, 'consumer_first': first, 'origin_all': oall}
        yield {'style': style, 'renamed': renamed, 'consumer_first': first, 'origin_all': oall, 'where': 'sibling'}
        if style == 'plain' and not oall:
            yield {'style': style, 'renamed': renamed, 'consumer_first': first, 'origin_all': oall, 'rebinds': True}
        if style == 'plain' and not oall:
            # an import statement in a class body binds the name in the class, not in the module: nothing is re-exported
            yield {'style': style, 'renamed': renamed, 'consumer_first': first, 'origin_all': oall, 'scope': 'class'}


def _check(case):
    mods, exp, pub = _project(case['style'], case['renamed'], case['consumer_first'], case['origin_all'],
                              case.get('where', 'package'), case.get('scope', 'module'), case.get('rebinds', False))
    try:
        system = fixtures.build_system(mods)
    except BaseException as ex:   # noqa
        return {'observed': f'analysis aborted: {type(ex).__name__}: {ex}', 'required': 'completes', 'class': 'abort'}
    wf = check_model(system)
    if wf:
        return wf
    moved = not case['origin_all'] and case.get('scope', 'module') == 'module'
    # star imports only re-export what the origin module exports implicitly (public names): X qualifies
    new, old = f'{pub}.{exp}', 'pk._impl.X'
    home = new if moved else old
    gone = old if moved else new
    fails = []
    ob = system.allobjects.get(home)
    if ob is None:
        return {'observed': f'{home} is not documented', 'required': f'documented once, at {home}', 'class': 'missing'}
    for suffix in ('', '.m', '.In', '.In.v'):
        if home + suffix not in system.allobjects:
            fails.append({'observed': f'{home + suffix} missing', 'required': 'the object and all its members are documented under the exported name',
                          'class': 'member-missing'})
        if gone + suffix in system.allobjects:
            fails.append({'observed': f'{gone + suffix} is (also) documented', 'required': 'exactly once', 'class': 'twice'})
    # every reference that names either location leads to that one object
    for name in (old, new):
        try:
            got = system.find_object(name)
        except LookupError:
            got = 'LookupError'
        if got is not ob and (moved or name == old):
            fails.append({'observed': f'find_object({name!r}) -> {got}', 'required': f'{ob}', 'class': 'find_object'})
    s1 = system.allobjects.get('pk.zstar.S1')
    if moved and s1 is not None and case['style'] != 'star':
        # a consumer doing `from <defining module> import *` after the move still gets the re-exported name
        if s1.baseobjects != [ob]:
            fails.append({'observed': f'pk.zstar.S1 (from pk._impl import *): baseobjects = {s1.baseobjects}', 'required': f'[{ob}]', 'class': 'star-consumer'})
    for key, o in system.allobjects.items():
        from pydoctor import model
        if isinstance(o, model.Module) and o.name in ('user', 'auser'):
            for local in ('FromPkg', 'FromImpl'):
                if o.resolveName(local) is not ob and moved:
                    fails.append({'observed': f'{key}: imported name {local} resolves to {o.resolveName(local)}', 'required': f'{ob}', 'class': 'import'})
    for key, o in system.allobjects.items():
        from pydoctor import model
        if moved and isinstance(o, model.Class) and o.name == 'E3':
            if o.baseobjects != [ob.contents['In']]:
                fails.append({'observed': f'{key}.baseobjects = {o.baseobjects}', 'required': f'[{ob.contents["In"]}]', 'class': 'base'})
        if moved and isinstance(o, model.Class) and o.name in ('U1', 'U2', 'V1', 'V2', 'E2', 'N1', 'N2'):
            if o.baseobjects != [ob]:
                fails.append({'observed': f'{key}.baseobjects = {o.baseobjects}', 'required': f'[{ob}]', 'class': 'base'})
    for key, o in system.allobjects.items():
        # the recorded base names of consumers are the current names of their base objects
        if moved and isinstance(o, model.Class) and o.name in ('U1', 'U2', 'V1', 'V2', 'S1', 'E2', 'E3'):
            for bname, bobj in zip(o.bases, o.baseobjects):
                if bobj is not None and bname != bobj.fullName():
                    fails.append({'observed': f'{key}.bases names {bname!r}, its base object is {bobj.fullName()!r}', 'required': 'no longer under the module that defines it',
                                  'class': 'stale-base-name'})
    if moved:
        # an inventory of an earlier release, which still lists the object at its old location, is loaded as well: what the project
        # itself documents wins
        system.intersphinx._links[old] = ('http://old.example.org/api', 'pk._impl.X.html')
        system.intersphinx._links[old + '.m'] = ('http://old.example.org/api', 'pk._impl.X.html#m')
        # annotations: the name a consumer imported (from either location) is linked to the one documented object
        from pydoctor import linker as _lk
        from pydoctor.stanutils import flatten
        for key, o in system.allobjects.items():
            if isinstance(o, model.Function) and o.name == 'ef':
                html = flatten(_lk._AnnotationLinker(o).link_to('FromImpl', 'label'))
                if f'href="{ob.url}"' not in html:
                    fails.append({'observed': f'{key}: annotation FromImpl is rendered as {html!r}', 'required': f'a link to {ob.url}', 'class': 'annotation'})
            if isinstance(o, model.Function) and o.name == 'f' and o.parent.name in ('user', 'auser'):
                for local in ('FromImpl', 'FromPkg'):
                    html = flatten(_lk._AnnotationLinker(o).link_to(local, 'label'))
                    if f'href="{ob.url}"' not in html:
                        fails.append({'observed': f'{key}: annotation {local} is rendered as {html!r}', 'required': f'a link to {ob.url}',
                                      'class': 'annotation'})
        # references made by the members of the moved class, written the way the defining module names things
        y = system.allobjects.get('pk.api2.Y')
        sib = system.allobjects.get(home + '.sib')
        if y is None or 'pk._impl.Y' in system.allobjects:
            fails.append({'observed': f'pk.api2.Y: {y}; pk._impl.Y documented: {"pk._impl.Y" in system.allobjects}', 'required': 'documented once, at pk.api2.Y', 'class': 'second-object'})
        elif sib is not None:
            html = flatten(_lk._AnnotationLinker(sib).link_to('Y', 'label'))
            if f'href="{y.url}"' not in html:
                fails.append({'observed': f'{home}.sib: annotation Y is rendered as {html!r}', 'required': f'a link to {y.url}', 'class': 'member-annotation'})
            try:
                got = _lk._EpydocLinker(sib)._resolve_identifier_xref('Y.ping', 0)
            except LookupError:
                got = None
            if got is not y.contents['ping']:
                fails.append({'observed': f'{home}.sib: cross-reference Y.ping -> {got}', 'required': f'{y.contents["ping"]}', 'class': 'member-reference'})
        # (docstring cross-references by a full name consult the loaded inventories before the aliases of the project - by design of
        #  _resolve_identifier_xref, and outside this property's quantifier, which has no inventories: taken out again)
        system.intersphinx._links.pop(old, None)
        system.intersphinx._links.pop(old + '.m', None)
        # docstring cross-references by old or new qualified name (the linker's own resolution)
        from pydoctor import linker
        user = system.allobjects['pk.user']
        for ref in (old, new, old + '.m', new + '.m', old + '.In.v'):
            lk = linker._EpydocLinker(user.contents['U1'])
            try:
                got = lk._resolve_identifier_xref(ref, 0)
            except LookupError:
                got = None
            want = system.allobjects.get(ref.replace(old, home))
            if got is not want or got is None:
                fails.append({'observed': f'cross-reference {ref!r} from pk.user.U1 -> {got}', 'required': f'{want}', 'class': 'reference'})
    return fails or None


def _fo_cases(tier, seed):
    for order in itertools.permutations(('corelib', 'app', 'tools')):
        yield {'roots': list(order)}


def _fo_oracle(system, full_name):
    """the specification of System.find_object (specs/c02.py: found / lookup_fails), written out over the real objects"""
    direct = system.allobjects.get(full_name)
    if direct is not None:
        return direct
    head = full_name.split('.', 1)[0]
    root = next((r for r in system.rootobjects if r.name == head), None)
    if root is None:
        return None
    rest = full_name.split('.', 1)[1]
    got = system.allobjects.get(root.expandName(rest))
    return got if got is not None else LookupError


def _fo_check(case):
    """System.find_object against its specification on a system with three roots, re-exports in each of them"""
    srcs = {
        'corelib': [('corelib', 'from corelib._impl import Engine\n__all__ = ["Engine"]\n', True), ('corelib._impl', 'class Engine:\n    def run(self): pass\nclass Kept: pass\n', False)],
        'app': [('app', 'from app._x import Widget as W\n__all__ = ["W"]\n', True), ('app._x', 'class Widget:\n    class In: pass\n', False),
                ('app.use', 'from corelib._impl import Engine\nclass U(Engine): pass\n', False)],
        'tools': [('tools', 'def t(): pass\n', False)],
    }
    mods = [m for r in case['roots'] for m in srcs[r]]
    system = fixtures.build_system(mods)
    names = ['corelib', 'corelib.Engine', 'corelib._impl.Engine', 'corelib._impl.Engine.run', 'corelib._impl.Kept', 'corelib._impl.Nope', 'corelib.nope.deeper',
             'app.W', 'app._x.Widget', 'app._x.Widget.In', 'app._x.Gone', 'app.use.U', 'app.use.Engine', 'tools.t', 'tools.missing', 'tools', 'external', 'external.mod.Name',
             'os.path', 'corelibx.Engine', 'Engine']
    fails = []
    for n in names:
        want = _fo_oracle(system, n)
        try:
            got = system.find_object(n)
        except LookupError:
            got = LookupError
        if got is not want:
            fails.append({'observed': f'find_object({n!r}) with roots {[r.name for r in system.rootobjects]} -> {got}', 'required': f'{want}', 'class': 'find_object:' + n})
    return fails or None


HARNESS = {
    f'{M}:System.find_object': {'cases': _fo_cases, 'check': _fo_check,
        'bound': 'three roots in all 6 orders, a re-export in two of them; 21 names (registered, outdated, unknown under a root, external, without dot)'},
    f'{A}:ModuleVistor._handleReExport': {'cases': _cases, 'check': _check,
        'covers': [f'{A}:ModuleVistor._getCurrentModuleExports', f'{M}:Documentable.reparent', f'{M}:Documentable._handle_reparenting_pre',
                   f'{M}:Documentable._handle_reparenting_post', f'{M}:Documentable.fullName', f'{M}:System.addObject', f'{M}:Function.setup'],
        'bound': 'plain / renamed / star re-export x consumer analysed before or after x defining module exporting the name itself or not; '
                 'consumers importing from either location, as base class, annotation and docstring cross-reference'},
}


# ---- on the written pages: the re-exported objects are listed where they are exported (through the templates of each theme) ----
def _site_cases(tier, seed):
    for k in ((0, 2) if tier == 'quick' else (0, 2, 3)):
        yield {'privacy': 0, 'project': 'kitchen', 'options': k}


def _site_check(case):
    """the kitchen-sink package re-exports Engine, helper, Alpha, Beta (package) and Widget (sibling module): on the written pages each is
    listed by a member table of the re-exporting module's page and by none of the defining module's page"""
    from replay import c12
    fails = c12.check_site(dict(case), 'C11') or []
    if isinstance(fails, dict):
        fails = [fails]
    # (everything the link / anchor / listing check finds on this project, minus the listed C11 findings)
    return [f for f in fails if not (f.get('toc_backlink') or f.get('displaced_duplicate') or f.get('summary_clash'))] or None


HARNESS['pydoctor/themes/base/common.html'] = {'cases': _site_cases, 'check': _site_check,
    'covers': ['pydoctor/themes/readthedocs/common.html', 'pydoctor/templatewriter/pages/__init__.py:PackagePage.packageInitTable'],
    'bound': 'the kitchen-sink package under 2 (3) themes / option sets: every visible member is listed by a member table of its parent page'}


# ---- extensions that look a name up: an interface that moved is still an interface for those who name its old location ------------
def _zope_cases(tier, seed):
    for order in ((0, 1) if tier == 'quick' else (0, 1, 2)):
        yield {'zope': True, 'order': order}


def _zope_check(case):
    """zp/__init__ re-exports IFoo of zp._impl; consumers derive a sub-interface and declare an implementation, naming IFoo at the old
    location (zp._impl.IFoo) and at the new one (zp.IFoo): both spellings must give the same documentation"""
    import contextlib, io
    from pydoctor import model
    files = {'zp': ('from zp._impl import IFoo\n__all__ = ["IFoo"]\n', True),
             'zp._impl': ('from zope.interface import Interface\nclass IFoo(Interface):\n    def m(): "doc"\n', False),
             'zp.old': ('from zp._impl import IFoo\nfrom zope.interface import implementer\nclass ISubOld(IFoo):\n    "sub"\n'
                        '@implementer(ISubOld)\nclass ImplOld:\n    def m(self): pass\n@implementer(IFoo)\nclass DirectOld:\n    def m(self): pass\n', False),
             'zp.new': ('from zp import IFoo\nfrom zope.interface import implementer\nclass ISubNew(IFoo):\n    "sub"\n'
                        '@implementer(ISubNew)\nclass ImplNew:\n    def m(self): pass\n@implementer(IFoo)\nclass DirectNew:\n    def m(self): pass\n', False)}
    orders = [['zp', 'zp._impl', 'zp.old', 'zp.new'], ['zp', 'zp.new', 'zp.old', 'zp._impl'], ['zp', 'zp.old', 'zp._impl', 'zp.new']]
    system = model.System()
    builder = system.systemBuilder(system)
    with contextlib.redirect_stdout(io.StringIO()) as out:
        for name in orders[case['order']]:
            text, is_pkg = files[name]
            parent = name.rsplit('.', 1)[0] if '.' in name else None
            builder.addModuleString(text, name.rsplit('.', 1)[-1], parent_name=parent, is_package=is_pkg)
        builder.buildModules()
    fails = []
    g = system.allobjects.get
    for suffix in ('Old', 'New'):
        mod = 'zp.' + suffix.lower()
        isub, impl, direct = g(f'{mod}.ISub{suffix}'), g(f'{mod}.Impl{suffix}'), g(f'{mod}.Direct{suffix}')
        if isub is None or impl is None or direct is None:
            fails.append({'observed': f'{mod}: objects missing', 'required': 'documented', 'class': 'zope-missing'})
            continue
        if not getattr(isub, 'isinterface', False) or isub.kind is not model.DocumentableKind.INTERFACE:
            fails.append({'observed': f'{isub.fullName()} (a subclass of the interface named as in {mod}) has kind {isub.kind}, isinterface={getattr(isub, "isinterface", None)}',
                          'required': 'an interface, whichever location of the moved base the module names', 'class': 'zope-subinterface-kind'})
        if impl not in getattr(isub, 'implementedby_directly', []):
            fails.append({'observed': f'{impl.fullName()} is not among the known implementations of {isub.fullName()}', 'required': 'listed', 'class': 'zope-implementedby'})
        ifoo = g('zp.IFoo')
        if ifoo is not None and direct not in getattr(ifoo, 'implementedby_directly', []):
            fails.append({'observed': f'{direct.fullName()} is not among the known implementations of zp.IFoo', 'required': 'listed', 'class': 'zope-implementedby-moved'})
    if 'is not an interface' in out.getvalue():
        fails.append({'observed': 'warning: ' + [l for l in out.getvalue().splitlines() if 'is not an interface' in l][0][:160],
                      'required': 'no such warning: every named interface is one', 'class': 'zope-warning'})
    return fails or None


HARNESS['pydoctor/extensions/zopeinterface.py:namesInterface'] = {'cases': _zope_cases, 'check': _zope_check,
    'bound': 'one package re-exporting an interface, consumers naming the old and the new location (sub-interface, @implementer), 2 (3) analysis orders'}
