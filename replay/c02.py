"""C02 / C07 native harness (bounded): invariants of the object model after analysing generated projects whose history contains
re-export moves, duplicate definitions, import cycles, nested classes and documented-only attributes."""
from __future__ import annotations
import itertools
import random
import re
from replay import fixtures

M = 'pydoctor/model.py'

PROJECTS = {
    'plain': [('p', '"""pkg"""\n', True),
              ('p.a', 'class A:\n    def m(self): pass\n    class N:\n        def nm(self): pass\nx = 1\ndef f(): pass\n', False),
              ('p.b', 'from p.a import A\nclass B(A):\n    """\n    @ivar field: documented only\n    @type field: int\n    """\n    def m(self): pass\n', False)],
    'reexport': [('p', 'from ._impl import X, helper as h\nfrom .other import Y\n__all__ = ["X", "h", "Y"]\n', True),
                 ('p._impl', 'class X:\n    def m(self): pass\n    class In:\n        v = 1\ndef helper(): pass\n', False),
                 ('p.other', 'from p._impl import X\nclass Y(X):\n    def m(self): pass\n__all__ = ["Y"]\n', False),
                 ('p.user', 'from p import X\nfrom p._impl import X as X2\nclass U(X): pass\nclass U2(X2): pass\n', False)],
    'reexport_star': [('q', 'from q.impl import *\n__all__ = ["P", "fn"]\n', True),
                      ('q.impl', 'class P:\n    def m(self): pass\ndef fn(): pass\nclass NotExported: pass\n', False)],
    'reexport_occupied': [('r', 'class X:\n    def own(self): pass\nfrom ._impl import X\n__all__ = ["X"]\n', True),
                          ('r._impl', 'class X:\n    def m(self): pass\n', False)],
    'reexport_root_module': [('ra', 'import rb\n', False), ('rb', 'x = 1\n', False), ('rc', 'from ra import rb\n__all__ = ["rb"]\n', False)],
    'reexport_same_name_as_module': [('s', 'from .s import s, f\n__all__ = ["s", "f"]\n', True),
                                     ('s.s', 'class s:\n    def f(): pass\ndef f(): pass\n', False)],
    'reexport_module': [('rm', 'from . import mod as module\n__all__ = ("module",)\n', True), ('rm.mod', 'def f(): pass\n', False),
                        ('rm.plain', 'from rm import other\n__all__ = ["other"]\n', False), ('rm.other', 'class O:\n    def m(self): pass\n', False)],
    'dups': [('d', 'def f(): pass\ndef f(): pass\nclass K:\n    def meth(self): pass\nclass K:\n    def other(self): pass\n'
                   'class C:\n    def m(self): pass\n    def m(self): pass\n', False)],
    'dups_deep': [('dd', 'class Outer:\n    class Config:\n        level = 1\n        def validate(self): pass\n        class Inner:\n            x = 1\n'
                         'class Outer:\n    def other(self): pass\ndef f():\n    pass\nif True:\n    def f():\n        pass\n', False)],
    'dups_nested': [('dn', 'class C:\n    def m(self): pass\n    def m(self): pass\nclass C:\n    def z(self): pass\n', False)],
    'mro_conflict': [('mc', 'class A: pass\nclass B(A): pass\nclass Order(A, B):\n    def m(self): pass\nclass P: pass\nclass Q: pass\n'
                            'class PQ(P, Q): pass\nclass QP(Q, P): pass\nclass Clash(PQ, QP): pass\nclass Twice(B, P, B): pass\n', False)],
    'cycle': [('c', '', True), ('c.m1', 'from c.m2 import B\nclass A(B): pass\nclass Base1: pass\n', False),
              ('c.m2', 'from c.m1 import Base1\nclass B(Base1): pass\n', False)],
    'cycle_reexport': [('e', 'from e.m1 import A\n__all__ = ["A"]\n', True), ('e.m1', 'from e.m2 import B\nclass A(B): pass\n', False),
                       ('e.m2', 'import e\nclass B: pass\nclass C(e.A): pass\n', False)],
    'class_in_func': [('g', 'def f():\n    class Inner: pass\n    def inner(): pass\nclass C:\n    def m(self):\n        class L: pass\n', False)],
    'summary_clash': [('classIndex', 'x = 1\n', False), ('other', 'y = 2\n', False)],
    'page_names': [('pn', '', True), ('pn.a', 'class b:\n    class c: pass\n', False), ('pn.z', 'class Index: pass\nclass index: pass\n', False)],
    'zope': [('z', 'from zope.interface import Interface, implementer\nclass IFoo(Interface):\n    def m(): pass\n'
                   '@implementer(IFoo)\nclass Foo:\n    def m(self): pass\nclass Sub(Foo): pass\n', False)],
    # an interface that the package re-exports, used (base class, @implementer) by a module that imports it from where it is defined
    'zope_reexported': [('zp', 'from zp._impl import IFoo\n__all__ = ["IFoo"]\n', True),
                        ('zp._impl', 'from zope.interface import Interface\nclass IFoo(Interface):\n    def m(): "doc"\n', False),
                        ('zp.late', 'from zp._impl import IFoo\nfrom zope.interface import implementer\nclass ISub(IFoo):\n    "sub"\nclass ISubSub(ISub):\n    pass\n@implementer(IFoo, ISub)\nclass Impl:\n    def m(self): pass\n', False)],
    # docstring fields that name something that is not a variable (a submodule, a nested class, a method)
    'fields_on_non_variables': [('fv', '"""Package.\n\n@var sub: a submodule\n@var K: a class\n@var f: a function\n@type sub: module\n"""\nclass K:\n    """\n    @ivar N: nested class\n    @cvar m: a method\n    """\n    class N: pass\n    def m(self): pass\ndef f(): pass\n', True),
                                ('fv.sub', 'x = 1\n', False)],
    # variables that the docstring of their module / class documents by fields (@type only, @var, @ivar), assigned or not
    'docstring_fields': [('df', '"""Module.\n\n@type x: int\n@var y: documented\n@type w: str\n"""\nx = 1\ny = 2\nz = 3\n'
                                'class K:\n    """\n    @type a: int\n    @ivar b: documented only\n    @cvar c: doc\n    """\n    a = 1\n    c = 2\n    def __init__(self):\n        self.d = 3\n', False)],
    # decorators that only mean something in a class body, used at module level and in a function
    'module_level_decorated': [('md', '@staticmethod\ndef make(): pass\n@classmethod\ndef create(cls): pass\ndef plain(): pass\n@property\ndef prop(): pass\n'
                                      'class K:\n    @staticmethod\n    def s(): pass\n    @classmethod\n    def c(cls): pass\n    def m(self): pass\n', False)],
    # a name that is a method (or a nested class) first and is then assigned an Attribute / schema field
    'zope_rebound': [('zr', 'from zope.interface import Interface, Attribute\nimport zope.schema as schema\nclass IFoo(Interface):\n    def x(): "method"\n    x = Attribute("now an attribute")\n'
                            '    def f(): "method"\n    f = schema.TextLine(description="d")\n    class N: pass\n    N = Attribute("was a class")\n'
                            'class K:\n    def y(self): pass\n    y = Attribute("attr")\n', False)],
    # the same with attrs: a method / static method / nested class whose name is then re-bound by attr.ib() or an annotated assignment
    'attrs_rebound': [('ar', 'import attr\nfrom typing import ClassVar\n@attr.s\nclass Plain:\n    "doc"\n    def port(self):\n        "method first"\n    port = attr.ib(default=8080)\n'
                             '    class Limits:\n        "nested class first"\n        high = 3\n    Limits = attr.ib(factory=dict)\n    normal = attr.ib(type=int)\n'
                             '@attr.s(auto_attribs=True)\nclass Auto:\n    "doc"\n    @staticmethod\n    def build():\n        "static method first"\n    build: int = 3\n    other: int = 4\n'
                             '    shared: ClassVar[int] = 1\n    class Inner:\n        x = 1\n    Inner: dict = attr.Factory(dict)\n', False)],
    # interfaces created by calling an InterfaceClass subclass, implemented by classes and provided by a module
    'zope_called': [('zc', '', True),
                    ('zc.ifaces', 'from zope.interface import Interface\nfrom zope.interface.interface import InterfaceClass\n'
                                  'class PluginInterfaceClass(InterfaceClass):\n    pass\nIPlugin = PluginInterfaceClass("IPlugin")\n'
                                  'class IOther(Interface):\n    pass\n', False),
                    ('zc.impl', 'from zope.interface import implementer, moduleProvides, classImplements\nfrom zc.ifaces import IPlugin, IOther\n'
                                'moduleProvides(IPlugin)\n@implementer(IPlugin, IOther)\nclass P1:\n    pass\nclass P2:\n    pass\nclassImplements(P2, IPlugin)\n'
                                # an interface from a module of the package that is not part of the run (generated at build time), named first
                                'from zc._generated import IGen\n@implementer(IGen, IOther, IPlugin)\nclass P3:\n    pass\n'
                                # the same call inside a function and a method body creates nothing that is documented
                                'from zc.ifaces import PluginInterfaceClass\ndef make():\n    ILocal = PluginInterfaceClass("ILocal")\n    return ILocal\n'
                                'class Registry:\n    def build(self):\n        IInner = PluginInterfaceClass("IInner")\n        return IInner\n', False)],
}


def _cases(tier, seed):
    for name in PROJECTS:
        yield {'project': name}
        yield {'project': name, 'reversed': True}
    for argv in (['shop', 'solo.py'], ['solo.py', 'shop'], ['shop', 'solo.py', 'shop'], ['solo.py', 'solo.py', 'shop'], ['shop', 'shop'],
                 ['shop', 'other/shop'], ['other/shop', 'solo.py', 'shop']):
        yield {'project': 'paths', 'argv': argv}
    rnd = random.Random(seed)
    for _ in range(20 if tier == 'quick' else 200):
        yield {'project': 'random', 'seed': rnd.randrange(10 ** 6)}


def _random_project(seed):
    rnd = random.Random(seed)
    nmods = rnd.randint(2, 4)
    mods = [('w', '', True)]
    defined = []
    for i in range(nmods):
        lines = []
        for (mod, cls) in rnd.sample(defined, min(len(defined), rnd.randint(0, 2))):
            lines.append(f'from w.{mod} import {cls}')
        exports = []
        for j in range(rnd.randint(1, 3)):
            cname = f'K{i}{j}'
            bases = [c for (_, c) in rnd.sample(defined, min(len(defined), rnd.randint(0, 1))) if f'import {c}' in '\n'.join(lines)]
            lines.append(f'class {cname}({", ".join(bases)}):')
            lines.append('    def m(self): pass')
            if rnd.random() < 0.3:
                lines.append('    def m(self): pass')
            if rnd.random() < 0.3:
                lines.append('    class Nested:\n        a = 1')
            defined.append((f'm{i}', cname))
            exports.append(cname)
        if rnd.random() < 0.3:
            lines.append(f'def dup(): pass\ndef dup(): pass')
        mods.append((f'w.m{i}', '\n'.join(lines) + '\n', False))
    if rnd.random() < 0.7 and defined:
        mod, cls = rnd.choice(defined)
        mods[0] = ('w', f'from w.{mod} import {cls}\n__all__ = ["{cls}"]\n', True)
    return mods


def check_model(system):
    """-> list of failures of the well-formedness invariants (statement of C02)"""
    from pydoctor import model
    fails = []
    for key, o in system.allobjects.items():
        if o.fullName() != key:
            fails.append({'observed': f'registry key {key!r} holds an object whose qualified name is {o.fullName()!r}',
                          'required': 'every object is registered under exactly its current qualified name',
                          'class': 'stale-key', 'nested_duplicate': bool(re.search(r' \d+\.', o.fullName()) or re.search(r' \d+\.', key)),
                          # a displaced duplicate (name '<n> <i>') still registered below the old location of its container, which was moved
                          'displaced_in_moved': bool(re.fullmatch(r'.+ \d+', o.name)) and key.rsplit('.', 1)[-1] == o.name
                          and not re.search(r' \d+\.', key) and o.parent is not None and system.allobjects.get(o.parent.fullName()) is o.parent
                          and key.rsplit('.', 1)[0] != o.parent.fullName()})
            continue
        p = o.parent
        if p is None:
            if o not in system.rootobjects:
                fails.append({'observed': f'{key} has no parent and is not a root', 'required': 'reachable from a root', 'class': 'orphan'})
        else:
            if system.allobjects.get(p.fullName()) is not p:
                fails.append({'observed': f'{key}: its parent {p.fullName()!r} is not the registered object of that name',
                              'required': 'can be reached from a root package or module', 'class': 'parent-unregistered'})
            superseded = bool(re.fullmatch(r'.+ \d+', o.name))
            if p.contents.get(o.name) is not o and not superseded:
                fails.append({'observed': f'{key} is not the entry {o.name!r} of its parent', 'required': "is the entry of that name in its parent (unless superseded)",
                              'class': 'not-in-parent'})
        if isinstance(o, model.Function) and isinstance(o.parent, model.Class) and \
                o.kind not in (model.DocumentableKind.METHOD, model.DocumentableKind.CLASS_METHOD, model.DocumentableKind.STATIC_METHOD):
            fails.append({'observed': f'{key} is a {o.kind} directly in a class', 'required': 'functions directly in classes are methods', 'class': 'kind'})
        if isinstance(o, model.Function) and not isinstance(o.parent, model.Class) and \
                o.kind in (model.DocumentableKind.METHOD, model.DocumentableKind.CLASS_METHOD, model.DocumentableKind.STATIC_METHOD):
            fails.append({'observed': f'{key} is a {o.kind.name} in a {type(o.parent).__name__}', 'required': 'has a kind that fits its place (methods live in classes)', 'class': 'kind-outside-class'})
        K_ = model.DocumentableKind
        natural = {model.Package: (K_.PACKAGE,), model.Module: (K_.MODULE, K_.PACKAGE), model.Class: (K_.CLASS, K_.INTERFACE, K_.EXCEPTION),
                   model.Function: (K_.FUNCTION, K_.METHOD, K_.CLASS_METHOD, K_.STATIC_METHOD)}
        for typ_, kinds_ in natural.items():
            if isinstance(o, typ_):
                if o.kind not in kinds_ and not (isinstance(o, model.Function) and o.kind in (K_.ATTRIBUTE, K_.SCHEMA_FIELD)):
                    fails.append({'observed': f'{key} is a {type(o).__name__} of kind {o.kind}', 'required': 'has a kind that fits its place', 'class': 'kind-of-type'})
                break
        if isinstance(o, model.Attribute) and o.kind is None and o.value is not None:
            fails.append({'observed': f'{key} is assigned in the source ({type(o.value).__name__}) but has no kind (which hides it)', 'required': 'has a kind that fits its place',
                          'class': 'kind-missing'})
        if isinstance(o, model.Module) and o.parent is not None and not isinstance(o.parent, model.Package):
            fails.append({'observed': f'module {key} sits in a {type(o.parent).__name__}', 'required': 'modules sit only in packages', 'class': 'module-place'})
        if isinstance(o, (model.Function, model.Attribute)) and o.contents:
            fails.append({'observed': f'{key} has children {list(o.contents)}', 'required': 'functions and variables have no children', 'class': 'leaf-children'})
        if isinstance(o, model.Class) and hasattr(o, 'isinterface'):
            # zope: a class is an interface exactly when one of its resolved bases is (or it derives from zope.interface.Interface itself)
            via_base = any(b is not None and getattr(b, 'isinterface', False) for b in o.baseobjects)
            if via_base and not (o.isinterface and o.kind is model.DocumentableKind.INTERFACE):
                fails.append({'observed': f'{key} derives from an interface but is documented as {o.kind.name} (isinterface={o.isinterface})', 'required': 'has a kind that fits its place',
                              'class': 'interface-kind'})
        if isinstance(o, model.Class):
            mro = o.mro()
            if not mro or mro[0] is not o:
                fails.append({'observed': f'{key}.mro() does not start with the class', 'required': 'starts with the class itself', 'class': 'mro-head'})
            for b in o.baseobjects:
                if b is not None and mro.count(b) != 1 and b is not o:
                    fails.append({'observed': f'{key}: resolved base {b.fullName()} occurs {mro.count(b)} times in the linearisation',
                                  'required': 'each resolved base once', 'class': 'mro-base'})
                if b is not None and o not in b.subclasses:
                    fails.append({'observed': f'{key} has base {b.fullName()} but is not among its subclasses', 'required': "'subclass of' is the inverse of 'base of'",
                                  'class': 'subclass-missing'})
            for s in o.subclasses:
                if o not in s.baseobjects:
                    fails.append({'observed': f'{s.fullName()} is listed as subclass of {key} without having it as base', 'required': 'exact inverse', 'class': 'subclass-extra'})
            for s_ in {id(x): x for x in o.subclasses}.values():
                # listed as often as the subclass names it as a base (class Twice(B, P, B) names B twice)
                if sum(1 for x in o.subclasses if x is s_) != sum(1 for b in s_.baseobjects if b is o):
                    fails.append({'observed': f'{key}.subclasses lists {s_.fullName()} {sum(1 for x in o.subclasses if x is s_)} times, '
                                              f'it names {key} as base {sum(1 for b in s_.baseobjects if b is o)} times',
                                  'required': 'exact inverse', 'class': 'subclass-dup'})
        if isinstance(o, (model.Class, model.Module)):
            impl = getattr(o, 'implements_directly', None)
            if impl is not None:
                for iname in impl:
                    io = system.allobjects.get(iname)
                    if io is not None and getattr(io, 'isinterface', False) and o not in (getattr(io, 'implementedby_directly', None) or []):
                        fails.append({'observed': f'{key} implements {iname} but is not in its implementedby list', 'required': "'implemented by' is the inverse of 'implements'",
                                      'class': 'implements'})
            for other in getattr(o, 'implementedby_directly', None) or []:
                if key not in (getattr(other, 'implements_directly', None) or []):
                    fails.append({'observed': f'{other.fullName()} is listed as implementer of {key} without implementing it', 'required': 'exact inverse',
                                  'class': 'implementedby-extra'})
    # whatever hangs below a registered object (superseded definitions included) is registered under its own qualified name
    for key, o in list(system.allobjects.items()):
        for c in o.contents.values():
            if system.allobjects.get(c.fullName()) is not c:
                fails.append({'observed': f'{c.fullName()!r} (member of the registered object {key!r}) is not registered under that name',
                              'required': 'every object is registered under exactly its current qualified name', 'class': 'member-unregistered',
                              # the listed finding: a duplicate *inside* a duplicate keeps a stale key
                              'nested_duplicate': bool(re.search(r' \d+$', c.name) and re.search(r' \d+(\.|$)', key))})
    # reachability through contents, for everything that is not superseded
    reach = set()

    def walk(o):
        reach.add(id(o))
        for k, c in o.contents.items():
            # the tree read downwards: every entry is a child of its container, under its own name, registered under its qualified name
            if c.parent is not o:
                fails.append({'observed': f'{o.fullName()}.contents[{k!r}] has parent {c.parent.fullName() if c.parent else None!r}',
                              'required': 'is the entry of that name in its parent', 'class': 'entry-parent'})
                continue
            if c.name != k:
                fails.append({'observed': f'{o.fullName()}.contents[{k!r}] is named {c.name!r}', 'required': 'the entry of that name', 'class': 'entry-name'})
            if system.allobjects.get(c.fullName()) is not c:
                fails.append({'observed': f'{c.fullName()} (entry of {o.fullName()}) is not the registered object of that name',
                              'required': 'every object is registered under exactly its current qualified name', 'class': 'entry-unregistered'})
            if id(c) in reach:
                fails.append({'observed': f'{c.fullName()} is reached twice through contents', 'required': 'a tree', 'class': 'shared-node'})
                continue
            walk(c)
    for r in system.rootobjects:
        walk(r)
    # two different pages never share a file name (pages = own-page objects reachable from the roots + the summary pages)
    summary_pages = {'classIndex.html', 'nameIndex.html', 'moduleIndex.html', 'undoccedSummary.html', 'all-documents.html'}
    if len(system.rootobjects) != 1:
        summary_pages.add('index.html')
    owners = {}
    for key, o in system.allobjects.items():
        if id(o) in reach and o.documentation_location is model.DocLocation.OWN_PAGE:
            if o.url in owners:
                fails.append({'observed': f'{key} and {owners[o.url]} share the file {o.url}', 'required': 'two different pages never share a file name',
                              'class': 'shared-page'})
            owners[o.url] = key
            if o.url in summary_pages:
                fails.append({'observed': f'the page of {key} is {o.url}, which is also a summary page',
                              'required': 'two different pages never share a file name', 'class': 'summary-clash', 'summary_clash': o.url})
    for key, o in system.allobjects.items():
        if id(o) not in reach and not re.search(r' \d+(\.|$)', key):
            fails.append({'observed': f'{key} cannot be reached from a root through contents', 'required': 'reachable from a root package or module',
                          'class': 'unreachable'})
    return fails


def _check_paths(case):
    """the same roots handed over as file system paths, some of them twice (pydoctor pkg mod.py pkg)"""
    import contextlib, io, os, shutil, tempfile
    from pathlib import Path
    from pydoctor import model
    d = tempfile.mkdtemp(prefix='c02.', dir='/var/tmp')
    try:
        files = {'shop/__init__.py': '"""Shop."""\n', 'shop/cart.py': 'class Cart:\n    def add(self): pass\n', 'shop/sub/__init__.py': 'class InSub:\n    def m(self): pass\n    def m(self): pass\ndef only_in_first(): pass\n', 'shop/sub/inner/__init__.py': 'class Inner: pass\n', 'shop/sub/inner/leaf.py': 'def leaf(): pass\n',
                 'shop/sub/deep.py': 'from shop.cart import Cart\nclass Deep(Cart): pass\n', 'solo.py': 'import shop.cart\nclass S(shop.cart.Cart): pass\n',
                 # a second package of the same name in another directory (the later one replaces the earlier one)
                 'other/shop/__init__.py': '"""Other shop."""\nclass Till: pass\n', 'other/shop/extra.py': 'def pay(): pass\n',
                 'other/shop/cart.py': 'class Cart:\n    def remove(self): pass\n'}
        for rel, text in files.items():
            p = os.path.join(d, rel)
            os.makedirs(os.path.dirname(p), exist_ok=True)
            with open(p, 'w') as f:
                f.write(text)
        system = model.System()
        builder = system.systemBuilder(system)
        with contextlib.redirect_stdout(io.StringIO()):
            for arg in case['argv']:
                builder.addModule(Path(d) / arg)
            builder.buildModules()
        names = [r.name for r in system.rootobjects]
        fails = check_model(system)
        if len(names) != len(set(names)):
            fails.append({'observed': f'root objects {names}', 'required': 'every object is registered under exactly its current qualified name (one root per name)',
                          'class': 'duplicate-root'})
        return fails or None
    finally:
        shutil.rmtree(d, ignore_errors=True)


def _check(case):
    if case.get('project') == 'paths':
        return _check_paths(case)
    mods = _random_project(case['seed']) if case['project'] == 'random' else list(PROJECTS[case['project']])
    if case.get('reversed'):
        head = [m for m in mods if m[2]]
        rest = [m for m in mods if not m[2]]
        mods = head + list(reversed(rest))
    try:
        system = fixtures.build_system(mods)
    except BaseException as ex:    # noqa
        import traceback
        tb = traceback.extract_tb(ex.__traceback__)[-1]
        return {'observed': f'analysis aborted: {type(ex).__name__}: {ex} at {tb.filename.split("/")[-1]}:{tb.name}', 'required': 'a coherent object model',
                'class': 'abort:' + tb.name, 'abort_in': tb.name}
    return check_model(system) or None


def _pages_cases(tier, seed):
    yield {'privacy': 0, 'project': 'two_roots', 'rules': ['HIDDEN:beta', 'HIDDEN:gamma']}
    yield {'privacy': 0, 'project': 'two_roots', 'rules': []}
    yield {'privacy': 0, 'project': 'kitchen', 'options': 4}


def _pages_check(case):
    """on disk: two different pages never share a file (no page is a link to another one unless the project has a single root, whose page
    is index.html), every page object has its file"""
    from replay import c12
    fails = c12.check_site(dict(case), 'C11') or []
    if isinstance(fails, dict):
        fails = [fails]
    return [f for f in fails if str(f.get('class', '')).startswith(('unexpected-symlink', 'dead-file', 'abort', 'missing-page'))
            and not (f.get('displaced_duplicate') or f.get('summary_clash'))] or None


HARNESS = {
    'pydoctor/templatewriter/writer.py:TemplateWriter.writeSummaryPages': {'cases': _pages_cases, 'check': _pages_check,
        'bound': 'three real runs (several roots with all but one hidden, several roots, the kitchen-sink project): the written files'},
    f'{M}:System.addObject': {'cases': _cases, 'check': _check,
        'covers': [f'{M}:System.handleDuplicate', f'{M}:System._remove', f'{M}:Documentable.reparent', f'{M}:Documentable.fullName',
                   f'{M}:Function.setup', f'{M}:defaultPostProcess', f'{M}:Documentable._handle_reparenting_pre',
                   f'{M}:Documentable._handle_reparenting_post'],
        'bound': '11 hand-written projects (re-exports incl. star/renamed/onto an occupied name/of a root module, duplicates incl. nested, import '
                 'cycles, classes in functions, zope interfaces) each in two module orders + 20 (200) random multi-module projects'},
}
