"""C01 native harness (bounded): a run never aborts.

One case = one source tree: a package `pk` with a healthy module (`good.py`), the module under test (`t.py`) and, for some cases,
extra files.  The real driver (`pydoctor.driver.main`) is run in-process on it; the run must end with status 0, 2 or 3, write the
pages of every parsable module, the indexes, the search files and the inventory, document the healthy sibling, and name an
unparsable file in its messages.  Docformats rotate over the cases."""
from __future__ import annotations
import os
import random
import re
import signal
import sysconfig
from replay import site

B = 'pydoctor/astbuilder.py'
M = 'pydoctor/model.py'
D = 'pydoctor/driver.py'
FORMATS = ('epytext', 'restructuredtext', 'google', 'numpy', 'plaintext')

GOOD = '"""Healthy module."""\nclass Healthy:\n    """Healthy class."""\n    def m(self, a, b=1):\n        """Healthy method."""\nVALUE = 1\n"""Healthy value."""\n'

# ---- module texts: language constructs, metadata variables, things that do not parse -------------------------------------
SNIPPETS = {
    # --- files that do not parse
    'syntax_error': 'def f(:\n  pass\n',
    'indent_error': 'def f():\npass\n',
    'tab_error': 'if 1:\n\tx = 1\n        y = 2\n',
    'null_byte': 'x = 1\x00\n',
    'bad_encoding_decl': '# -*- coding: nonexistent-codec -*-\nx = 1\n',
    'invalid_utf8': b'x = "\xff\xfe"\n',
    'utf16_bom': '\ufeffx = 1\n'.encode('utf-16'),
    'unterminated_string': 'x = """abc\n',
    'huge_int_literal': 'x = ' + '9' * 5000 + '\n',
    'deep_parens': 'x = ' + '(' * 300 + '1' + ')' * 300 + '\n',
    'deeper_parens': 'x = ' + '(' * 3000 + '1' + ')' * 3000 + '\n',
    'only_backslash': '\\',
    'lone_cr': 'x = 1\ry = 2\r',
    'form_feed': '\x0cx = 1\n\x0c\ndef f(): pass\n',
    'empty': '',
    'only_comment': '# nothing\n',
    'only_docstring': '"""Just a docstring."""',
    'py2_print': 'print "hello"\n',
    'py2_except': 'try:\n    pass\nexcept E, e:\n    pass\n',
    'future_braces': 'from __future__ import braces\n',
    'return_outside': 'return 1\n',
    'await_outside': 'await x\n',
    'nonlocal_module': 'nonlocal x\n',
    'star_assign_bad': '*a = 1\n',
    'dup_arg': 'def f(a, a): pass\n',
    'walrus_bad': '(x := 1) = 2\n',
    # --- metadata variables with odd values
    'all_not_list': '__all__ = "abc"\n',
    'all_unhashable': '__all__ = [{[]: 1}]\n',
    'all_nested': '__all__ = [["a"], ("b",), 1, None, "ok"]\nok = 1\n',
    'all_names': '__all__ = [a, b.c, "d"]\n',
    'all_augmented': '__all__ = ["a"]\n__all__ += ["b"]\n__all__.extend(["c"])\n__all__.append("d")\n__all__ = __all__ + ["e"]\na = b = c = d = e = 1\n',
    'all_augmented_bad': '__all__ += 1\n__all__.extend(x for x in y)\n__all__.append()\n__all__.extend(1, 2)\n__all__.remove("a")\n',
    'all_in_class': 'class C:\n    __all__ = ["x"]\n    __docformat__ = "epytext"\n',
    'all_tuple_star': '__all__ = (*other, "x")\n',
    'all_dict_set': '__all__ = {"a", "b"}\n__all__ = {"a": 1}\n',
    'all_fstring': '__all__ = [f"a{1}"]\n',
    'all_bytes': '__all__ = [b"a", "b"]\nb = 1\n',
    'all_missing_names': '__all__ = ["nope", "missing"]\n',
    'docformat_odd': '__docformat__ = 1\n',
    'docformat_list': '__docformat__ = ["epytext"]\n',
    'docformat_unhashable': '__docformat__ = {[]: 1}\n',
    'docformat_empty': '__docformat__ = ""\n"""doc"""\n',
    'docformat_spaces': '__docformat__ = "   "\ndef f():\n    "doc"\n',
    'docformat_unknown': '__docformat__ = "markdown en"\ndef f():\n    "doc *x*"\n',
    'docformat_helper': '__docformat__ = "_types"\ndef f():\n    "doc"\n',
    'docformat_dotted': '__docformat__ = "epytext.sub"\ndef f():\n    "doc"\n',
    'docformat_twice': '__docformat__ = "epytext"\n__docformat__ = "restructuredtext"\ndef f():\n    "doc `x`"\n',
    'docformat_name': '__docformat__ = fmt\n',
    # --- definitions
    'decorators': 'import functools\n@functools.wraps(x)\n@a.b.c(1, *y, **z)\n@(lambda f: f)\n@x[0]\ndef f(): pass\n@dec\nclass C: pass\n',
    'property_forms': 'class C:\n    @property\n    def p(self): "doc"\n    @p.setter\n    def p(self, v): pass\n    @p.deleter\n    def p(self): pass\n'
                      '    q = property(lambda s: 1)\n    @q.setter\n    def q(self, v): pass\n    @nope.setter\n    def r(self, v): pass\n',
    'property_like': 'import functools\nclass C:\n    @functools.cached_property\n    def a(self): pass\n    @classmethod\n    @property\n    def b(cls): pass\n    @staticmethod\n    @classmethod\n    def c(): pass\n',
    'overloads': 'from typing import overload\n@overload\ndef f(a: int) -> int: ...\n@overload\ndef f(a: str) -> str: ...\ndef f(a): return a\n@overload\ndef g(): ...\n'
                 'class C:\n    @overload\n    def m(self): ...\n    m = 1\n',
    'overload_only': 'import typing\n@typing.overload\ndef f(a: int) -> int: ...\n@typing.overload\nclass K: pass\n',
    'signatures': 'def f(a, /, b, *, c, **kw): pass\ndef g(*args: int, **kw: str) -> "x": pass\ndef h(a=lambda: (yield), b=[x for x in y], c={**d}, d=f"{x!r:>{w}}"): pass\n'
                  'def i(a=1 if x else 2, *, b=not c, **d): pass\nasync def j(a=await_(x)): pass\ndef k(self=None, cls=..., /): pass\n',
    'annotations_str': 'def f(a: "int", b: "List[\'x\']", c: "unbalanced[", d: "a b", e: "", f: "x = 1", g: "\\x00", h: "lambda: 1", i: "\\udfff") -> "None": pass\n'
                       'x: "int" = 1\ny: "a b c"\nz: "" = 2\nclass C:\n    a: "List[" = 1\n    def __init__(self):\n        self.b: "oops(" = 2\n',
    'annotations_odd': 'def f(a: 1, b: [x for x in y], d: f"{x}", e: ...) -> (1, 2): pass\nx: (a, b) = 1\n(y): int = 2\nz.w: int = 3\nq[0]: str = "s"\n',
    'type_comments': 'x = [] # type: List[int]\ndef f(a, b):\n    # type: (int, str) -> None\n    pass\ny = 1 # type: ignore\nz = 2 # type: (\n',
    'class_bases': 'class A(object, metaclass=M): pass\nclass B(x.y.z, *bases, **kw): pass\nclass C(f(1), g[2], (lambda: A)()): pass\nclass D(D): pass\nclass E("str", 1): pass\n',
    'class_cycle': 'class A(B): pass\nclass B(A): pass\nclass C(C2): pass\nclass C2(C3): pass\nclass C3(C): pass\n',
    'mro_conflict': 'class X: pass\nclass Y: pass\nclass A(X, Y): pass\nclass B(Y, X): pass\nclass C(A, B): pass\nclass D(X, X): pass\n',
    'nested_defs': 'def f():\n    def g():\n        class H:\n            def i(self):\n                x = 1\n    return g\nclass A:\n    class B:\n        class C:\n            class D:\n                v = 1\n',
    'conditional_defs': 'import sys\nif sys.version_info > (3,):\n    def f(): pass\nelse:\n    def f(): "other"\ntry:\n    import x\nexcept ImportError:\n    x = None\nelse:\n    y = 1\nfinally:\n    z = 2\n'
                        'while False:\n    w = 1\nfor i in range(3):\n    def loop_f(): pass\nwith open("x") as fh:\n    in_with = 1\n',
    'match_stmt': 'match x:\n    case 1:\n        a = 1\n    case [b, *c]:\n        def f(): pass\n    case {"k": v}:\n        class K: pass\n    case _:\n        pass\n',
    'async_stuff': 'async def f():\n    async with a as b:\n        async for i in c:\n            await d\n    return [x async for x in y]\nclass C:\n    async def m(self): "doc"\n',
    'lambdas': 'f = lambda x, *a, k=1, **kw: (x, a, k, kw)\ng = lambda: (yield)\nh = (lambda: 1)()\n',
    'walrus_etc': 'if (n := 10) > 5: pass\nx = [y := 1, y ** 2]\nprint(f"{(z := 3)}")\n',
    'star_exprs': 'a, *b = 1, 2, 3\n*c, d = x\n[e, [f, *g]] = y\nh = *i, j\nk = {**l, "m": 1}\nfor n, *o in p: pass\n',
    'global_nonlocal': 'x = 1\ndef f():\n    global x, y\n    x = 2\n    y = 3\n    def g():\n        nonlocal_ = 1\n',
    'slots_and_dunder': 'class C:\n    __slots__ = ("a", "b")\n    __slots__ = "c"\n    __slots__ = x\n    __match_args__ = ("a",)\n    __doc__ = "class doc"\n    def __init__(self): self.a = 1\n    def __repr__(self): return ""\n',
    'doc_assign': '__doc__ = "module doc"\nclass C:\n    __doc__ = 1\ndef f(): pass\nf.__doc__ = "assigned"\nC.__doc__ += "more"\n',
    'attr_docstrings': 'a = 1\n"""doc a"""\n"""second string"""\nb, c = 1, 2\n"""doc tuple"""\nd = e = 3\n"""doc chain"""\nf: int\n"""doc ann only"""\nclass C:\n    g = 1\n    "doc g"\n    def __init__(self):\n        self.h = 1\n        "doc h"\n        self.i.j = 2\n        "doc ij"\n        x.k = 3\n        "doc xk"\n',
    'instance_vars': 'class C:\n    def __init__(self, a):\n        self.a = a\n        self.a = 2\n        self.b: int\n        self.c, self.d = 1, 2\n        self.__e = 3\n        self._f = self.g = 4\n    def other(self):\n        self.h = 5\n    @classmethod\n    def cm(cls):\n        cls.i = 6\n    @staticmethod\n    def sm():\n        self.j = 7\n',
    'attr_vs_method': 'class C:\n    def m(self): pass\n    m = staticmethod(m)\n    n = 1\n    def n(self): pass\n    o = classmethod(lambda c: 1)\n    def __init__(self):\n        self.m = 1\n        self.n = 2\n',
    'aliases': 'import os.path as p, sys as s\nfrom os import path as pp, sep\nq = p\nr = q.join\nt = r\nclass C:\n    u = t\n    v = C\nw = w\nx = y\ny = x\n',
    'imports_odd': 'from . import sibling\nfrom .. import beyond\nfrom ... import far\nfrom .nothing import x\nfrom . import *\nfrom .good import *\nfrom pk.good import Healthy as H, VALUE\nimport pk.good as g, pk\nfrom pk import t\nfrom pk.t import self_import\n',
    'import_star_cycle': 'from pk.u import *\n__all__ = ["a"]\na = 1\n',
    'reexport': 'from pk.good import Healthy\nfrom pk.good import VALUE as V2\nfrom pk import good\n__all__ = ["Healthy", "V2", "good", "pk"]\nimport pk\n',
    'dataclasses_attrs': 'import attr, attrs, dataclasses\n@attr.s(auto_attribs=True)\nclass A:\n    x: int = attr.ib(default=1, kw_only=True)\n    y = attr.ib(type=str)\n    z: "oops(" = attr.ib()\n'
                         '@attr.s(auto_attribs=notconst)\nclass B:\n    x = attr.ib(type=1, converter=c)\n    w = attr.ib(default=attr.Factory(list), init=False)\n@attrs.define\nclass D:\n    q: int\n    r: str = attrs.field(factory=str)\n'
                         '@attr.s(auto_attribs={[]: 1})\nclass E:\n    x: int = 1\n@attr.s(**kw)\nclass F: pass\n@dataclasses.dataclass(frozen=True)\nclass G:\n    f: int = dataclasses.field(default=1)\n',
    'zope': 'from zope.interface import Interface, Attribute, implementer, classImplements, implementer_only, moduleProvides\nimport zope.schema as schema\n'
            'class IFoo(Interface):\n    a = Attribute("doc a")\n    b = schema.TextLine(description="d", title=u"t")\n    c = schema.Choice()\n    def m(x): "doc"\n'
            '@implementer(IFoo, IMissing, 1, "str", *many)\nclass Foo: pass\nclassImplements(Foo, IFoo)\nclassImplements(Missing, IFoo)\nclassImplements()\n'
            '@implementer_only()\nclass Bar(Foo): pass\nmoduleProvides(IFoo)\nIBar = Interface("IBar")\nclass IBaz(IBar): pass\nx = Attribute()\ny = schema.Int(description=1)\n',
    'deprecate': 'from twisted.python.deprecate import deprecated, deprecatedProperty, deprecatedModuleAttribute\nfrom incremental import Version\n'
                 '@deprecated(Version("pk", 1, 2, 3), "replacement")\ndef f(): pass\n@deprecated(Version("pk", "NEXT", 0, 0))\ndef g(): pass\n@deprecated()\ndef h(): pass\n'
                 '@deprecated(Version(1), 2)\ndef i(): pass\n@deprecated(version)\nclass C:\n    @deprecatedProperty(Version("pk", 1, 0, 0))\n    def p(self): pass\n'
                 '@deprecated(Version("pk", 1, 2), replacement=lambda: 1)\ndef j(): pass\n@deprecated(Version(package="pk", major=1, minor=2, micro=3))\ndef k(): pass\n',
    'deprecate_nonliteral': 'from twisted.python.deprecate import deprecated, deprecatedProperty\nfrom incremental import Version\nPACKAGE = "pk"\n'
                            '@deprecated(Version(PACKAGE, 21, 2, 0))\ndef f(): pass\n@deprecated(Version(__name__, 1, 0, 0))\ndef g(): pass\n@deprecated(Version(f"{PACKAGE}", 1, 0, 0), "x")\nclass C:\n'
                            '    @deprecatedProperty(Version(pk.NAME, 1, 0, 0))\n    def p(self): pass\n@deprecated(Version(None, 1, 0, 0))\ndef h(): pass\n@deprecated(Version("", 1, 0, 0))\ndef i(): pass\n'
                            '@deprecated(Version("pk", 1.5, None, "x"))\ndef j(): pass\n@deprecated(Version("pk", 1, 0, 0), replacement=1)\ndef k(): pass\n@deprecated(Version("a b", -1, 0, 0))\ndef l(): pass\n',
    'inheritance_tables': 'class Base:\n    "doc"\n    def kept(self): "inherited and not overridden"\n    def over(self): "overridden"\n    attr = 1\n    "doc attr"\n    class In: pass\n'
                          'class Mid(Base):\n    def over(self): pass\n    def _priv(self): pass\nclass Leaf(Mid, dict):\n    "doc"\n    def leaf(self): pass\nclass Solo: pass\n',
    'epytext_repeated_headings': 'def f():\n    """\n    Summary.\n\n    Example\n    =======\n\n    a\n\n    Example\n    =======\n\n    b\n\n    Example\n    =======\n\n    c\n\n    Example\n    =======\n\n    d\n    """\n'
                                 'class K:\n    """\n    Notes\n    =====\n\n    x\n\n    Notes\n    =====\n\n    y\n\n    Notes\n    =====\n\n    z\n    """\n',
    'epytext_numbered_headings': 'def f():\n    """\n    Summary.\n\n    Step\n    ====\n\n    a\n\n    Step 2\n    ======\n\n    b\n\n    Step\n    ====\n\n    c\n\n    Step 1\n    ======\n\n    d\n\n    Step\n    ====\n\n    e\n    """\n',
    'field_without_colon': 'def f(name):\n    """\n    Summary.\n\n    @note ' + 'word ' * 40 + 'and the colon was forgotten\n    @param name ' + 'lorem ipsum ' * 25 + '\n    """\n',
    'rst_lineless_error': '"""\nModule with `one`__ and `two`__ anonymous references but a single target.\n\n__ https://example.org/one\n"""\n'
                          'def f():\n    """\n    An unreferenced target.\n\n    __ https://example.org/lonely\n    """\nclass K:\n    """`a`__ `b`__ `c`__\n\n    __ https://example.org/x\n    """\n',
    'constructors_odd': 'from typing import Self\nclass K:\n    def __init__(): pass\nclass N:\n    def __new__(): pass\nclass P:\n    @classmethod\n    def origin() -> "P": pass\n'
                        '    @classmethod\n    def other() -> Self: pass\n    @staticmethod\n    def st() -> "P": pass\n    @classmethod\n    def star(*a, **k) -> "P": pass\n    @classmethod\n    def kwonly(*, a) -> "P": pass\n'
                        'class Q:\n    def __init__(*args): "doc"\n    def __new__(**kw): "doc"\n    @classmethod\n    def make(cls, /) -> "Q": "doc"\n',
    'constants': 'A = 1\nB: Final = 2\nfrom typing import Final\nC: Final[int] = 3\nC = 4\nD = "x" * 5000\nE = [1] * 3\nF = {1: {2: {3: {4: {5: {}}}}}}\nG = 1_000_000.0e10j\nH = b"\\x00\\xff"\nI = ...\nJ = -(-(-1))\nK = not not x\n'
                 'L = 0x' + 'f' * 6000 + '\nM = """multi\nline"""\nN = f"{x}{y!r}{z:>{w}}"\nO = a if b else c\nP = lambda: 0\nQ = [i for i in range(3) if i]\nR = {**a}\nS = x[1:2, ..., ::3]\nT = (yield)\nU = await_\nV = a @ b\nW = a if b else (c, d)\n',
    'deep_binop': 'X = ' + ' + '.join(['1'] * 3000) + '\n',
    'deep_unary': 'X = ' + '-' * 2000 + '1\n',
    'deep_attr': 'X = a' + '.b' * 3000 + '\n',
    'deep_call': 'X = ' + 'f(' * 150 + ')' * 150 + '\n',
    'deep_subscript_annotation': 'def f(a: ' + 'List[' * 150 + 'int' + ']' * 150 + '): pass\n',
    'deep_nesting_defs': ''.join('    ' * i + f'class C{i}:\n' for i in range(60)) + '    ' * 60 + 'x = 1\n',
    'long_lines': 'X = [' + ', '.join(str(i) for i in range(20000)) + ']\n',
    'many_defs': ''.join(f'def f{i}(a, b=1):\n    "doc {i}"\n' for i in range(400)),
    'unicode_names': 'class Ünïcödé:\n    def méthode(self, ñ=1): "döc"\nπ = 3.14\n"""doc π"""\n名前 = 1\nclass ＡＢ: pass\nªº = 1\n',
    'odd_strings': 'A = "\\ud800"\nB = "\\x00\\x01\\x1b"\nC = "\\N{BELL}"\nD = "\\u2028\\u2029"\nE = "<script>&amp;</p>"\nF = b"\\xff" b"\\x00"\nG = "]]>"\n',
    'surrogate_docstring': 'def f():\n    "doc \\ud800 x"\n',
    'method_wrapped_twice': 'class C:\n    def f(): pass\n    f = staticmethod(f)\n    f = staticmethod(f)\n    @staticmethod\n    def g(): pass\n    g = classmethod(g)\n    def h(self): pass\n    h = classmethod(h)\n    h = staticmethod(h)\n',
    'implementer_non_class': 'from zope.interface import implementer, classImplements\ndef some_function(): pass\nVALUE = 1\n@implementer(some_function, VALUE)\nclass K:\n    def m(self): "doc"\n    def some_function(self): pass\nclassImplements(K, VALUE)\n',
    'zope_called_interface': 'from zope.interface import implementer, Interface\nfrom zope.interface.interface import InterfaceClass\n'
                             'class MyIC(InterfaceClass):\n    pass\nIThing = MyIC("IThing")\nIUnused = MyIC("IUnused", (Interface,), {})\n'
                             '@implementer(IThing)\nclass Thing:\n    def m(self): "doc"\nIPlain = InterfaceClass("IPlain")\n',
    'repeated_headings': 'def f():\n    """\n    Intro.\n\n    Usage\n    =====\n\n    a\n\n    Usage\n    =====\n\n    b\n\n    Usage\n    =====\n\n    c\n\n    Usage\n    =====\n\n    d\n    """\n'
                         'class C:\n    """\n    Notes\n    -----\n    x\n\n    Notes\n    -----\n    y\n\n    Notes\n    -----\n    z\n    """\n',
    'odd_docstrings': 'def a():\n    "\\x00"\ndef b():\n    "L{"\ndef c():\n    """\n    @param: x\n    @type\n    """\ndef d():\n    b"bytes doc"\ndef e():\n    f"fstring {doc}"\ndef f():\n    "a" "b"\ndef g():\n    1\ndef h():\n    "%s" % 1\n',
    'docstring_fields': 'def f(a, b):\n    """\n    @param a: x\n    @param a: again\n    @param c: missing\n    @type a: L{int\n    @type: nothing\n    @return: r\n    @return: r2\n    @rtype: x\n    @rtype: y\n    @raise: z\n    @keyword k: kk\n    @ivar i: on a function\n    """\n'
                        'class C:\n    """\n    @ivar a: x\n    @ivar a: dup\n    @cvar a: again\n    @type a: int\n    @type b: no such\n    @param p: for init\n    @ivar: noname\n    @var v:\n    """\n    a = 1\n',
    'field_attr_clash': 'class C:\n    """\n    @ivar m: clashes with the method\n    @cvar K: clashes with nested class\n    """\n    def m(self): pass\n    class K: pass\n',
    'main_block': 'def main(): pass\nif __name__ == "__main__":\n    main()\n    class InMain: pass\n',
    'exec_eval': 'exec("x = 1")\neval("y")\n__import__("os").system\nglobals()["z"] = 1\nsetattr(m, "w", 2)\n',
    'del_stmt': 'x = 1\ndel x\nclass C:\n    y = 1\n    del y\ndel C.z, (a, b), [c]\n',
    'assign_targets': 'a = b = c = 1\n(d, (e, f)) = 1, (2, 3)\n[g] = [1]\nh.i = 1\nj[0] = 1\nk += 1\nl: int\nm.n: int = 1\n(o) = 1\n__all__, p = [], 1\n',
    'type_alias': 'from typing import TypeVar, Union, Optional\nT = TypeVar("T")\nAlias = Union[int, "str"]\nOpt = Optional[T]\ntype X = int\ntype Y[T] = list[T]\nclass G[T]:\n    def m[U](self, x: U) -> T: ...\n',
    'generics_312': 'def f[T: int, *Ts, **P](a: T, *b: *Ts) -> T: pass\n',
    'shadow_builtins': 'object = 1\nclass property: pass\ndef staticmethod(f): return f\nclass C(object):\n    @property\n    def p(self): pass\n    @staticmethod\n    def s(): pass\nException = ValueError\nclass E(Exception): pass\n',
    'exceptions_kind': 'class E(Exception): pass\nclass F(E, ValueError): pass\nclass G(BaseException, object): pass\nclass H(unknown.Error): pass\n',
    'constructors': 'class A:\n    def __new__(cls, x): pass\n    def __init__(self, x, y): pass\n    @classmethod\n    def make(cls) -> "A": pass\n    @classmethod\n    def make2(cls) -> A: pass\n    @staticmethod\n    def make3() -> "A": pass\n'
                    'class B(A):\n    @classmethod\n    def make(cls, *a) -> "B": pass\nclass M(type):\n    def __call__(cls, *a): pass\nclass C(metaclass=M): pass\n',
    'same_names': 'x = 1\ndef x(): pass\nclass x: pass\nx = 2\nclass K:\n    K = 1\n    def K(self): pass\nimport x\nfrom x import x\n',
    'name_like_page': 'class index: pass\nclass classIndex: pass\ndef nameIndex(): pass\nall_documents = 1\n',
    'dotted_weird_names': 'class A:\n    locals()["b c"] = 1\nglobals()["d.e"] = 2\n',
}
EXTRA_FILES = {
    'import_star_cycle': {'pk/u.py': 'from pk.t import *\n__all__ = ["b"]\nb = 2\n'},
    'imports_odd': {'pk/sibling.py': 'x = 1\n'},
    'name_like_page': {'pk/index.py': 'x = 1\n', 'pk/nameIndex.py': 'y = 1\n'},
}
# whole-tree cases: (files, roots)
TREES = {
    'no_init': {'pk/__init__.py': '', 'pk/good.py': GOOD, 'pk/sub/mod.py': 'x = 1\n', 'pk/sub/deeper/__init__.py': 'y = 2\n'},                       # directory without __init__ inside a package
    'empty_package': {'pk/__init__.py': '', 'pk/good.py': GOOD, 'pk/e/__init__.py': ''},
    'module_and_package_same_name': {'pk/__init__.py': '', 'pk/good.py': GOOD, 'pk/a.py': 'x = 1\n', 'pk/a/__init__.py': 'y = 2\n'},
    'init_unparsable': {'pk/__init__.py': 'def (:\n', 'pk/good.py': GOOD, 'pk/t.py': 'x = 1\n'},
    'c_extension_name': {'pk/__init__.py': '', 'pk/good.py': GOOD, 'pk/ext.cpython-312-x86_64-linux-gnu.so': '\x7fELF', 'pk/ext.py': 'x = 1\n'},
    'pyi_and_py': {'pk/__init__.py': '', 'pk/good.py': GOOD, 'pk/s.py': 'def f(): pass\n', 'pk/s.pyi': 'def f() -> int: ...\n'},
    'non_identifier_files': {'pk/__init__.py': '', 'pk/good.py': GOOD, 'pk/my-mod.py': 'x = 1\n', 'pk/1st.py': 'y = 2\n', 'pk/a b.py': 'z = 3\n', 'pk/class.py': 'w = 4\n'},
    'hidden_files': {'pk/__init__.py': '', 'pk/good.py': GOOD, 'pk/.hidden.py': 'x = (\n', 'pk/__pycache__/good.cpython-312.pyc': 'junk', 'pk/README': 'text'},
    'two_roots_same_name_parts': {'pk/__init__.py': '', 'pk/good.py': GOOD, 'other.py': 'import pk.good\nclass O(pk.good.Healthy): pass\n'},
    'single_module_root': {'good.py': GOOD},
    'test_package': {'pk/__init__.py': '', 'pk/good.py': GOOD, 'pk/test/__init__.py': '', 'pk/test/test_x.py': 'def test(): pass\n'},
    'deep_packages': dict([('pk/__init__.py', ''), ('pk/good.py', GOOD)] + [('pk/' + '/'.join(f'p{j}' for j in range(i + 1)) + '/__init__.py', f'v{i} = {i}\n') for i in range(12)]),
    'relative_beyond_root': {'pk/__init__.py': 'from .. import x\nfrom ...a import b\n', 'pk/good.py': GOOD},
    'import_cycle_packages': {'pk/__init__.py': 'from pk.a import A\n', 'pk/good.py': GOOD, 'pk/a.py': 'from pk.b import B\nclass A(B): pass\n', 'pk/b.py': 'from pk import A\nfrom pk.a import A as A2\nclass B: pass\nclass C(A): pass\n'},
    'renamed_while_processing': {'a.py': 'from pk.mod import f\n', 'pk/__init__.py': 'from . import mod as module\n__all__ = ["module"]\n',
                                 'pk/mod.py': 'from pk import module\ndef f(): pass\n', 'pk/good.py': GOOD},
    'reexport_chain': {'pk/__init__.py': 'from pk.a import X\n__all__ = ["X"]\n', 'pk/good.py': GOOD, 'pk/a.py': 'from pk.b import X\n', 'pk/b.py': 'class X:\n    def m(self): pass\n'},
}


def _stdlib_texts():
    lib = sysconfig.get_paths()['stdlib']
    for rel in ('json/decoder.py', 'dataclasses.py', 'enum.py', 'functools.py', 'abc.py', 'contextlib.py', 'textwrap.py', 'email/message.py',
                'concurrent/futures/_base.py', 'importlib/metadata/__init__.py', 'typing.py', 'argparse.py', 'ast.py'):
        p = os.path.join(lib, rel)
        if os.path.exists(p):
            yield rel, p


def _mutate(text, rnd):
    lines = text.split('\n')
    for _ in range(rnd.randint(1, 4)):
        k = rnd.random()
        if not lines:
            break
        i = rnd.randrange(len(lines))
        if k < 0.2:
            del lines[i]
        elif k < 0.35:
            lines.insert(i, lines[rnd.randrange(len(lines))])
        elif k < 0.5:
            lines[i] = lines[i][:rnd.randrange(len(lines[i]) + 1)]
        elif k < 0.65:
            j = rnd.randrange(len(lines[i]) + 1)
            lines[i] = lines[i][:j] + rnd.choice(['(', ')', ':', '"', "'", '\\', '@', '=', '*', ' ', '\t', '[', '#', ',', '.', '"""', ' lambda ', ' if ', '\x00', '\x0c']) + lines[i][j:]
        elif k < 0.8:
            toks = re.split(r'(\W+)', lines[i])
            if len(toks) > 2:
                a, b = rnd.randrange(len(toks)), rnd.randrange(len(toks))
                toks[a], toks[b] = toks[b], toks[a]
                lines[i] = ''.join(toks)
        elif k < 0.9:
            lines[i] = ('    ' if rnd.random() < 0.5 else '') + lines[i].lstrip() if rnd.random() < 0.5 else ' ' + lines[i]
        else:
            lines = lines[:i]
    return '\n'.join(lines)


def _cases(tier, seed):
    for i, name in enumerate(SNIPPETS):
        yield {'snippet': name, 'docformat': FORMATS[i % 5]}
    for name in TREES:
        yield {'tree': name, 'docformat': 'epytext'}
    # snippets whose docstrings are epytext-specific, under epytext (the rotation above may have given them another format)
    for name in ('epytext_repeated_headings', 'epytext_numbered_headings', 'field_without_colon'):
        yield {'snippet': name, 'docformat': 'epytext'}
    # docutils messages that carry no line number, under each of the formats that go through docutils
    for fmt in ('restructuredtext', 'google', 'numpy'):
        yield {'snippet': 'rst_lineless_error', 'docformat': fmt}
    # the other themes render the same objects through their own templates
    for theme in ('classic', 'readthedocs'):
        for name in ('inheritance_tables', 'class_bases', 'property_forms', 'overloads', 'zope', 'constants', 'nested_defs'):
            yield {'snippet': name, 'docformat': 'restructuredtext', 'argv': ['--theme', theme]}
        yield {'tree': 'import_cycle_packages', 'docformat': 'epytext', 'argv': ['--theme', theme]}
        yield {'tree': 'kitchen', 'docformat': 'epytext', 'argv': ['--theme', theme, '--process-types', '--sidebar-expand-depth', '3']}
    yield {'tree': 'kitchen', 'docformat': 'restructuredtext'}
    yield {'tree': 'kitchen', 'docformat': 'epytext', 'argv': ['--privacy=HIDDEN:ks.cyc_b', '--privacy=HIDDEN:ks.sub', '--privacy=HIDDEN:solo', '--privacy=HIDDEN:ks.api.Canvas', '--privacy=HIDDEN:ks.api.Sub']}
    yield {'tree': 'kitchen', 'docformat': 'numpy', 'argv': ['--privacy=HIDDEN:ks._impl._Hidden', '--privacy=PRIVATE:ks.api.*']}
    rnd = random.Random(seed)
    names = list(SNIPPETS)
    n = 60 if tier == 'quick' else 1500
    for _ in range(n):
        yield {'snippet': rnd.choice(names), 'mutation': rnd.randrange(10 ** 6), 'docformat': rnd.choice(FORMATS)}
    std = list(_stdlib_texts())
    for k, (rel, p) in enumerate(std):
        if tier == 'quick' and k % 4 != seed % 4:
            continue
        yield {'stdlib': rel, 'docformat': 'restructuredtext' if k % 2 else 'epytext'}
        for _ in range(1 if tier == 'quick' else 12):
            yield {'stdlib': rel, 'mutation': rnd.randrange(10 ** 6), 'docformat': rnd.choice(FORMATS)}


class _Timeout(BaseException):
    pass


def _alarm(signum, frame):
    raise _Timeout()


def _tree(case):
    if case.get('tree') == 'kitchen':
        from replay import kitchen
        return dict(kitchen.KITCHEN, **{'pk/__init__.py': '', 'pk/good.py': GOOD})
    if 'tree' in case:
        return dict(TREES[case['tree']])
    files = {'pk/__init__.py': '"""Package."""\n', 'pk/good.py': GOOD}
    if 'stdlib' in case:
        p = os.path.join(sysconfig.get_paths()['stdlib'], case['stdlib'])
        text = open(p, encoding='utf-8', errors='surrogateescape').read()
    else:
        text = SNIPPETS[case['snippet']]
        files.update(EXTRA_FILES.get(case['snippet'], {}))
    if 'mutation' in case:
        if isinstance(text, bytes):
            text = text.decode('latin-1')
        text = _mutate(text, random.Random(case['mutation']))
    files['pk/t.py'] = text
    return files


def _parses(text):
    import ast
    try:
        if isinstance(text, str):
            text = text.encode('utf-8', errors='surrogateescape')
        ast.parse(text + b'\n', type_comments=True)
        return True
    except (SyntaxError, ValueError):
        return False
    except (RecursionError, MemoryError):
        return None


def run_case(case, keep=False):
    """-> (rc, stdout, dir, files)"""
    import tempfile
    from pydoctor import driver
    files = _tree(case)
    d = tempfile.mkdtemp(prefix='c01.', dir='/var/tmp')
    for rel, text in files.items():
        p = os.path.join(d, 'src', rel)
        os.makedirs(os.path.dirname(p), exist_ok=True)
        with open(p, 'wb') as f:
            f.write(text if isinstance(text, bytes) else text.encode('utf-8', errors='surrogateescape'))
    roots = sorted({rel.split('/')[0] for rel in files})
    out = os.path.join(d, 'out')
    extra = [a.replace('{src}', os.path.join(d, 'src')) for a in case.get('argv', [])]
    argv = ['--html-output', out, '--project-name', 'proj', '--docformat', case['docformat'], *extra]
    if '--add-package' not in extra:
        argv += [os.path.join(d, 'src', r) for r in roots]
    import contextlib, io
    buf = io.StringIO()
    old = signal.signal(signal.SIGALRM, _alarm)
    signal.alarm(120)
    try:
        with contextlib.redirect_stdout(buf), contextlib.redirect_stderr(buf):
            try:
                rc = driver.main(argv)
            except SystemExit as ex:
                rc = ('SystemExit', ex.code)
            except _Timeout:
                rc = ('HANG', '120 s')
            except BaseException as ex:     # noqa
                import traceback
                tb = traceback.extract_tb(ex.__traceback__)
                where = next((f'{t.filename.split("/")[-1]}:{t.name}' for t in reversed(tb) if '/pydoctor/' in t.filename), '?')
                rc = ('EXC', f'{type(ex).__name__}: {str(ex)[:150]}', where, 'surrogates not allowed' in (str(ex) + ''.join(traceback.format_exception(ex))))
    finally:
        signal.alarm(0)
        signal.signal(signal.SIGALRM, old)
    return rc, buf.getvalue(), d, files, out


def _check(case):
    rc, log, d, files, out = run_case(case)
    try:
        fails = []
        if isinstance(rc, tuple):
            if rc[0] == 'EXC':
                return {'observed': f'uncaught {rc[1]} (in {rc[2]})', 'required': 'ends with exit status 0, 2 or 3', 'class': f'exc:{rc[1].split(":")[0]}:{rc[2]}',
                        'exception': rc[1].split(':')[0], 'where': rc[2],
                        # a code point no UTF-8 page can carry, in a docstring (known finding KF-C01-lone-surrogate)
                        'lone_surrogate': bool(rc[3]) and any(isinstance(t, str) and re.search(r'\\u[dD][89a-fA-F][0-9a-fA-F]{2}|[\ud800-\udfff]', t) for t in files.values())}
            return {'observed': f'{rc[0]} {rc[1]}: {log[-200:]}', 'required': 'ends with exit status 0, 2 or 3', 'class': f'{rc[0]}'}
        if rc not in (0, 2, 3):
            return {'observed': f'exit status {rc}', 'required': '0, 2 or 3', 'class': 'status'}
        written = set(os.listdir(out)) if os.path.isdir(out) else set()
        for need in ('index.html', 'objects.inv', 'searchindex.json', 'all-documents.html', 'fullsearchindex.json', 'classIndex.html', 'nameIndex.html',
                     'moduleIndex.html', 'undoccedSummary.html', 'apidocs.css'):
            if need not in written:
                fails.append({'observed': f'{need} was not written', 'required': 'writes the HTML pages, search index and inventory', 'class': 'missing:' + need})
        hidden = ' '.join(case.get('argv', []))
        if 'pk/good.py' in files and 'HIDDEN:pk' not in hidden and '--html-subject' not in hidden and '--prepend-package' not in hidden:
            # (the class may legitimately have been re-exported by the module under test: then its page is named after that module)
            if 'pk.good.html' not in written or not any(w.endswith('.Healthy.html') for w in written):
                fails.append({'observed': 'the healthy sibling module pk.good was not documented', 'required': 'an unparsable file does not prevent the other files from being documented',
                              'class': 'sibling'})
        t = files.get('pk/t.py')
        if t is not None and 'argv' not in case:
            ok = _parses(t)
            if ok is False and 't.py' not in log:
                fails.append({'observed': f'pk/t.py does not parse but no message names it: {log[-300:]!r}', 'required': 'problems are reported as messages that name the offending file',
                              'class': 'unnamed'})
            if ok is True and 'pk.t.html' not in written:
                fails.append({'observed': 'pk/t.py parses but has no page', 'required': 'analyses every module', 'class': 'nopage'})
        return fails or None
    finally:
        site.cleanup(d)


HARNESS = {
    f'{D}:main': {'cases': _cases, 'check': _check,
        'covers': [f'{B}:ASTBuilder.parseFile', f'{B}:ASTBuilder.parseString', f'{B}:parseAll', f'{B}:parseDocformat', f'{M}:System.process',
                   f'{M}:System.processModule', f'{M}:System.getProcessedModule', f'{M}:System.addPackage', f'{M}:System.addModule', f'{D}:get_system', f'{D}:make',
                   'pydoctor/astutils.py:unstring_annotation', 'pydoctor/templatewriter/writer.py:flattenToFile', 'pydoctor/templatewriter/pages/__init__.py:format_signature'],
        'bound': f'{len(SNIPPETS)} module texts (unparsable files, odd metadata variables, every definition form, extensions, deep/long expressions), {len(TREES)} '
                 'whole trees (missing __init__, name clashes, non-identifier file names, import cycles), 60 (1500) random line/token mutations of them, '
                 '13 standard-library modules and mutations of them; docformats rotate; real driver in-process, 120 s per run',
        'budget_s': {'quick': 420, 'thorough': 2400}},
}
