"""C16 native harness (bounded): planted problems at known physical lines; exit statuses of real runs."""
from __future__ import annotations
import ast
import contextlib
import io
import itertools
import os
import random
import re
import shutil
import tempfile

M = 'pydoctor/model.py'
U = 'pydoctor/astutils.py'
E = 'pydoctor/epydoc2stan.py'
D = 'pydoctor/driver.py'

LAYOUTS = [
    '"""{0}\n\n{1}"""',                   # text on the opening line
    '"""\n{0}\n\n{1}"""',                 # text below
    '"""\n\n\n{0}\n\n{1}\n"""',           # leading blank lines
    "r'''\n   {0}\n\n   {1}'''",          # raw string, indented
    '"""   \n \t\n{0}\n\n{1}"""',         # whitespace-only leading lines (longer than the indentation)
]


def _lin_cases(tier, seed):
    for lay in range(len(LAYOUTS)):
        for k in (0, 1, 3, 7):
            for kind in ('module', 'class', 'function', 'method'):
                yield {'layout': lay, 'k': k, 'kind': kind}


def _doc_source(case, first='first line', second='second'):
    doc = LAYOUTS[case['layout']].format(first, second)
    pre = '\n' * case['k']
    kind = case['kind']
    if kind == 'module':
        return pre + doc + '\n', 'mod'
    if kind == 'class':
        return pre + 'class C:\n    ' + doc.replace('\n', '\n    ') + '\n', 'mod.C'
    if kind == 'function':
        return pre + 'def f():\n    ' + doc.replace('\n', '\n    ') + '\n', 'mod.f'
    return pre + 'class C:\n    def m(self):\n        ' + doc.replace('\n', '\n        ') + '\n', 'mod.C.m'


def _line_of(src, needle):
    for i, l in enumerate(src.splitlines(), 1):
        if needle in l:
            return i
    return None


def _check_lin(case):
    from pydoctor import astutils
    src, _ = _doc_source(case)
    tree = ast.parse(src)
    node = tree
    while True:
        body = node.body
        first = body[0]
        if isinstance(first, ast.Expr) and isinstance(first.value, ast.Constant) and isinstance(first.value.value, str):
            s = first.value
            break
        node = first
    got = astutils.extract_docstring_linenum(s)
    want = _line_of(src, 'first line')
    if got != want:
        return {'observed': f'extract_docstring_linenum = {got}', 'required': f'physical line of the first non-blank docstring line: {want}'}
    return None


PROBLEMS = {
    'epytext': [('L{unclosed', 'bad docstring'), ('@unknownfield: x', 'Unknown field'), ('L{no.such.thing}', 'Cannot find link target')],
    'restructuredtext': [('`unclosed', 'bad docstring'), (':unknownfield: x', 'Unknown field'), ('`no.such.thing`', 'Cannot find link target'),
                         (':Parameters: a b c', 'Unable to split consolidated field')],
}


def _rep_cases(tier, seed):
    for fmt in PROBLEMS:
        for p in range(len(PROBLEMS[fmt])):
            if tier == 'quick' and p == 3:
                continue_layouts = (1,)
            else:
                continue_layouts = None
            for lay in (continue_layouts or range(len(LAYOUTS))):
                for kind in ('module', 'class', 'function', 'method'):
                    for k in ((0, 2) if tier == 'quick' else (0, 1, 2, 5)):
                        yield {'fmt': fmt, 'problem': p, 'layout': lay, 'kind': kind, 'k': k}


def _run_project(src, fmt, extra=()):
    """-> (exit status, stdout) of a real pydoctor run over a one-module project"""
    from pydoctor import driver
    d = tempfile.mkdtemp(prefix='c16.', dir='/var/tmp')
    try:
        with open(os.path.join(d, 'mod.py'), 'w') as f:
            f.write(src)
        out = io.StringIO()
        with contextlib.redirect_stdout(out), contextlib.redirect_stderr(io.StringIO()):
            try:
                rc = driver.main(['--html-output', os.path.join(d, 'out'), '--docformat', fmt, '--project-name', 'p',
                                  *extra, os.path.join(d, 'mod.py')])
            except SystemExit as ex:
                rc = ('SystemExit', ex.code)
        return rc, out.getvalue()
    finally:
        shutil.rmtree(d, ignore_errors=True)


def _check_rep(case):
    text, frag = PROBLEMS[case['fmt']][case['problem']]
    src, name = _doc_source(case, first='Summary line.', second=text)
    rc, out = _run_project(src, case['fmt'])
    want = _line_of(src, text)
    lines = [l for l in out.splitlines() if frag in l]
    if not lines:
        return {'observed': f'no message containing {frag!r}; output: {out[-300:]!r}', 'required': 'the problem is reported', 'class': 'missing'}
    m = re.match(r'(.*?):(\d+|\?\?\?): ', lines[0])
    if not m:
        return {'observed': f'unparsable message {lines[0]!r}', 'required': '<path>:<line>: <message>'}
    if not m.group(1).endswith('mod.py'):
        return {'observed': f'message names {m.group(1)!r}', 'required': 'the file that contains the problem', 'class': 'file'}
    got = m.group(2)
    if got != str(want):
        return {'observed': f'reported line {got} for {case}', 'required': f'line {want} (the line holding {text!r})',
                'class': f'line:{case["fmt"]}:{case["problem"]}:{case["layout"]}', 'planted': text}
    if isinstance(rc, int) and rc not in (0, 2, 3):
        return {'observed': f'exit status {rc}', 'required': '0, 2 or 3'}
    return None


def _exit_cases(tier, seed):
    for problem in ('none', 'xref', 'syntax', 'unknownfield'):
        for w in (False, True):
            yield {'problem': problem, 'W': w}


def _check_exit(case):
    docs = {'none': 'Fine.', 'xref': 'See L{no.such.thing}.', 'syntax': 'Bad L{unclosed', 'unknownfield': 'Doc.\n\n    @zork: x'}
    src = f'def f():\n    """{docs[case["problem"]]}\n    """\n'
    rc, out = _run_project(src, 'epytext', extra=(['-W'] if case['W'] else []))
    reported = case['problem'] != 'none'
    unparsable = case['problem'] == 'syntax'
    want = 3 if (reported and case['W']) else (2 if unparsable else 0)
    if rc != want:
        return {'observed': f'exit status {rc}; output tail {out[-200:]!r}', 'required': f'{want}'}
    return None


BLOCKS = [
    # (docformat, docstring body lines, message fragment, text of the line that must be named or None = any docstring line)
    ('restructuredtext', ['Summary line.', '', ':Parameters:', '    nosuch : int', '        The description.', '    a : int', '        ok'],
     'Documented parameter "nosuch" does not exist', 'nosuch : int'),
    ('restructuredtext', ['Summary line.', '', ':Parameters:', '    - `a`: ok', '    - `nosuch`: The', '      description.'],
     'Documented parameter "nosuch" does not exist', '`nosuch`: The'),
    ('restructuredtext', ['Summary line.', '', ':param a: ok', ':param nosuch: The', '    description.'],
     'Documented parameter "nosuch" does not exist', ':param nosuch: The'),
    ('epytext', ['Summary line.', '', '@param a: ok', '@param nosuch: The', '    description.'],
     'Documented parameter "nosuch" does not exist', '@param nosuch: The'),
    ('epytext', ['Summary line.', '', 'A paragraph that goes', 'on and mentions L{no.such.thing} on', 'its third line.'],
     'Cannot find link target', 'A paragraph that goes'),
    ('restructuredtext', ['Summary line.', '', '- item one', '- item two mentions', '  `no.such.thing` here'],
     'Cannot find link target', '- item two mentions'),
    ('google', ['Summary line.', '', 'Args:', '    a: ok', '    nosuch: The description.'], 'Documented parameter "nosuch" does not exist', None),
    ('numpy', ['Summary line.', '', 'Parameters', '----------', 'a : int', '    ok', 'nosuch : int', '    The description.'],
     'Documented parameter "nosuch" does not exist', None),
]


def _block_cases(tier, seed):
    for b in range(len(BLOCKS)):
        for k in (0, 3):
            for kind in ('function', 'method'):
                yield {'block': b, 'k': k, 'kind': kind}


def _check_block(case):
    fmt, lines, frag, marker = BLOCKS[case['block']]
    ind = '    ' if case['kind'] == 'function' else '        '
    body = ('\n' + ind).join(lines)
    head = 'def f(a):\n' if case['kind'] == 'function' else 'class C:\n    def f(self, a):\n'
    src = '\n' * case['k'] + head + ind + '"""' + body + '\n' + ind + '"""\n'
    rc, out = _run_project(src, fmt)
    msgs = [l for l in out.splitlines() if frag in l]
    if not msgs:
        return {'observed': f'no message containing {frag!r}', 'required': 'the problem is reported', 'class': f'block-missing:{case["block"]}'}
    m = re.match(r'(.*?):(\d+|\?\?\?): ', msgs[0])
    got = m.group(2) if m else None
    first = _line_of(src, lines[0])
    last = first + len(lines) - 1
    if marker is not None:
        want = _line_of(src, marker)
        # for cross-references pydoctor may name the exact line of the reference inside the paragraph / list item
        # (deliberate, more precise): any line from the first line of the construct to the line holding the problem
        hold = _line_of(src, 'no.such.thing') if 'link target' in frag else None
        if hold is not None and got is not None and got.isdigit() and want <= int(got) <= hold:
            return None
        if got != str(want):
            return {'observed': f'{fmt}: {frag!r} reported on line {got}', 'required': f'line {want} (first line of the construct: {marker!r})',
                    'class': f'block-line:{case["block"]}'}
    elif got is None or not got.isdigit() or not first <= int(got) <= last + 1:
        return {'observed': f'{fmt}: {frag!r} reported on line {got}', 'required': f'a line of that docstring ({first}..{last})',
                'class': f'block-range:{case["block"]}'}
    return None


def _inh_cases(tier, seed):
    for fmt in ('epytext', 'restructuredtext'):
        for k in ((0, 3) if tier == 'quick' else (0, 1, 3, 7)):
            yield {'fmt': fmt, 'k': k, 'inherited': True}


def _check_inherited(case):
    """problems in an inherited docstring and in the body of an @ivar field are reported in the file, and at the line, that holds the text"""
    from pydoctor import driver
    ep = case['fmt'] == 'epytext'
    link = (lambda n: f'L{{{n}}}') if ep else (lambda n: f'`{n}`')
    ivar = '@ivar field: see ' + link('missing_field') if ep else ':ivar field: see ' + link('missing_field')
    base = ('\n' * case['k'] + 'class Base:\n    """\n    Base class.\n\n    ' + ivar + '\n    """\n'
            '    def run(self):\n        """\n        Run it.\n\n        More: ' + link('missing_inherited') + '\n        """\n')
    sub = 'from pk.base import Base\n\n\n\n\nclass Sub(Base):\n    """Sub."""\n\n\n    def run(self):\n        pass\n'
    d = tempfile.mkdtemp(prefix='c16.', dir='/var/tmp')
    try:
        os.makedirs(os.path.join(d, 'pk'))
        for name, text in (('__init__.py', ''), ('base.py', base), ('sub.py', sub)):
            with open(os.path.join(d, 'pk', name), 'w') as f:
                f.write(text)
        out = io.StringIO()
        with contextlib.redirect_stdout(out), contextlib.redirect_stderr(io.StringIO()):
            try:
                driver.main(['--html-output', os.path.join(d, 'out'), '--docformat', case['fmt'], '--project-name', 'p', os.path.join(d, 'pk')])
            except SystemExit:
                pass
        fails = []
        for needle in ('missing_inherited', 'missing_field'):
            want = next(i for i, l in enumerate(base.splitlines(), 1) if needle in l)
            msgs = [l for l in out.getvalue().splitlines() if needle in l and 'Cannot find link target' in l]
            if not msgs:
                fails.append({'observed': f'no message about {needle}', 'required': 'the problem is reported', 'class': 'inh-missing'})
            for l in msgs:
                m = re.match(r'(.*?):(\d+|\?\?\?): ', l)
                if not m or not m.group(1).endswith('base.py') or m.group(2) != str(want):
                    fails.append({'observed': f'{needle}: reported as {l[:120]!r}', 'required': f'base.py:{want} (the file and line that hold the text)',
                                  'class': 'inh-location:' + needle})
        return fails or None
    finally:
        shutil.rmtree(d, ignore_errors=True)


def _moved_cases(tier, seed):
    for fmt in ('epytext', 'restructuredtext'):
        for k in ((0, 2) if tier == 'quick' else (0, 1, 2, 6)):
            yield {'fmt': fmt, 'k': k, 'reexport_and_types': True}


def _check_moved(case):
    """(1) a problem in the docstring of a re-exported object still names the file that contains the text;
    (2) with --process-types an unresolvable name in a type field is reported at the line of that field"""
    from pydoctor import driver
    ep = case['fmt'] == 'epytext'
    link = (lambda n: f'L{{{n}}}') if ep else (lambda n: f'`{n}`')
    tfield = (lambda name, n: f'@type {name}: {n}') if ep else (lambda name, n: f':type {name}: {n}')
    pfield = (lambda name: f'@param {name}: the value') if ep else (lambda name: f':param {name}: the value')
    impl = ('\n' * case['k'] + 'class Moved:\n    """\n    A class that the package re-exports.\n\n    See ' + link('missing_moved') + '.\n    """\n'
            '    def meth(self, a, b):\n        """\n        Method.\n\n        ' + pfield('a') + '\n        ' + tfield('a', 'missing_type_a') + '\n        ' + pfield('b') + '\n        '
            + tfield('b', 'dict of str to\n            missing_type_b') + '\n        ' + ('@rtype: missing_ret' if ep else ':rtype: missing_ret') + '\n        """\n'
            'def moved_func():\n    """\n    Function.\n\n    More ' + link('missing_func') + '\n    """\n')
    init = 'from ._impl import Moved, moved_func\n__all__ = ["Moved", "moved_func"]\n'
    d = tempfile.mkdtemp(prefix='c16.', dir='/var/tmp')
    try:
        os.makedirs(os.path.join(d, 'pk'))
        for name, text in (('__init__.py', init), ('_impl.py', impl)):
            with open(os.path.join(d, 'pk', name), 'w') as f:
                f.write(text)
        out = io.StringIO()
        with contextlib.redirect_stdout(out), contextlib.redirect_stderr(io.StringIO()):
            try:
                driver.main(['--html-output', os.path.join(d, 'out'), '--docformat', case['fmt'], '--project-name', 'p', '--process-types',
                             os.path.join(d, 'pk')])
            except SystemExit:
                pass
        fails = []
        for needle in ('missing_moved', 'missing_func', 'missing_type_a', 'missing_type_b', 'missing_ret'):
            want = next(i for i, l in enumerate(impl.splitlines(), 1) if needle in l)
            first = want - 1 if needle == 'missing_type_b' else want        # the field starts on the line above the continuation line
            msgs = [l for l in out.getvalue().splitlines() if needle in l and 'Cannot find link target' in l]
            if not msgs:
                fails.append({'observed': f'no message about {needle}', 'required': 'the problem is reported', 'class': 'moved-missing:' + needle})
            for l in msgs:
                m = re.match(r'(.*?):(\d+|\?\?\?): ', l)
                if not m or not m.group(1).endswith('_impl.py') or m.group(2) not in (str(first), str(want)):
                    fails.append({'observed': f'{needle}: reported as {l[:130]!r}', 'required': f'_impl.py:{first}..{want} (the file and line that hold the field / the name)',
                                  'class': 'moved-location:' + needle})
        return fails or None
    finally:
        shutil.rmtree(d, ignore_errors=True)


STATUS_SOURCES = {
    'clean': ('def f(a=1):\n    "doc"\n', 0, 0),
    'bad-signature': ('def f(a="x\\xa0y"):\n    "A default that cannot be rendered (no-break space)."\n', 2, 3),
    'bad-constant': ('from typing import Final\nC: Final = "x\\xa0y"\n"doc"\n', 2, 3),
    'bad-decorator': ('def deco(*a):\n    return lambda f: f\n@deco("x\\xa0y")\ndef f():\n    "doc"\n', 2, 3),
    'bad-class-signature': ('from typing import Generic, TypeVar\nclass Base: pass\nclass K(Base, metaclass=type):\n    "doc"\n', 0, 0),
    'bad-docstring': ('def f():\n    """Unbalanced { brace."""\n', 2, 3),
    'unresolved-link-only': ('def f():\n    """See L{nowhere}."""\n', 0, 3),
}


def _status_cases(tier, seed):
    for name in STATUS_SOURCES:
        yield {'status': name, 'warnings_as_errors': False}
        yield {'status': name, 'warnings_as_errors': True}


def _check_status(case):
    """exit status: 2 without -W exactly when a docstring or a displayed expression could not be parsed / rendered, 3 with -W exactly when
    something was reported, 0 otherwise"""
    from pydoctor import driver
    src, want_plain, want_w = STATUS_SOURCES[case['status']]
    d = tempfile.mkdtemp(prefix='c16.', dir='/var/tmp')
    try:
        os.makedirs(os.path.join(d, 'st'))
        with open(os.path.join(d, 'st', '__init__.py'), 'w', encoding='utf-8') as f:
            f.write(src)
        out = io.StringIO()
        argv = ['--html-output', os.path.join(d, 'out'), '--project-name', 'p', os.path.join(d, 'st')] + (['-W'] if case['warnings_as_errors'] else [])
        with contextlib.redirect_stdout(out), contextlib.redirect_stderr(io.StringIO()):
            try:
                rc = driver.main(argv)
            except SystemExit as ex:
                rc = ex.code
        want = want_w if case['warnings_as_errors'] else want_plain
        if rc != want:
            msgs = [l for l in out.getvalue().splitlines() if re.match(r'.*?:(\d+|\?\?\?): ', l)]
            return {'observed': f'{case["status"]}: exit status {rc} ({"with" if case["warnings_as_errors"] else "without"} -W); messages: {[m_[-60:] for m_ in msgs][:3]}',
                    'required': f'{want}', 'class': 'exit-status:' + case['status']}
        return None
    finally:
        shutil.rmtree(d, ignore_errors=True)


def _special_cases(tier, seed):
    for fmt in ('epytext', 'restructuredtext'):
        for k in ((0, 3) if tier == 'quick' else (0, 1, 3, 7)):
            yield {'fmt': fmt, 'k': k, 'special': True}


def _check_special(case):
    """three rarely taken paths: (1) a property whose docstring consists of fields only; (2) a docstring with a markup problem that another
    module's overriding method inherits; (3) a name that two sibling modules define ('ambiguous ref'), mentioned below the first paragraph"""
    from pydoctor import driver
    ep = case['fmt'] == 'epytext'
    link = (lambda n: f'L{{{n}}}') if ep else (lambda n: f'`{n}`')
    ret = (lambda t: f'@return: {t}') if ep else (lambda t: f':return: {t}')
    unk = '@nosuchfield: value' if ep else ':nosuchfield: value'
    bad = 'Markup problem: closing brace } without opening one.' if ep else 'Markup problem: ``unbalanced literal.'
    pad = '\n' * case['k']
    props = (pad + 'class Holder:\n    """\n    The class.\n\n    More words.\n    """\n    x = 1\n\n    @property\n    def size(self):\n        """\n        '
             + ret('the size, see ' + link('missing_in_property')) + '\n        ' + unk + '\n        """\n        return 1\n')
    base = (pad + 'class Base:\n    "doc"\n    def run(self):\n        """\n        Summary of run.\n\n        ' + bad + '\n\n        See ' + link('missing_in_base') + '.\n        """\n')
    derived = 'from sp.base import Base\n\n\n\nclass Derived(Base):\n    "doc"\n    def run(self):\n        pass\n' + '\n' * 30
    user = (pad + 'def use():\n    """\n    First paragraph,\n    on two lines.\n\n    Second paragraph.\n\n    Third paragraph: this one\n    mentions ' + link('Gadget')
            + ' which two modules define.\n    """\n')
    # characters that str.splitlines() takes for line ends but Python's tokenizer and the line bookkeeping do not
    odd = (pad + 'def ff():\n    """\n    Summary.\n\n    A line separator \u2028 inside, and a next-line \x85 character.\n\n    Then ' + link('missing_after_breaks')
           + ' here.\n\n    ' + unk.replace('nosuchfield', 'otherfield') + '\n    """\n')
    # reStructuredText directives whose body is re-wrapped by pydoctor (versionadded / versionchanged / deprecated) and an admonition
    direc = (pad + 'def changed(a):\n    """\n    Function.\n\n    .. versionchanged:: 1.2\n\n       The argument is now `missing_dir_first`,\n       on two lines.\n\n'
             '       Second paragraph `missing_dir_second`.\n\n    .. note::\n\n       An admonition `missing_dir_note`.\n\n    .. deprecated:: 2.0\n        Use `missing_dir_dep` instead.\n    """\n')
    # a consolidated field written as a definition list (one item per parameter): a problem in a later item is reported at that item
    consol = (pad + 'class KC:\n    "doc"\n    def f(self, alpha, beta):\n        """\n        Summary of f.\n\n        :Parameters:\n            `alpha`\n                the first one,\n'
              '                on two lines\n            `beta` : `missing_classifier_type`\n                the second one\n            `gamma_ghost`\n                not a parameter of f\n'
              '            `delta_ghost`\n                not a parameter either\n\n        :returns: nothing\n        """\n')
    files = {'__init__.py': '', 'props.py': props, 'base.py': base, 'derived.py': derived, 'user.py': user, 'odd.py': odd,
             **({} if ep else {'direc.py': direc, 'consol.py': consol}),
             'one.py': 'class Gadget:\n    "doc"\n', 'two.py': 'class Gadget:\n    "doc"\n'}
    d = tempfile.mkdtemp(prefix='c16.', dir='/var/tmp')
    try:
        os.makedirs(os.path.join(d, 'sp'))
        for name, text in files.items():
            with open(os.path.join(d, 'sp', name), 'w', encoding='utf-8', newline='\n') as f:
                f.write(text)
        out = io.StringIO()
        with contextlib.redirect_stdout(out), contextlib.redirect_stderr(io.StringIO()):
            try:
                driver.main(['--html-output', os.path.join(d, 'out'), '--docformat', case['fmt'], '--project-name', 'p', os.path.join(d, 'sp')])
            except SystemExit:
                pass
        msgs = [l for l in out.getvalue().splitlines() if re.match(r'.*?:(\d+|\?\?\?): ', l)]
        fails = []

        def line_of(text, needle):
            return next(i for i, l in enumerate(text.split('\n'), 1) if needle in l)

        def expect(needle_msg, fname, text, needle_src, what, first_line_of=None):
            # the first line of the paragraph / field, or (docutils, for a paragraph of several lines) a line of it up to the one at fault
            first, last = line_of(text, first_line_of or needle_src), line_of(text, needle_src)
            hits = [l for l in msgs if needle_msg in l]
            if not hits:
                fails.append({'observed': f'{what}: no message mentioning {needle_msg!r}', 'required': 'the problem is reported', 'class': 'special-missing:' + what})
            for l in hits:
                m = re.match(r'(.*?):(\d+|\?\?\?): ', l)
                ok_line = m.group(2).isdigit() and (int(m.group(2)) == first if ep else first <= int(m.group(2)) <= last)
                if not m.group(1).endswith('sp/' + fname) or not ok_line:
                    fails.append({'observed': f'{what}: reported as {l[:140]!r}', 'required': f'sp/{fname}:{first}' + ('' if ep else f'..{last}'), 'class': 'special-location:' + what})
        expect('missing_in_property', 'props.py', props, 'missing_in_property', 'property-fields-only xref')
        expect('nosuchfield', 'props.py', props, 'nosuchfield', 'property-fields-only unknown field')
        if not ep:       # (a fatal epytext error turns the whole docstring into plain text: no cross-references are left to resolve)
            expect('missing_in_base', 'base.py', base, 'missing_in_base', 'inherited xref')
        expect('bad docstring', 'base.py', base, 'Markup problem', 'inherited markup problem')
        expect('Gadget', 'user.py', user, 'Gadget', 'ambiguous ref', first_line_of='Third paragraph')
        if not ep:
            expect('missing_dir_first', 'direc.py', direc, 'missing_dir_first', 'versionchanged first paragraph')
            expect('missing_dir_second', 'direc.py', direc, 'missing_dir_second', 'versionchanged second paragraph')
            expect('missing_dir_note', 'direc.py', direc, 'missing_dir_note', 'note')
            expect('missing_dir_dep', 'direc.py', direc, 'missing_dir_dep', 'deprecated')
            expect('"gamma_ghost"', 'consol.py', consol, '`gamma_ghost`', 'consolidated field, third item')
            expect('missing_classifier_type', 'consol.py', consol, 'missing_classifier_type', 'consolidated field, type of the second item')
            expect('"delta_ghost"', 'consol.py', consol, '`delta_ghost`', 'consolidated field, fourth item')
        if ep:      # (docutils counts these characters as line ends itself)
            expect('missing_after_breaks', 'odd.py', odd, 'missing_after_breaks', 'after line separator characters')
            expect('otherfield', 'odd.py', odd, 'otherfield', 'field after line separator characters')
        # nothing is reported against the module that merely inherits the docstring
        for l in msgs:
            if 'sp/derived.py' in l.split(': ')[0]:
                fails.append({'observed': f'reported against the inheriting module: {l[:140]!r}', 'required': 'the file that contains the docstring at fault', 'class': 'special-inheriting-module'})
        return fails or None
    finally:
        shutil.rmtree(d, ignore_errors=True)


def _ptype_cases(tier, seed):
    for fmt in ('epytext', 'restructuredtext'):
        for kind in ('function', 'method'):
            for k in ((0, 3) if tier == 'quick' else (0, 1, 3, 7)):
                yield {'fmt': fmt, 'kind': kind, 'k': k, 'ptypes': True}


def _check_ptypes(case):
    """--process-types: a type field whose type expression is malformed is reported at the line of that field"""
    ep = case['fmt'] == 'epytext'
    ind = '    ' if case['kind'] == 'function' else '        '
    head = 'def g(x, y):\n' if case['kind'] == 'function' else 'class K:\n    "doc"\n    def g(self, x, y):\n'
    f = (lambda t, a, b: f'@{t} {a}: {b}') if ep else (lambda t, a, b: f':{t} {a}: {b}')
    body = ['"""', 'Summary.', '', 'Second paragraph,', 'on two lines.', '', f('param', 'x', 'the x'), f('type', 'x', 'list of (int'), f('param', 'y', 'the y'),
            f('type', 'y', 'dict[str'), '"""']
    src = '\n' * case['k'] + head + ''.join(ind + l + '\n' if l else '\n' for l in body)
    rc, out = _run_project(src, case['fmt'], extra=('--process-types',))
    fails = []
    for frag, needle in (('unbalanced parenthesis', 'list of (int'), ('unbalanced square braces', 'dict[str')):
        want = _line_of(src, needle)
        hits = [l for l in out.splitlines() if frag in l]
        if not hits:
            fails.append({'observed': f'no message containing {frag!r}; output: {out[-300:]!r}', 'required': 'the problem is reported', 'class': 'ptype-missing'})
            continue
        m = re.match(r'(.*?):(\d+|\?\?\?): ', hits[0])
        if not m or not m.group(1).endswith('mod.py'):
            fails.append({'observed': f'reported as {hits[0][:140]!r}', 'required': 'mod.py:<line>: <message>', 'class': 'ptype-file'})
        elif m.group(2) != str(want):
            # (witness of KF-C16-processtypes-warning-line: exactly one line below the field)
            below = m.group(2) == str(want + 1)
            fails.append({'observed': f'{frag!r} reported at line {m.group(2)} for {case}', 'required': f'line {want} (the field holding {needle!r})',
                          'class': 'ptype-line' + ('+one-below' if below else ''), 'ptype_one_below': bool(below)})
    if isinstance(rc, int) and rc != 2 and not fails:
        # (a type expression that cannot be parsed is a recoverable warning: the docstring itself parsed)
        pass
    return fails or None


HARNESS = {
    'pydoctor/templatewriter/pages/__init__.py:format_signature': {'cases': _status_cases, 'check': _check_status,
        'covers': ['pydoctor/epydoc2stan.py:format_constant_value', 'pydoctor/templatewriter/pages/__init__.py:format_decorators'],
        'bound': '7 one-module projects (clean, unrenderable signature / constant / decorator, bad docstring, unresolved link) x {-W, no -W}: the exit status of a real run'},
    f'{E}:parse_docstring': {'cases': _special_cases, 'check': _check_special,
        'covers': ['pydoctor/astbuilder.py:ModuleVistor._handlePropertyDef', 'pydoctor/linker.py:_EpydocLinker.look_for_name'],
        'bound': 'a property documented by fields only, a docstring with a markup problem inherited across modules, a name two sibling modules define; '
                 '2 formats x 2 (4) vertical offsets, real runs'},
    f'{U}:extract_docstring_linenum': {'cases': _lin_cases, 'check': _check_lin,
        'covers': [f'{U}:extract_docstring', f'{M}:Documentable.setDocstring'],
        'bound': '5 docstring layouts x 4 vertical offsets x 4 object kinds'},
    f'{M}:Documentable.report': {'cases': _rep_cases, 'check': _check_rep,
        'covers': [f'{E}:reportErrors', f'{E}:Field.report', 'pydoctor/epydoc/markup/__init__.py:ParseError.linenum',
                   'pydoctor/epydoc/markup/__init__.py:ParseError.descr', f'{M}:System.msg', 'lemma.shift_by_k'],
        'budget_s': {'quick': 90, 'thorough': 900},
        'bound': '2 formats x 3 planted problems x 5 layouts x 4 kinds x 2 (4) vertical offsets, each a real pydoctor run'},
    'pydoctor/epydoc/markup/restructuredtext.py:_SplitFieldsTranslator': {'cases': _block_cases, 'check': _check_block,
        'bound': '8 multi-line constructs (consolidated fields as definition/bullet lists, :param:/@param fields, paragraphs, list items, google/numpy sections) x 2 offsets x {function, method}'},
    'pydoctor/epydoc/markup/__init__.py:processtypes': {'cases': _ptype_cases, 'check': _check_ptypes,
        'bound': 'two malformed type expressions in @type / :type: fields under --process-types; 2 formats x {function, method} x 2 (4) vertical offsets, real runs'},
    f'{D}:main': {'cases': _exit_cases, 'check': _check_exit, 'bound': '4 problem kinds x {-W, no -W}, real runs'},
    f'{M}:Documentable.description': {'cases': _moved_cases, 'check': _check_moved,
        'bound': 'a re-exported class and function with unresolvable links, and type fields with unresolvable names under --process-types; '
                 '2 formats x 2 (4) vertical offsets, real runs'},
    f'{E}:format_docstring': {'cases': _inh_cases, 'check': _check_inherited,
        'bound': 'an unresolvable link in a docstring inherited by an overriding method of another file, and in the body of an @ivar/:ivar: field; '
                 '2 formats x 2 (4) vertical offsets, real runs'},
}
