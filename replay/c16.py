"""C16 native harness (bounded): planted problems at known physical lines; exit statuses of real runs."""
from __future__ import annotations
import ast
import contextlib
import io
import itertools
import os
import random
import re
import shutil
import tempfile

M = 'pydoctor/model.py'
U = 'pydoctor/astutils.py'
E = 'pydoctor/epydoc2stan.py'
D = 'pydoctor/driver.py'

LAYOUTS = [
    '"""{0}\n\n{1}"""',                   # text on the opening line
    '"""\n{0}\n\n{1}"""',                 # text below
    '"""\n\n\n{0}\n\n{1}\n"""',           # leading blank lines
    "r'''\n   {0}\n\n   {1}'''",          # raw string, indented
    '"""   \n \t\n{0}\n\n{1}"""',         # whitespace-only leading lines (longer than the indentation)
]


def _lin_cases(tier, seed):
    for lay in range(len(LAYOUTS)):
        for k in (0, 1, 3, 7):
            for kind in ('module', 'class', 'function', 'method'):
                yield {'layout': lay, 'k': k, 'kind': kind}


def _doc_source(case, first='first line', second='second'):
    doc = LAYOUTS[case['layout']].format(first, second)
    pre = '\n' * case['k']
    kind = case['kind']
    if kind == 'module':
        return pre + doc + '\n', 'mod'
    if kind == 'class':
        return pre + 'class C:\n    ' + doc.replace('\n', '\n    ') + '\n', 'mod.C'
    if kind == 'function':
        return pre + 'def f():\n    ' + doc.replace('\n', '\n    ') + '\n', 'mod.f'
    return pre + 'class C:\n    def m(self):\n        ' + doc.replace('\n', '\n        ') + '\n', 'mod.C.m'


def _line_of(src, needle):
    for i, l in enumerate(src.splitlines(), 1):
        if needle in l:
            return i
    return None


def _check_lin(case):
    from pydoctor import astutils
    src, _ = _doc_source(case)
    tree = ast.parse(src)
    node = tree
    while True:
        body = node.body
        first = body[0]
        if isinstance(first, ast.Expr) and isinstance(first.value, ast.Constant) and isinstance(first.value.value, str):
            s = first.value
            break
        node = first
    got = astutils.extract_docstring_linenum(s)
    want = _line_of(src, 'first line')
    if got != want:
        return {'observed': f'extract_docstring_linenum = {got}', 'required': f'physical line of the first non-blank docstring line: {want}'}
    return None


PROBLEMS = {
    'epytext': [('L{unclosed', 'bad docstring'), ('@unknownfield: x', 'Unknown field'), ('L{no.such.thing}', 'Cannot find link target')],
    'restructuredtext': [('`unclosed', 'bad docstring'), (':unknownfield: x', 'Unknown field'), ('`no.such.thing`', 'Cannot find link target'),
                         (':Parameters: a b c', 'Unable to split consolidated field')],
}


def _rep_cases(tier, seed):
    for fmt in PROBLEMS:
        for p in range(len(PROBLEMS[fmt])):
            if tier == 'quick' and p == 3:
                continue_layouts = (1,)
            else:
                continue_layouts = None
            for lay in (continue_layouts or range(len(LAYOUTS))):
                for kind in ('module', 'class', 'function', 'method'):
                    for k in ((0, 2) if tier == 'quick' else (0, 1, 2, 5)):
                        yield {'fmt': fmt, 'problem': p, 'layout': lay, 'kind': kind, 'k': k}


def _run_project(src, fmt, extra=()):
    """-> (exit status, stdout) of a real pydoctor run over a one-module project"""
    from pydoctor import driver
    d = tempfile.mkdtemp(prefix='c16.', dir='/var/tmp')
    try:
        with open(os.path.join(d, 'mod.py'), 'w') as f:
            f.write(src)
        out = io.StringIO()
        with contextlib.redirect_stdout(out), contextlib.redirect_stderr(io.StringIO()):
            try:
                rc = driver.main(['--html-output', os.path.join(d, 'out'), '--docformat', fmt, '--project-name', 'p',
                                  *extra, os.path.join(d, 'mod.py')])
            except SystemExit as ex:
                rc = ('SystemExit', ex.code)
        return rc, out.getvalue()
    finally:
        shutil.rmtree(d, ignore_errors=True)


def _check_rep(case):
    text, frag = PROBLEMS[case['fmt']][case['problem']]
    src, name = _doc_source(case, first='Summary line.', second=text)
    rc, out = _run_project(src, case['fmt'])
    want = _line_of(src, text)
    lines = [l for l in out.splitlines() if frag in l]
    if not lines:
        return {'observed': f'no message containing {frag!r}; output: {out[-300:]!r}', 'required': 'the problem is reported', 'class': 'missing'}
    m = re.match(r'(.*?):(\d+|\?\?\?): ', lines[0])
    if not m:
        return {'observed': f'unparsable message {lines[0]!r}', 'required': '<path>:<line>: <message>'}
    if not m.group(1).endswith('mod.py'):
        return {'observed': f'message names {m.group(1)!r}', 'required': 'the file that contains the problem', 'class': 'file'}
    got = m.group(2)
    if got != str(want):
        return {'observed': f'reported line {got} for {case}', 'required': f'line {want} (the line holding {text!r})',
                'class': f'line:{case["fmt"]}:{case["problem"]}:{case["layout"]}', 'planted': text}
    if isinstance(rc, int) and rc not in (0, 2, 3):
        return {'observed': f'exit status {rc}', 'required': '0, 2 or 3'}
    return None


def _exit_cases(tier, seed):
    for problem in ('none', 'xref', 'syntax', 'unknownfield'):
        for w in (False, True):
            yield {'problem': problem, 'W': w}


def _check_exit(case):
    docs = {'none': 'Fine.', 'xref': 'See L{no.such.thing}.', 'syntax': 'Bad L{unclosed', 'unknownfield': 'Doc.\n\n    @zork: x'}
    src = f'def f():\n    """{docs[case["problem"]]}\n    """\n'
    rc, out = _run_project(src, 'epytext', extra=(['-W'] if case['W'] else []))
    reported = case['problem'] != 'none'
    unparsable = case['problem'] == 'syntax'
    want = 3 if (reported and case['W']) else (2 if unparsable else 0)
    if rc != want:
        return {'observed': f'exit status {rc}; output tail {out[-200:]!r}', 'required': f'{want}'}
    return None


HARNESS = {
    f'{U}:extract_docstring_linenum': {'cases': _lin_cases, 'check': _check_lin,
        'covers': [f'{U}:extract_docstring', f'{M}:Documentable.setDocstring'],
        'bound': '5 docstring layouts x 4 vertical offsets x 4 object kinds'},
    f'{M}:Documentable.report': {'cases': _rep_cases, 'check': _check_rep,
        'covers': [f'{E}:reportErrors', f'{E}:Field.report', 'pydoctor/epydoc/markup/__init__.py:ParseError.linenum',
                   'pydoctor/epydoc/markup/__init__.py:ParseError.descr', f'{M}:System.msg', 'lemma.shift_by_k'],
        'budget_s': {'quick': 90, 'thorough': 900},
        'bound': '2 formats x 3 planted problems x 5 layouts x 4 kinds x 2 (4) vertical offsets, each a real pydoctor run'},
    f'{D}:main': {'cases': _exit_cases, 'check': _check_exit, 'bound': '4 problem kinds x {-W, no -W}, real runs'},
}
