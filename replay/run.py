"""python -m replay.run <PID> --tier quick|thorough --seed N --out FILE [--focus fn,...] | --replay FILE"""
from __future__ import annotations
import argparse
import importlib
import json
import sys
import time
import traceback


def main():
    ap = argparse.ArgumentParser()
    ap.add_argument('pid')
    ap.add_argument('--tier', default='quick')
    ap.add_argument('--seed', type=int, default=0)
    ap.add_argument('--out')
    ap.add_argument('--focus', default='')
    ap.add_argument('--replay')
    a = ap.parse_args()
    mod = importlib.import_module(f'replay.{a.pid.lower()}')
    if a.replay:
        data = json.load(open(a.replay))
        fn = data['function']
        case = data['case']
        h = mod.HARNESS[fn]
        fail = h['check'](case)
        if isinstance(fail, list):
            fail = [x for x in fail if all(data.get(k) == x.get(k) for k in ('object',) if k in data)] or None
            fail = fail[0] if fail else None
        if fail is None:
            print(f'replay: contract holds for {fn} on {case!r}')
            return 0
        print(f'replay: {fn} on {case!r}\n  observed: {fail.get("observed")}\n  required: {fail.get("required")}')
        return 1
    t0 = time.time()
    out = {'failures': [], 'functions': {}, 'evaluations': 0, 'distinct': 0, 'bounds': {}, 'error': None}
    focus = [f for f in a.focus.split(',') if f]
    try:
        for fn, h in mod.HARNESS.items():
            n = 0
            fails = []
            seen = set()
            budget = h.get('budget_s', {}).get(a.tier, 20 if a.tier == 'quick' else 120)
            t1 = time.time()
            for case in h['cases'](a.tier, a.seed):
                n += 1
                key = json.dumps(case, sort_keys=True, default=str)
                if key in seen:
                    continue
                seen.add(key)
                try:
                    f = h['check'](case)
                except Exception as ex:     # harness error: not a verdict on pydoctor
                    out['error'] = f'harness error in {fn} on {case!r}: ' + traceback.format_exc()[-800:]
                    break
                if f is not None:
                    for ff in (f if isinstance(f, list) else [f]):
                        fails.append({'function': fn, 'case': case, **ff})
                if time.time() - t1 > budget:
                    break
            out['functions'][fn] = n
            for extra_fn in h.get('covers', []):
                out['functions'][extra_fn] = out['functions'].get(extra_fn, 0) + n
            out['evaluations'] += n
            out['distinct'] += len(seen)
            out['bounds'][fn] = h.get('bound', '')
            # report the smallest failing inputs first, at most 5 per function and per distinct 'observed' class
            fails.sort(key=lambda f: len(json.dumps(f['case'], default=str)))
            kept, classes = [], {}
            for f in fails:
                # (the boolean flags are the witnesses of listed findings: a failure with a finding's flag must never stand in for,
                #  and thereby hide, a failure of the same class without it)
                cls = (f.get('class') or (f.get('observed') or '')[:40], tuple(sorted((k, v) for k, v in f.items() if isinstance(v, bool))))
                if classes.get(cls, 0) >= 1:
                    continue
                classes[cls] = classes.get(cls, 0) + 1
                kept.append(f)
            out['failures'].extend(kept[:40])
    except Exception:
        out['error'] = traceback.format_exc()[-1500:]
    out['wall_s'] = round(time.time() - t0, 2)
    json.dump(out, open(a.out, 'w'), indent=1, default=str)
    return 0


if __name__ == '__main__':
    sys.exit(main())
