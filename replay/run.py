"""python -m replay.run <PID> --tier quick|thorough --seed N --out FILE [--focus fn,...] | --replay FILE"""
from __future__ import annotations
import argparse
import importlib
import json
import os
import sys
import time
import traceback


def main():
    ap = argparse.ArgumentParser()
    ap.add_argument('pid')
    ap.add_argument('--tier', default='quick')
    ap.add_argument('--seed', type=int, default=0)
    ap.add_argument('--out')
    ap.add_argument('--focus', default='')
    ap.add_argument('--replay')
    a = ap.parse_args()
    mod = importlib.import_module(f'replay.{a.pid.lower()}')
    if a.replay:
        data = json.load(open(a.replay))
        fn = data['function']
        case = data['case']
        h = mod.HARNESS[fn]
        fail = h['check'](case)
        if isinstance(fail, list):
            fail = [x for x in fail if all(data.get(k) == x.get(k) for k in ('object',) if k in data)] or None
            fail = fail[0] if fail else None
        if fail is None:
            print(f'replay: contract holds for {fn} on {case!r}')
            return 0
        print(f'replay: {fn} on {case!r}\n  observed: {fail.get("observed")}\n  required: {fail.get("required")}')
        return 1
    t0 = time.time()
    out = {'failures': [], 'functions': {}, 'evaluations': 0, 'distinct': 0, 'bounds': {}, 'error': None}
    focus = [f for f in a.focus.split(',') if f]
    try:
        for fn, h in mod.HARNESS.items():
            # each harness function runs in a child process that the parent watches: code under test that does not come back
            # (a regular expression backtracking for ever holds the interpreter, no alarm gets through) is stopped from outside
            # and reported as what it is - the case that did not terminate
            res = _run_watched(fn, h, a)
            n, fails = res['n'], res['fails']
            if res.get('error'):
                out['error'] = res['error']
            out['functions'][fn] = n
            for extra_fn in h.get('covers', []):
                out['functions'][extra_fn] = out['functions'].get(extra_fn, 0) + n
            out['evaluations'] += n
            out['distinct'] += res['distinct']
            out['bounds'][fn] = h.get('bound', '')
            # report the smallest failing inputs first, at most 5 per function and per distinct 'observed' class
            fails.sort(key=lambda f: len(json.dumps(f['case'], default=str)))
            kept, classes = [], {}
            for f in fails:
                # (the boolean flags are the witnesses of listed findings: a failure with a finding's flag must never stand in for,
                #  and thereby hide, a failure of the same class without it)
                cls = (f.get('class') or (f.get('observed') or '')[:40], tuple(sorted((k, v) for k, v in f.items() if isinstance(v, bool))))
                if classes.get(cls, 0) >= 1:
                    continue
                classes[cls] = classes.get(cls, 0) + 1
                kept.append(f)
            out['failures'].extend(kept[:40])
            if out['error']:
                break
    except Exception:
        out['error'] = traceback.format_exc()[-1500:]
    out['wall_s'] = round(time.time() - t0, 2)
    json.dump(out, open(a.out, 'w'), indent=1, default=str)
    return 0


CASE_LIMIT_S = 240      # no single evaluation may hold the harness longer than this (the checks' own alarms are 60-120 s)


def _child(fn, h, a, resfile, progfile):
    n = 0
    fails = []
    seen = set()
    error = None
    budget = h.get('budget_s', {}).get(a.tier, 20 if a.tier == 'quick' else 120)
    t1 = time.time()
    pfd = os.open(progfile, os.O_WRONLY | os.O_CREAT, 0o600)

    def flush():
        tmp = resfile + '.tmp'
        json.dump({'n': n, 'fails': fails, 'distinct': len(seen), 'error': error}, open(tmp, 'w'), default=str)
        os.replace(tmp, resfile)
    try:
        for case in h['cases'](a.tier, a.seed):
            n += 1
            key = json.dumps(case, sort_keys=True, default=str)
            if key in seen:
                continue
            seen.add(key)
            data = json.dumps({'case': case, 'start': time.time()}, default=str).encode()
            os.pwrite(pfd, data, 0)
            os.ftruncate(pfd, len(data))
            try:
                f = h['check'](case)
            except Exception:     # harness error: not a verdict on pydoctor
                error = f'harness error in {fn} on {case!r}: ' + traceback.format_exc()[-800:]
                break
            if f is not None:
                for ff in (f if isinstance(f, list) else [f]):
                    fails.append({'function': fn, 'case': case, **ff})
                flush()
            if time.time() - t1 > budget:
                break
    except Exception:
        error = traceback.format_exc()[-1500:]
    flush()


def _run_watched(fn, h, a):
    import multiprocessing, tempfile
    d = tempfile.mkdtemp(prefix='run.', dir='/var/tmp')
    resfile, progfile = os.path.join(d, 'res.json'), os.path.join(d, 'prog.json')
    ctx = multiprocessing.get_context('fork')
    p = ctx.Process(target=_child, args=(fn, h, a, resfile, progfile))
    p.start()
    hung = None
    try:
        while True:
            p.join(0.5)
            if p.exitcode is not None:
                break
            try:
                prog = json.load(open(progfile))
            except Exception:     # noqa  (not written yet / being rewritten)
                continue
            if time.time() - prog['start'] > h.get('case_limit_s', CASE_LIMIT_S):
                hung = prog
                p.kill()
                p.join(10)
                break
        res = {'n': 0, 'fails': [], 'distinct': 0, 'error': None}
        if os.path.exists(resfile):
            try:
                res = json.load(open(resfile))
            except Exception:     # noqa
                pass
        if hung is not None:
            res['fails'].append({'function': fn, 'case': hung['case'], 'class': 'hang',
                                 'observed': f'the evaluation did not come back within {h.get("case_limit_s", CASE_LIMIT_S)} s and could not be interrupted (the process was stopped from outside)',
                                 'required': 'always terminates'})
            res['n'] = max(res['n'], 1)
        elif p.exitcode not in (0, None) and not os.path.exists(resfile):
            res['error'] = f'harness process for {fn} ended with status {p.exitcode}'
        return res
    finally:
        import shutil
        shutil.rmtree(d, ignore_errors=True)


if __name__ == '__main__':
    sys.exit(main())
