"""Real-model fixtures for native replay: small projects built from source strings."""
from __future__ import annotations
import io
import contextlib


def build_system(modules, privacy=(), options=None, quiet=True):
    """modules: list of (dotted name, source text, is_package).  Parents must precede children.
    privacy: list of ('HIDDEN'|'PRIVATE'|'PUBLIC', pattern)."""
    from pydoctor import model
    system = model.System()
    system.options.privacy = [(getattr(model.PrivacyClass, p), pat) for p, pat in privacy]
    if options:
        for k, v in options.items():
            setattr(system.options, k, v)
    builder = system.systemBuilder(system)
    for name, text, is_pkg in modules:
        parent, _, short = name.rpartition('.')
        builder.addModuleString(text, short, parent or None, is_package=is_pkg)
    buf = io.StringIO()
    with contextlib.redirect_stdout(buf) if quiet else contextlib.nullcontext():
        builder.buildModules()
    return system


# a small project exercising every documented kind, nesting, privacy and duplicates
PROJECT_A = [
    ('pkg', '"""Package."""\nfrom ._impl import Exported\n__all__ = ["Exported", "top"]\ndef top(a, b=1):\n    "doc"\n', True),
    ('pkg._impl', 'class Exported:\n    "doc"\n    def meth(self): pass\n    attr = 1\n', False),
    ('pkg.mod', '"""Module."""\nimport os\nCONST = 1\nvar = []\n'
                'class Base:\n    def m(self):\n        "doc"\n    def _priv(self): pass\n    class Nested:\n        x = 1\n'
                'class Sub(Base):\n    def m(self): pass\n    @property\n    def p(self): return 1\n    @classmethod\n    def cm(cls): pass\n'
                'def f(): pass\ndef f(): pass\n'
                'def _hidden_fn(): pass\n', False),
    ('pkg._private', 'def g(): pass\n', False),
]

PRIVACY_SETS = [
    [],
    [('HIDDEN', 'pkg.mod.Base')],
    [('HIDDEN', 'pkg.mod._hidden_fn'), ('PRIVATE', 'pkg.mod.Sub.p')],
    [('HIDDEN', 'pkg._private'), ('PUBLIC', 'pkg.mod.Base._priv')],
    [('HIDDEN', 'pkg.mod.Base.Nested'), ('HIDDEN', 'pkg.mod.*.m')],
    [('HIDDEN', 'pkg.mod')],
]
