"""C19 native harness (bounded, exhaustive small scope): instrumented visitors on every small tree."""
from __future__ import annotations
import itertools
import random
import specs.c19 as S

V = 'pydoctor/visitor.py'
WHENS = ['BEFORE', 'AFTER', 'INNER', 'OUTTER']


class Node:
    def __init__(self, name, act, children):
        self.name = name
        self.act = act
        self.children = children

    def __repr__(self):
        return self.name


def _shapes(n):
    """all ordered trees with n nodes, as nested lists"""
    if n == 1:
        yield []
        return
    for parts in _compositions(n - 1):
        for kids in itertools.product(*[list(_shapes(p)) for p in parts]):
            yield list(kids)


def _compositions(n):
    if n == 0:
        yield []
        return
    for first in range(1, n + 1):
        for rest in _compositions(n - first):
            yield [first] + rest


def _build(shape, acts, counter):
    i = counter[0]
    counter[0] += 1
    kids = [_build(s, acts, counter) for s in shape]
    return Node(f'n{i}', acts[i], kids)


def _cases(tier, seed):
    maxn = 3 if tier == 'quick' else 4
    ext_sets = [[], ['BEFORE'], ['AFTER'], ['INNER'], ['OUTTER'], ['BEFORE', 'AFTER', 'INNER', 'OUTTER'],
                ['OUTTER', 'INNER', 'BEFORE', 'BEFORE'], ['AFTER', 'AFTER', 'INNER']]
    if tier != 'quick':
        ext_sets += [list(c) for r in (2, 3) for c in itertools.combinations(WHENS, r)]
    for n in range(1, maxn + 1):
        for shape in _shapes(n):
            for acts in itertools.product(range(5), repeat=n):
                for es in (ext_sets if n <= 3 else ext_sets[:6]):
                    for mode in ('walkabout', 'walk'):
                        yield {'shape': shape, 'acts': list(acts), 'exts': es, 'mode': mode}
                        # handlers may also be spelled in lower case (visit_node / depart_node): the documented dispatch fallback
                        if n <= 2 and es:
                            yield {'shape': shape, 'acts': list(acts), 'exts': es, 'mode': mode, 'lower': True}
    rnd = random.Random(seed)
    for _ in range(150 if tier == 'quick' else 1500):
        n = rnd.randint(4, 7)
        shape = rnd.choice(list(itertools.islice(_shapes(min(n, 6)), 60)))
        yield {'shape': shape, 'acts': [rnd.choice([0, 0, 1, 2, 3, 4]) for _ in range(8)],
               'exts': [rnd.choice(WHENS) for _ in range(rnd.randint(0, 4))], 'mode': rnd.choice(['walkabout', 'walk']), 'lower': rnd.random() < 0.3}


def _check(case):
    from pydoctor import visitor as vis
    trace = []
    exc = {1: 'SkipChildren', 2: 'SkipSiblings', 3: 'SkipNode', 4: 'SkipDeparture'}

    class Main(vis.Visitor):
        @classmethod
        def get_children(cls, ob):
            return list(ob.children)

        def visit_Node(self, ob):
            trace.append((0, None, ob))
            if ob.act:
                raise getattr(self, exc[ob.act])()

        def depart_Node(self, ob):
            trace.append((2, None, ob))
    if case.get('lower'):
        Main.visit_node, Main.depart_node = Main.visit_Node, Main.depart_Node
        del Main.visit_Node, Main.depart_Node

    def mkext(when):
        class E(vis.VisitorExt):
            pass
        E.when = getattr(vis.When, when)

        def visit_Node(self, ob):
            trace.append((1, self, ob))

        def depart_Node(self, ob):
            trace.append((3, self, ob))
        if case.get('lower'):
            E.visit_node = visit_Node
            E.depart_node = depart_Node
        else:
            E.visit_Node = visit_Node
            E.depart_Node = depart_Node
        return E
    exts = vis.ExtList(*[mkext(w) for w in case['exts']])
    v = Main(exts)
    root = _build(case['shape'], case['acts'] + [0] * 10, [0])
    try:
        getattr(v, case['mode'])(root)
    except BaseException as ex:   # noqa
        return {'observed': f'{case["mode"]} raised {type(ex).__name__} at the root', 'required': 'the walk completes',
                'class': 'escape:' + type(ex).__name__}
    want = S.w_spec(v, root) if case['mode'] == 'walkabout' else S.walk_spec(v, root)
    if trace != want:
        k = next((i for i, (a, b) in enumerate(zip(trace, want)) if a != b), min(len(trace), len(want)))
        return {'observed': f'trace differs at event {k}: got {_fmt(trace[k:k + 3])} (len {len(trace)})',
                'required': f'documented walk: {_fmt(want[k:k + 3])} (len {len(want)})', 'class': 'order'}
    if case['mode'] == 'walkabout':
        # balanced: every extension that entered a node left it; enter/leave nest like the tree
        stack = []
        for code, e, n in trace:
            if code == 1:
                stack.append((e, n))
            elif code == 3:
                if (e, n) not in stack:
                    return {'observed': f'{e} departs {n} without having visited it', 'required': 'balanced'}
                stack.remove((e, n))
        if stack:
            return {'observed': f'extensions never departed: {stack[:3]}', 'required': 'every extension that entered a node also leaves it'}
    seen = [n for c, e, n in trace if c == 0]
    if len(seen) != len(set(map(id, seen))):
        return {'observed': 'a node was entered twice', 'required': 'each node is entered at most once'}
    return None


def _fmt(evs):
    names = {0: 'visit', 1: 'ext-visit', 2: 'depart', 3: 'ext-depart'}
    return [(names[c], getattr(getattr(e, 'when', None), 'name', None), n.name) for c, e, n in evs]


HARNESS = {
    f'{V}:Visitor.walkabout': {'cases': _cases, 'check': _check,
        'covers': [f'{V}:Visitor.walk', f'{V}:Visitor.visit', f'{V}:Visitor.depart', f'{V}:ExtList.before_visit',
                   f'{V}:ExtList.after_visit', f'{V}:ExtList.inner_visit', f'{V}:ExtList.outter_visit'],
        'budget_s': {'quick': 60, 'thorough': 600},
        'bound': 'every ordered tree of <= 3 (4) nodes x every assignment of the 5 pruning actions x 8 (18) extension-timing lists x {walkabout, walk}; + random trees up to 7 nodes'},
}


# ---- the real AST builder: scope stack empty again after every module -------------------------------------
A = 'pydoctor/astbuilder.py'
_SNIPPETS = [
    'class C:\n    def m(self): pass\n    class N:\n        x = 1\n',
    'def f():\n    def inner(): pass\n    class L: pass\n',
    'class P:\n    @property\n    def p(self): return 1\n    @p.setter\n    def p(self, v): pass\n',
    'if __name__ == "__main__":\n    class Hidden: pass\n',
    'from typing import overload\n@overload\ndef o(a: int) -> int: ...\n@overload\ndef o(a: str) -> str: ...\ndef o(a): return a\n@overload\ndef o(a: bytes) -> bytes: ...\n',
    'class D:\n    def m(self):\n        class InFunc: pass\n        def g(): pass\n',
    'try:\n    class T: pass\nexcept ImportError:\n    class T: pass\n',
    'class E(Exception):\n    """doc"""\n    a: int = 1\n    def __init__(self): self.b = 2\n',
    'def f(): pass\ndef f(): pass\nclass K: pass\nclass K:\n    def m(self): pass\n',
    'async def co(): pass\nclass A:\n    async def m(self): pass\n    @classmethod\n    @property\n    def cp(cls): return 1\n',
    'x = 1\n"""doc of x"""\nclass V:\n    y: int\n    """doc of y"""\n',
    'def broken(:\n',
    'def outer():\n    async def inner():\n        x = 1\n    return inner\n',
    'class AM:\n    def m(self):\n        async def inner():\n            class Deep: pass\n        with open("f") as f:\n            async def inner2(): pass\n',
    'async def aouter():\n    def inner(): pass\n    async def ainner(): pass\n    if True:\n        async def cond(): pass\n',
    'class W:\n    if True:\n        def a(self): pass\n    else:\n        def b(self): pass\n    for i in range(3):\n        def c(self): pass\n',
]


def _stack_cases(tier, seed):
    for i in range(len(_SNIPPETS)):
        yield {'snippets': [i]}
    rnd = random.Random(seed + 11)
    for _ in range(40 if tier == 'quick' else 400):
        yield {'snippets': [rnd.randrange(len(_SNIPPETS)) for _ in range(rnd.randint(2, 4))]}


def _check_stack(case):
    from pydoctor import astbuilder
    from replay import fixtures
    seen = []
    orig = astbuilder.ASTBuilder.processModuleAST

    def wrapped(self, mod_ast, mod):
        depth = len(self._stack)
        cur = self.current
        cm = self.currentMod
        try:
            return orig(self, mod_ast, mod)
        finally:
            seen.append((mod.fullName(), len(self._stack) - depth, self.current is cur, self.currentMod is cm))
    astbuilder.ASTBuilder.processModuleAST = wrapped
    try:
        src = '\n'.join(_SNIPPETS[i] for i in case['snippets'] if 'broken' not in _SNIPPETS[i])
        # a top-level module, and the same text inside a package next to modules that hold nothing but a docstring / nothing at all
        mods = [('stk', src, False), ('spk', '"""A package whose __init__ is only a docstring."""\n', True), ('spk.stk', src, False),
                ('spk.only', '"""Only a docstring."""\n', False), ('spk.empty', '', False), ('spk.comment', '# nothing\n', False),
                ('spk.sub', '', True), ('spk.sub.leaf', '"""Leaf."""\nx = 1\n', False)]
        if any('broken' in _SNIPPETS[i] for i in case['snippets']):
            mods.append(('stkbad', 'def broken(:\n', False))
        # recording extensions of every timing, registered after the built-in ones: statement nodes only (the builder shows expression
        # values to extensions through generic_visit(), without a departure - by design of NodeVisitor.generic_visit)
        import ast as _ast, contextlib, io
        from pydoctor import model, astutils, visitor as _vis
        events = []

        def mk(when):
            class Rec(astutils.NodeVisitorExt):
                pass
            Rec.when = when

            def unknown_visit(self, ob):
                if isinstance(ob, (_ast.stmt, _ast.Module)):
                    events.append(('enter', self, ob))

            def unknown_departure(self, ob):
                if isinstance(ob, (_ast.stmt, _ast.Module)):
                    events.append(('leave', self, ob))
            Rec.unknown_visit, Rec.unknown_departure = unknown_visit, unknown_departure
            return Rec
        try:
            system = model.System()
            system._astbuilder_visitors.extend(mk(w) for w in (_vis.When.BEFORE, _vis.When.AFTER, _vis.When.INNER, _vis.When.OUTTER))
            builder = system.systemBuilder(system)
            for name, text, is_pkg in mods:
                parent, _, short = name.rpartition('.')
                builder.addModuleString(text, short, parent or None, is_package=is_pkg)
            with contextlib.redirect_stdout(io.StringIO()):
                builder.buildModules()
        except BaseException as ex:  # noqa
            return {'observed': f'build raised {type(ex).__name__}: {ex}', 'required': 'completes'}
    finally:
        astbuilder.ASTBuilder.processModuleAST = orig
    open_ = {}
    for kind, ext, ob in events:
        key = (id(ext), id(ob))
        if kind == 'enter':
            if open_.get(key):
                return {'observed': f'{type(ob).__name__}@{getattr(ob, "lineno", 0)}: entered twice by a {ext.when.name} extension', 'required': 'each node is entered at most once',
                        'class': 'builder-ext-twice'}
            open_[key] = 1
        else:
            if not open_.get(key):
                return {'observed': f'a {ext.when.name} extension leaves {type(ob).__name__}@{getattr(ob, "lineno", 0)} that it never entered', 'required': 'every extension that entered a node also leaves it, and only those',
                        'class': 'builder-ext-unbalanced'}
            open_[key] = 0
    left = [k for k, v in open_.items() if v]
    if left:
        kind, ext, ob = next(e for e in events if (id(e[1]), id(e[2])) == left[0])
        return {'observed': f'a {ext.when.name} extension entered {type(ob).__name__}@{getattr(ob, "lineno", 0)} and never left it', 'required': 'every extension that entered a node also leaves it',
                'class': 'builder-ext-unbalanced'}
    for name, d, same_cur, same_mod in seen:
        if d != 0 or not same_cur or not same_mod:
            return {'observed': f'after {name}: stack depth changed by {d}, current restored={same_cur}, currentMod restored={same_mod}',
                    'required': "after walking any module the builder's scope stack is empty again"}
    return None


HARNESS[f'{A}:ASTBuilder.push'] = {'cases': _stack_cases, 'check': _check_stack,
    'covers': [f'{A}:ASTBuilder.pop', 'lemma.push_pop_inverse'],
    'bound': '16 module snippets (nested classes/functions, properties, overloads, __main__ blocks, duplicates, syntax error) alone and in 40 (400) random combinations'}
