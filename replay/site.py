"""Shared helpers for the output-level harnesses (C11, C12, C18): run the real driver on a generated project and
index the written files (links, anchors, listing entries)."""
from __future__ import annotations
import contextlib
import html.parser
import io
import json
import os
import shutil
import tempfile
import urllib.parse
import zlib

PROJECT_B = {
    'pk/__init__.py': '"""Package pk. Links: L{pk.mod.Base}, L{pk.mod.Base.m}, L{pk.mod._hidden_fn}, L{pk.mod.Hid}, L{pk.mod.Hid.meth}."""\n'
                      'from ._impl import Exported\n__all__ = ["Exported", "top"]\n'
                      'def top(a, b=1):\n    "Doc of top, see L{pk.mod.Sub} and L{pk.mod.Sub.m}."\n',
    'pk/_impl.py': 'class Exported:\n    "doc"\n    def meth(self): "doc"\n    attr = 1\n',
    'pk/mod.py': '"""Module. See L{Base.Nested}, L{Hid} and L{Sub.p}."""\nimport os\nCONST = 1\nvar = []\n'
                 'class Base:\n    "Base doc. L{Hid.meth}"\n    def m(self):\n        "doc m"\n    def _priv(self): pass\n'
                 '    def over(self): "overridden below"\n    class Nested:\n        x = 1\n        def deep(self): pass\n'
                 'class Hid(Base):\n    "to be hidden"\n    def meth(self): "doc"\n    def over(self): "hidden override"\n    def undoc_in_hidden(self): pass\n'
                 'class Sub(Hid):\n    "Sub doc L{Base.m}"\n    def m(self): pass\n    def over(self): pass\n'
                 '    @property\n    def p(self): return 1\n    @classmethod\n    def cm(cls): pass\n'
                 'def f(): pass\ndef f():\n    "second f"\n'
                 'def _hidden_fn(): "doc"\n'
                 'def user(x: Hid, y: "Base.Nested" = CONST) -> Base:\n    "uses L{_hidden_fn}"\n',
    'pk/_private.py': '"""Private module."""\ndef g(): pass\nclass PC:\n    def pm(self): pass\n',
    'pk/sub/__init__.py': '"""Sub package."""\n',
    'pk/sub/leaf.py': 'from pk.mod import Base\nclass Leaf(Base):\n    def over(self): pass\n',
}
PRIVACY_SETS = [
    [],
    ['HIDDEN:pk.mod.Hid'],
    ['HIDDEN:pk.mod._hidden_fn', 'PRIVATE:pk.mod.Sub.p'],
    ['HIDDEN:pk._private', 'PUBLIC:pk.mod.Base._priv'],
    ['HIDDEN:pk.mod.Base.Nested', 'HIDDEN:pk.mod.*.over'],
    ['HIDDEN:pk.mod'],
    ['HIDDEN:pk.sub', 'PRIVATE:pk.mod.Base'],
    ['HIDDEN:pk.mod.Base.m', 'HIDDEN:pk.Exported.meth'],
]


def run_project(files, argv_extra=(), roots=None, env=None, keep=False):
    """-> (status, stdout, outdir, system-less index of the output); the caller removes outdir with cleanup()"""
    from pydoctor import driver
    d = tempfile.mkdtemp(prefix='site.', dir='/var/tmp')
    for rel, text in files.items():
        p = os.path.join(d, 'src', rel)
        os.makedirs(os.path.dirname(p), exist_ok=True)
        with open(p, 'w') as f:
            f.write(text)
    roots = roots or sorted({rel.split('/')[0] for rel in files})
    out = os.path.join(d, 'out')
    buf = io.StringIO()
    argv = ['--html-output', out, '--project-name', 'proj', '--quiet', *argv_extra] + \
           [os.path.join(d, 'src', r) for r in roots]
    old = dict(os.environ)
    os.environ.update(env or {})
    try:
        with contextlib.redirect_stdout(buf), contextlib.redirect_stderr(io.StringIO()):
            try:
                rc = driver.main(argv)
            except SystemExit as ex:
                rc = ('SystemExit', ex.code)
            except BaseException as ex:     # noqa
                rc = ('EXC', f'{type(ex).__name__}: {ex}')
    finally:
        os.environ.clear()
        os.environ.update(old)
    return rc, buf.getvalue(), d


def cleanup(d):
    shutil.rmtree(d, ignore_errors=True)


class _P(html.parser.HTMLParser):
    def __init__(self):
        super().__init__(convert_charrefs=True)
        self.links = []      # (href, text so far is not needed)
        self.anchors = set()
        self.entries = []    # (tag, class, first link href inside) for listing rows / items
        self._stack = []
        self.code_texts = []
        self._in_code = 0
        self._buf = ''

    def handle_data(self, data):
        if self._in_code:
            self._buf += data
        elif data.strip():
            for e in self._stack:
                e['seen_text'] = True
                e.setdefault('first_text', data.strip())

    def handle_starttag(self, tag, attrs):
        a = dict(attrs)
        if tag == 'code':
            self._in_code += 1
            if self._in_code == 1:
                self._buf = ''
        for k in ('id', 'name'):
            if a.get(k) and (tag != 'meta'):
                self.anchors.add(a[k])
        if tag in ('a', 'link') and a.get('href'):
            self.links.append(a['href'])
            for e in self._stack:
                if tag == 'a':
                    e.setdefault('hrefs', []).append(a['href'])
                if e['href'] is None and tag == 'a':
                    e['href'] = a['href']
        if tag in ('tr', 'li', 'div') and a.get('class') is not None:
            e = {'tag': tag, 'class': a.get('class') or '', 'href': None, 'label': None, 'seen_text': False}
            self._stack.append(e)
            self.entries.append(e)
        elif tag in ('tr', 'li', 'div'):
            e = {'tag': tag, 'class': '', 'href': None, 'label': None, 'seen_text': False}
            self._stack.append(e)
            self.entries.append(e)

    def handle_endtag(self, tag):
        if tag == 'code' and self._in_code:
            self._in_code -= 1
            if self._in_code == 0:
                t = self._buf.replace('\u200b', '').strip()
                self.code_texts.append(t)
                for e in self._stack:
                    if 'interfaceinfo' in e.get('class', ''):
                        e.setdefault('codes', []).append(t)
                for e in self._stack[-1:]:
                    if e.get('label') is None and not e.get('seen_text'):
                        e['label'] = t          # the entry's own label: a <code> that opens the row / item
        if tag in ('tr', 'li', 'div') and self._stack:
            for i in range(len(self._stack) - 1, -1, -1):
                if self._stack[i]['tag'] == tag:
                    del self._stack[i:]
                    break


def index_output(out):
    """-> {'files': set, 'pages': {name: {'links': [...], 'anchors': set, 'entries': [...]}}, 'inventory': {name: url}, 'search': [...]}"""
    idx = {'files': set(), 'pages': {}, 'inventory': {}, 'search_names': set(), 'search_privacy': {}}
    for dp, dn, fn in os.walk(out):
        for f in fn:
            rel = os.path.relpath(os.path.join(dp, f), out)
            idx['files'].add(rel)
            if f.endswith('.html'):
                p = _P()
                try:
                    p.feed(open(os.path.join(dp, f), encoding='utf-8').read())
                except Exception:
                    pass
                idx['pages'][rel] = {'links': p.links, 'anchors': p.anchors, 'entries': p.entries, 'code_texts': p.code_texts}
    inv = os.path.join(out, 'objects.inv')
    if os.path.exists(inv):
        data = open(inv, 'rb').read()
        body = data.split(b'\n', 4)[4]
        for line in zlib.decompress(body).decode('utf-8').splitlines():
            parts = line.split(' ')
            idx['inventory'][parts[0]] = parts[3]
    ad = os.path.join(out, 'all-documents.html')
    if os.path.exists(ad):
        import re
        text = open(ad, encoding='utf-8').read()
        # one <li id="<full name>"> per search document (the fullName div itself carries <wbr> break points)
        for m in re.finditer(r'<li id="([^"]+)"', text):
            idx['search_names'].add(html.unescape(m.group(1)))
        for m in re.finditer(r'<li id="([^"]+)"(.*?)</li>', text, re.S):
            pm = re.search(r'<div class="privacy">([^<]*)</div>', m.group(2))
            if pm:
                idx['search_privacy'][html.unescape(m.group(1))] = pm.group(1).strip()
        for m in re.finditer(r'<div class="fullName">(.*?)</div>', text, re.S):
            idx['search_names'].add(html.unescape(re.sub(r'<[^>]+>', '', m.group(1))))
        # the address of each search document is what the search results link to (relative to the output directory)
        if 'all-documents.html' in idx['pages']:
            for m in re.finditer(r'<div class="url">([^<]*)</div>', text):
                idx['pages']['all-documents.html']['links'].append(html.unescape(m.group(1)))
    # the documents of the two lunr indexes (what a search can find): '<field>/<qualified name>' keys of the field vectors
    import json as _json
    idx['symlinks'] = {}
    for base, _dirs, files_ in os.walk(out):
        for f_ in files_:
            pth_ = os.path.join(base, f_)
            if os.path.islink(pth_):
                idx['symlinks'][os.path.relpath(pth_, out)] = os.readlink(pth_)
    idx['lunr_refs'] = {}
    for f in ('searchindex.json', 'fullsearchindex.json'):
        pth = os.path.join(out, f)
        if os.path.exists(pth):
            try:
                j = _json.load(open(pth, encoding='utf-8'))
                idx['lunr_refs'][f] = {x[0].split('/', 1)[1] for x in j.get('fieldVectors', []) if '/' in x[0]}
            except Exception:     # noqa
                idx['lunr_refs'][f] = None
    return idx


def resolve(page, href):
    """-> (file, fragment) for a relative href found on `page`, or None for external / non-file links"""
    u = urllib.parse.urlsplit(href)
    if u.scheme or u.netloc or href.startswith(('mailto:', 'javascript:')):
        return None
    path = urllib.parse.unquote(u.path)
    frag = urllib.parse.unquote(u.fragment)
    base = os.path.dirname(page)
    target = os.path.normpath(os.path.join(base, path)) if path else page
    return target, frag
