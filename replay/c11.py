"""C11 native harness (bounded): every relative link of every written page resolves; visible objects have their page/anchor."""
from __future__ import annotations
from replay import site
from replay.c12 import check_site

W = 'pydoctor/templatewriter/writer.py'
PROJECTS = {
    'B': site.PROJECT_B,
    'dups': {'dup.py': 'def f(): "first"\ndef f(): "second"\nclass K:\n    def meth(self): pass\nclass K:\n    def other(self): pass\n'
                       'class C:\n    def m(self): pass\n    def m(self): pass\n'},
    'summary_names': {'classIndex.py': 'class A: pass\n', 'other.py': 'x = 1\n'},
    'index_root': {'index.py': 'class A: pass\n', 'other.py': 'x = 1\n'},
    # a docstring with a same-class reference, inherited by an overriding method of a subclass (known finding KF-C11-inherited-docstring-context)
    'inherited_links': {'ih/__init__.py': 'class Base:\n    def a(self):\n        """See L{b}.\n\n        More about L{b} and L{Base.b}.\n        """\n'
                                          '    def b(self):\n        "doc b"\nclass Sub(Base):\n    def a(self):\n        pass\n'},
    'two_roots': {'alpha.py': '"""Alpha. See L{beta.B}."""\nclass A: pass\n', 'beta.py': 'class B:\n    def m(self): pass\n'},
}


def _cases(tier, seed):
    for k in range(len(site.PRIVACY_SETS)):
        yield {'privacy': k, 'project': 'B'}
    yield {'privacy': 0, 'project': 'dups'}
    yield {'privacy': 0, 'project': 'two_roots'}
    yield {'privacy': 0, 'project': 'inherited_links'}
    yield {'privacy': 0, 'project': 'summary_names'}
    yield {'privacy': 0, 'project': 'index_root'}
    yield {'privacy': 0, 'project': 'two_roots', 'rules': ['HIDDEN:beta']}
    yield {'privacy': 0, 'project': 'B', 'extra': ['--theme', 'readthedocs', '--sidebar-expand-depth', '4']}


def _check(case):
    import replay.c12 as c12
    files = PROJECTS[case['project']]
    old_b, old_sets = site.PROJECT_B, site.PRIVACY_SETS
    site.PROJECT_B = files
    case = dict(case, project='B')
    try:
        return check_site(case, 'C11')
    finally:
        site.PROJECT_B, site.PRIVACY_SETS = old_b, old_sets


HARNESS = {
    f'{W}:TemplateWriter._writeDocsFor': {'cases': _cases, 'check': _check,
        'covers': ['pydoctor/linker.py:taglink', 'pydoctor/model.py:Documentable.url', 'pydoctor/model.py:Documentable.page_object',
                   'pydoctor/templatewriter/pages/functionchild.py:FunctionChild.shortFunctionAnchor',
                   'pydoctor/templatewriter/pages/functionchild.py:FunctionChild.functionAnchor',
                   'pydoctor/templatewriter/pages/attributechild.py:AttributeChild.shortFunctionAnchor',
                   'pydoctor/templatewriter/pages/attributechild.py:AttributeChild.functionAnchor',
                   'lemma.member_anchor', 'lemma.same_page_link'] + __import__('replay.c12', fromlist=['COVERS']).COVERS,
        'budget_s': {'quick': 150, 'thorough': 900},
        'bound': 'project B x 8 privacy rule lists, a project with duplicate definitions, two roots (one hidden), a theme/sidebar variant; '
                 'every href of every written file resolved against the written files and their id/name anchors'},
}
