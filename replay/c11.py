"""C11 native harness (bounded): every relative link of every written page resolves; visible objects have their page/anchor."""
from __future__ import annotations
from replay import site
from replay.c12 import check_site

W = 'pydoctor/templatewriter/writer.py'
PROJECTS = {
    'B': site.PROJECT_B,
    'dups': {'dup.py': 'def f(): "first"\ndef f(): "second"\nclass K:\n    def meth(self): pass\nclass K:\n    def other(self): pass\n'
                       'class C:\n    def m(self): pass\n    def m(self): pass\n'},
    'summary_names': {'classIndex.py': 'class A: pass\n', 'other.py': 'x = 1\n'},
    'index_root': {'index.py': 'class A: pass\n', 'other.py': 'x = 1\n'},
    # a docstring with a same-class reference, inherited by an overriding method of a subclass (known finding KF-C11-inherited-docstring-context)
    'inherited_links': {'ih/__init__.py': 'class Base:\n    def a(self):\n        """See L{b}.\n\n        More about L{b} and L{Base.b}.\n        """\n'
                                          '    def b(self):\n        "doc b"\nclass Sub(Base):\n    def a(self):\n        pass\n'},
    # docstrings with section titles (sidebar table of contents) on a package, a module and a class
    'toc_sections': {'tc/__init__.py': '"""\nPackage.\n\nUsage\n=====\n\nText.\n\nDetails\n=======\n\nMore.\n"""\nclass InPkg:\n    """Class doc.\n\n    Notes\n    =====\n\n    n\n    """\n    def m(self): pass\n',
                     'tc/sub.py': '"""\nSub module.\n\nOverview\n========\n\nText.\n"""\nclass K:\n    def m(self): "doc"\ndef f(): pass\n'},
    'non_ascii': {'un/__init__.py': '"""Pkg. See L{Ünï} and L{Ünï.méth}."""\nclass Ünï:\n    "doc"\n    def méth(self): "doc"\n    class Ñested: pass\ndef fné(): "doc"\n',
                  'un/módulo.py': 'from un import Ünï\nclass Sub(Ünï): pass\n'},
    'footnotes': {'fn/__init__.py': '__docformat__ = "restructuredtext"\n"""\nText with a footnote [1]_ and another [#named]_.\n\n.. [1] The first.\n.. [#named] The second.\n"""\n'
                                   'def f():\n    """Cites [CIT2002]_.\n\n    .. [CIT2002] A citation.\n    """\n'},
    'reexport_defaults': {'rd/__init__.py': 'from rd._impl import f\n__all__ = ["f"]\n', 'rd/_impl.py': 'def g(): "doc"\nCONST = 1\ndef f(a=g, b=CONST, c: "g" = None):\n    "uses L{g}"\n'},
    # inheritance across an import cycle (the base is only resolved in post-processing); a nested class whose base list and
    # annotations name attributes of the enclosing class
    'cycle_and_nested': {'cy/__init__.py': '"""Package."""\n', 'cy/a.py': 'from cy.b import B\nclass A(B):\n    "doc"\n    def m(self): "doc"\n',
                         'cy/b.py': 'from cy import a\nclass B:\n    "doc"\n    def m(self): "doc"\nclass Derived(a.A):\n    "doc"\nclass Deeper(Derived):\n    def m(self): pass\n',
                         'cy/reg.py': 'from typing import Dict, Union, List\nclass Registry:\n    "doc"\n    Key = Union[str, bytes]\n    "the key type"\n    class Row:\n        "doc"\n'
                                      '    class Table(Dict[Key, int]):\n        "doc"\n        first: Key = None\n        "doc"\n        def get(self, k: Key, rows: List[Row] = ()) -> Row:\n            "doc"\n'
                                      '    def lookup(self, k: Key) -> Table:\n        "doc"\n'},
    'two_roots': {'alpha.py': '"""Alpha. See L{beta.B}."""\nclass A: pass\n', 'beta.py': 'class B:\n    def m(self): pass\n'},
}


def _cases(tier, seed):
    for k in range(len(site.PRIVACY_SETS)):
        yield {'privacy': k, 'project': 'B'}
    yield {'privacy': 0, 'project': 'dups'}
    yield {'privacy': 0, 'project': 'two_roots'}
    yield {'privacy': 0, 'project': 'inherited_links'}
    yield {'privacy': 0, 'project': 'toc_sections'}
    yield {'privacy': 0, 'project': 'toc_sections', 'extra': ['--sidebar-expand-depth', '3', '--sidebar-toc-depth', '3']}
    yield {'privacy': 0, 'project': 'non_ascii'}
    yield {'privacy': 0, 'project': 'footnotes'}
    yield {'privacy': 0, 'project': 'reexport_defaults'}
    yield {'privacy': 0, 'project': 'toc_sections', 'extra': ['--theme', 'readthedocs', '--sidebar-expand-depth', '1']}
    yield {'privacy': 0, 'project': 'cycle_and_nested'}
    for k in ((0, 2, 4) if tier == 'quick' else range(5)):
        yield {'privacy': 0, 'project': 'kitchen', 'options': k}
    yield {'privacy': 0, 'project': 'summary_names'}
    yield {'privacy': 0, 'project': 'index_root'}
    yield {'privacy': 0, 'project': 'two_roots', 'rules': ['HIDDEN:beta']}
    yield {'privacy': 0, 'project': 'B', 'extra': ['--theme', 'readthedocs', '--sidebar-expand-depth', '4']}


def _check(case):
    import replay.c12 as c12
    files = PROJECTS.get(case['project'], site.PROJECT_B)
    old_b, old_sets = site.PROJECT_B, site.PRIVACY_SETS
    site.PROJECT_B = files
    if case['project'] != 'kitchen':
        case = dict(case, project='B')
    try:
        return check_site(case, 'C11')
    finally:
        site.PROJECT_B, site.PRIVACY_SETS = old_b, old_sets


HARNESS = {
    f'{W}:TemplateWriter._writeDocsFor': {'cases': _cases, 'check': _check,
        'covers': ['pydoctor/linker.py:taglink', 'pydoctor/model.py:Documentable.url', 'pydoctor/model.py:Documentable.page_object',
                   'pydoctor/templatewriter/pages/functionchild.py:FunctionChild.shortFunctionAnchor',
                   'pydoctor/templatewriter/pages/functionchild.py:FunctionChild.functionAnchor',
                   'pydoctor/templatewriter/pages/attributechild.py:AttributeChild.shortFunctionAnchor',
                   'pydoctor/templatewriter/pages/attributechild.py:AttributeChild.functionAnchor',
                   'lemma.member_anchor', 'lemma.same_page_link'] + __import__('replay.c12', fromlist=['COVERS']).COVERS,
        'budget_s': {'quick': 150, 'thorough': 900},
        'bound': 'project B x 8 privacy rule lists, a project with duplicate definitions, two roots (one hidden), a theme/sidebar variant; '
                 'every href of every written file resolved against the written files and their id/name anchors'},
}
