"""Native (CPython) evaluation of sidecar contracts on the real functions.

Used for: replay of counter-models, the bounded stand-in, and the engine-vs-CPython cross-check.
Runs under /venv/bin/python (never imports z3)."""
from __future__ import annotations
import copy
import importlib


def implies(a, b):
    return (not a) or b


def spec_env(*modules):
    env = {'implies': implies}
    for m in modules:
        mod = importlib.import_module(m) if isinstance(m, str) else m
        for k, v in vars(mod).items():
            if callable(v) and not k.startswith('_'):
                env[k] = v
    return env


def check_pure(contract, fn, kwargs, env):
    """Evaluate `contract` (pure function: no heap) on fn(**kwargs).
    -> None if the contract holds, else a dict describing the failure."""
    e = dict(env)
    e.update(kwargs)
    for nm, tx in contract.lets.items():
        e[nm] = eval(tx, e)
    for r in contract.requires:
        if not eval(r, e):
            return None      # outside the precondition: nothing to check
    try:
        result = fn(**copy.deepcopy(kwargs))
    except BaseException as ex:     # noqa
        if contract.raises is None:
            return None
        for en, cond in contract.raises.items():
            base = en[4:] if en.startswith('any:') else en
            cls = _exc_class(base)
            if cls is not None and isinstance(ex, cls):
                if eval(cond, e):
                    return None
                return {'observed': f'raised {type(ex).__name__}: {ex}', 'required': f'{en} only when: {cond}'}
        return {'observed': f'raised {type(ex).__name__}: {ex}',
                'required': f'only {sorted(contract.raises)} may escape'}
    e['result'] = result
    for k, en in enumerate(contract.ensures):
        try:
            ok = eval(en, e)
        except BaseException as ex:  # noqa
            return {'observed': f'returned {result!r}; clause raised {type(ex).__name__}: {ex}', 'required': en, 'clause': k}
        if not ok:
            return {'observed': f'returned {result!r}', 'required': en, 'clause': k}
    return None


def _exc_class(name):
    import builtins
    if hasattr(builtins, name):
        return getattr(builtins, name)
    if name == 'zlib.error':
        import zlib
        return zlib.error
    return None


def load_contracts(pid):
    from pyvc.contracts import Registry
    reg = Registry()
    reg.pid = pid
    mod = importlib.import_module(f'contracts.{pid.lower()}')
    mod.register(reg)
    return reg
