"""Native (CPython) evaluation of sidecar contracts on the real functions.

Used for: replay of counter-models, the bounded stand-in, and the engine-vs-CPython cross-check.
Runs under /venv/bin/python (never imports z3)."""
from __future__ import annotations
import copy
import importlib


def re_match(pat, s):
    import re
    return re.fullmatch(pat, s) is not None


UNIVERSE = {}
_CODE = {}
_builtin_eval = eval


def eval(text, env):          # noqa: A001  (compiled once per clause; invalid-escape warnings silenced)
    c = _CODE.get(text)
    if c is None:
        import warnings
        with warnings.catch_warnings():
            warnings.simplefilter('ignore')
            c = _CODE[text] = compile(text, '<clause>', 'eval')
    return _builtin_eval(c, env)


def forall(ty, f):
    """native reading of an unbounded quantifier: over the finite universe the harness provides (bounded)"""
    return all(f(x) for x in UNIVERSE.get(ty, []))


def re_pmatch(pat, flags, s):
    import re
    return re.compile(pat, flags).match(s) is not None


def none_of(ty):
    return None


def implies(a, b):
    return (not a) or b


def spec_env(*modules):
    env = {'implies': implies, 're_match': re_match, 'forall': forall, 'none_of': none_of, 're_pmatch': re_pmatch}
    for m in modules:
        mod = importlib.import_module(m) if isinstance(m, str) else m
        for k, v in vars(mod).items():
            if callable(v) and not k.startswith('_'):
                env[k] = v
    return env


def check_pure(contract, fn, kwargs, env):
    """Evaluate `contract` (pure function: no heap) on fn(**kwargs).
    -> None if the contract holds, else a dict describing the failure."""
    e = dict(env)
    e.update(kwargs)
    for nm, tx in contract.lets.items():
        e[nm] = eval(tx, e)
    for r in contract.requires:
        if not eval(r, e):
            return None      # outside the precondition: nothing to check
    try:
        result = fn(**copy.deepcopy(kwargs))
    except BaseException as ex:     # noqa
        if contract.raises is None:
            return None
        for en, cond in contract.raises.items():
            base = en[4:] if en.startswith('any:') else en
            cls = _exc_class(base)
            if cls is not None and isinstance(ex, cls):
                if eval(cond, e):
                    return None
                return {'observed': f'raised {type(ex).__name__}: {ex}', 'required': f'{en} only when: {cond}'}
        return {'observed': f'raised {type(ex).__name__}: {ex}',
                'required': f'only {sorted(contract.raises)} may escape'}
    e['result'] = result
    for k, en in enumerate(contract.ensures):
        try:
            ok = eval(en, e)
        except BaseException as ex:  # noqa
            return {'observed': f'returned {result!r}; clause raised {type(ex).__name__}: {ex}', 'required': en, 'clause': k}
        if not ok:
            return {'observed': f'returned {result!r}', 'required': en, 'clause': k}
    return None


_OLD = __import__('re').compile(r'\bold\((\w+)\)')


def _holds_raise(contract, ex, e):
    if contract.raises is None:
        return None
    for en, cond in contract.raises.items():
        base = en[4:] if en.startswith('any:') else en
        cls = _exc_class(base)
        if cls is not None and isinstance(ex, cls):
            if eval(_OLD.sub(r'__old_\1', cond), e):
                return None
            return {'observed': f'raised {type(ex).__name__}: {ex}', 'required': f'{en} only when: {cond}'}
    return {'observed': f'raised {type(ex).__name__}: {ex}', 'required': f'only {sorted(contract.raises)} may escape'}


def check_method(contract, obj, method, kwargs, env, ghosts=None):
    """Evaluate a method contract on a real object.  `ghosts` maps ghost names to getters of their current value;
    old(g) in a clause refers to the value before the call.  Heap-valued clauses see the real object as `self`."""
    ghosts = ghosts or {}
    e = dict(env)
    e.update(kwargs)
    e['self'] = obj
    for g, get in ghosts.items():
        e[g] = get()
        e['__old_' + g] = e[g]
    for nm, tx in contract.lets.items():
        e[nm] = eval(tx, e)
    for r in contract.requires:
        if not eval(r, e):
            return None
    try:
        result = getattr(obj, method)(**kwargs)
    except BaseException as ex:     # noqa
        for g, get in ghosts.items():
            e[g] = get()
        return _holds_raise(contract, ex, e)
    for g, get in ghosts.items():
        e[g] = get()
    e['result'] = result
    for k, en in enumerate(contract.ensures):
        try:
            ok = eval(_OLD.sub(r'__old_\1', en), e)
        except BaseException as ex:  # noqa
            return {'observed': f'returned {result!r:.200}; clause raised {type(ex).__name__}: {ex}', 'required': en, 'clause': k}
        if not ok:
            return {'observed': f'returned {result!r:.300}', 'required': en, 'clause': k}
    return None


def validate_axioms(reg, env, alphabet, maxlen):
    """bounded validation of the assumed string-library facts against CPython (an assumption check, not a proof)"""
    import itertools
    strings = ['']
    for n in range(1, maxlen + 1):
        strings += [''.join(c) for c in itertools.product(alphabet, repeat=n)]
    for name, text, vars_, source, quantified in reg.axioms:
        names = list(vars_)
        doms = []
        for v in names:
            t = vars_[v]
            if t == 'Str':
                doms.append(strings if len(names) <= 1 else strings[:260])
            elif t == 'Bytes':
                doms.append([b'', b'a', b'ab', b'\n'])
            elif t == 'Seq[Bytes]':
                doms.append([[], [b''], [b'a'], [b'a', b'b'], [b'', b'x', b'']])
            elif t == 'Seq[Str]':
                doms.append([[], [''], ['a'], ['a', 'b'], ['', ' ', 'a b']])
            elif t == 'Int':
                doms.append(list(range(-2, 5)))
            else:
                return {'observed': f'axiom {name}: no native domain for type {t}', 'required': 'validated axiom'}
        for combo in itertools.product(*doms):
            e = dict(env)
            e.update(zip(names, combo))
            try:
                ok = eval(text, e)
            except Exception as ex:
                ok = False
            if not ok:
                return {'observed': f'axiom {name} is false for {dict(zip(names, combo))!r}', 'required': text}
    return None


def _exc_class(name):
    import builtins
    if hasattr(builtins, name):
        return getattr(builtins, name)
    if name == 'zlib.error':
        import zlib
        return zlib.error
    return None


def load_contracts(pid):
    from pyvc.contracts import Registry
    reg = Registry()
    reg.pid = pid
    mod = importlib.import_module(f'contracts.{pid.lower()}')
    mod.register(reg)
    return reg
