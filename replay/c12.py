"""C11/C12 native harness (bounded): real runs over a generated project under privacy rule lists; the written files are
scanned for dangling links (C11) and for traces of hidden objects / unmarked private ones (C12)."""
from __future__ import annotations
import os
import re
import urllib.parse
from replay import site

W = 'pydoctor/templatewriter/writer.py'
L = 'pydoctor/linker.py'



def _vis(o):
    """visible by the property's own definition - no rule hides the object or any of its containers - computed here by walking
    the ancestors (independent of Documentable.isVisible, which is code under test)"""
    from pydoctor import model
    a = o
    while a is not None:
        if a.privacyClass is model.PrivacyClass.HIDDEN:
            return False
        a = a.parent
    return True


def _priv(o):
    """private by itself or through a private container (walked here, independent of Documentable.isPrivate)"""
    a = o
    while a is not None:
        if a.privacyClass is model_privacy_private():
            return True
        a = a.parent
    return False


def _cases(tier, seed):
    for k in range(len(site.PRIVACY_SETS)):
        yield {'privacy': k, 'project': 'B'}
    yield {'privacy': 0, 'project': 'two_roots', 'rules': ['HIDDEN:beta']}
    yield {'privacy': 0, 'project': 'two_roots', 'rules': ['HIDDEN:alpha.A', 'PRIVATE:beta']}
    for k in ((1, 3, 4) if tier == 'quick' else range(5)):
        yield {'privacy': 0, 'project': 'kitchen', 'options': k}
    yield {'privacy': 0, 'project': 'two_roots', 'rules': ['PRIVATE:gamma._inner.helper', 'PRIVATE:beta.B.m', 'PUBLIC:gamma._inner']}
    yield {'privacy': 0, 'project': 'two_roots', 'rules': ['HIDDEN:gamma.widgets.Sealed', 'PRIVATE:gamma.widgets.P*', 'HIDDEN:gamma._inner', 'HIDDEN:gamma.widgets.HidSub']}
    # all roots but one are hidden
    yield {'privacy': 0, 'project': 'two_roots', 'rules': ['HIDDEN:beta', 'HIDDEN:gamma']}
    # a package with more than 50 modules (the module index switches to its compact form), some made private / public by rules
    yield {'privacy': 0, 'project': 'many', 'rules': ['PRIVATE:mm.m0*', 'PUBLIC:mm._p1', 'HIDDEN:mm.m51']}
    yield {'privacy': 0, 'project': 'B', 'extra': ['--sidebar-expand-depth', '3']}
    # only some objects are written (--html-subject), one of them sits inside a hidden module
    yield {'privacy': 0, 'project': 'B', 'rules': ['HIDDEN:pk._private', 'HIDDEN:pk.mod.Hid'],
           'extra': ['--html-subject', 'pk._private.PC', '--html-subject', 'pk.mod.Base', '--html-subject', 'pk.mod.Hid.meth', '--make-intersphinx', '--make-html']}
    yield {'privacy': 1, 'project': 'B', 'extra': ['--theme', 'readthedocs']}
    yield {'privacy': 4, 'project': 'B', 'extra': ['--theme', 'base', '--sidebar-toc-depth', '1']}


def _model(files, privacy):
    """the object model of the same project (for visibility facts), built in-process"""
    from replay import fixtures
    mods = []
    for rel in sorted(files, key=lambda r: (r.count('/'), not r.endswith('__init__.py'), r)):
        name = rel[:-3].replace('/', '.')
        if name.endswith('.__init__'):
            mods.append((name[:-9], files[rel], True))
        else:
            mods.append((name, files[rel], False))
    mods.sort(key=lambda m: (m[0].count('.'), m[0]))
    rules = [tuple(r.split(':')) for r in privacy]
    return fixtures.build_system(mods, rules)


TWO_ROOTS = {'alpha.py': '"""Alpha. See L{beta.B}."""\nclass A: pass\n', 'beta.py': 'class B:\n    def m(self): pass\n',
             # a package with an entry-point module (private by Module.privacyClass whatever the rules say) and a private sub-module
             'gamma/__init__.py': '"""Gamma."""\n', 'gamma/__main__.py': '"""Entry point."""\ndef main(): "doc"\n',
             'gamma/_inner.py': 'def helper(): "doc"\nclass _P:\n    def pub(self): "doc"\n',
             # namesakes (helper, m, main) spread over modules, so that rules can make some of them private
             'gamma/tools.py': 'def helper(): "doc"\ndef m(): "doc"\ndef main(): "doc"\n',
             # a base from an external library, a private class in between, public classes below it
             'gamma/widgets.py': 'import extlib\nclass _Hook(extlib.Widget):\n    "doc"\nclass Button(_Hook):\n    "doc"\nclass Panel(extlib.Widget):\n    "doc"\nclass _Only(extlib.Other):\n    "doc"\n'
                                 'class _Lone:\n    "private, its only subclass is hidden in some cases"\nclass HidSub(_Lone):\n    "doc"\n'
                                 'class Sealed:\n    "hidden by a rule in some cases"\n    def inner(self): "doc inner words"\n    class Deep:\n        def deepest(self): "doc"\n'}


def check_site(case, which):
    if case.get('project') == 'kitchen':
        from replay import kitchen
        files = kitchen.KITCHEN
        case = dict(case, **kitchen.OPTION_SETS[case['options']])
    elif case.get('project') == 'many':
        files = {'mm/__init__.py': '"""Many modules."""\n', 'mm/_p1.py': 'def f(): "doc"\n', 'mm/_p2.py': 'x = 1\n', 'mm/__version__.py': 'v = "1"\n',
                 }
        files.update({f'mm/m{i:02d}.py': f'"""Module {i}."""\nclass C{i}:\n    "doc"\n' for i in range(52)})
    else:
        files = TWO_ROOTS if case.get('project') == 'two_roots' else site.PROJECT_B
    privacy = case['rules'] if 'rules' in case else site.PRIVACY_SETS[case['privacy']]
    argv = [f'--privacy={r}' for r in privacy] + list(case.get('extra', []))
    rc, out, d = site.run_project(files, argv)
    try:
        if rc not in (0, 2, 3):
            return {'observed': f'run ended with {rc}; {out[-300:]}', 'required': 'a documented exit status', 'class': 'abort'}
        idx = site.index_output(d + '/out')
        system = _model(files, privacy)
        fails = []
        objs = {o.fullName(): o for o in system.allobjects.values()}
        clash_roots = {r.name + '.html' for r in system.rootobjects
                       if r.name in ('classIndex', 'nameIndex', 'moduleIndex', 'undoccedSummary', 'all-documents')
                       or (r.name == 'index' and len(system.rootobjects) > 1)}
        # reachable through contents from the roots (superseded duplicates are not)
        reach = set()

        def walk(o):
            reach.add(o.fullName())
            for c in o.contents.values():
                walk(c)
        for r in system.rootobjects:
            walk(r)
        if which in ('C11', 'both') and '--html-subject' not in argv:
            # every visible member is listed on the page of its (visible) parent: a row of one of its member tables leads to it
            for n, o in objs.items():
                p_ = o.parent
                if p_ is None or not _vis(o) or _is_displaced(n) or o.kind is None:
                    continue
                ppage = urllib.parse.unquote(p_.url).partition('#')[0]
                info_ = idx['pages'].get(ppage)
                if info_ is None or '#' in urllib.parse.unquote(p_.url):
                    continue
                want_ = urllib.parse.unquote(o.url)
                rows = [e for e in info_['entries'] if e['tag'] == 'tr' and e.get('hrefs')]
                hit = False
                for e in rows:
                    for h in e['hrefs']:
                        r = site.resolve(ppage, h)
                        if r is not None and r[0] + ('#' + r[1] if r[1] else '') == want_:
                            hit = True
                            break
                    if hit:
                        break
                if not hit:
                    fails.append({'observed': f'{ppage}: no member table lists {n} ({want_})', 'required': 'documented under its parent (a row of the member tables)',
                                  'class': 'unlisted-member:' + ppage})
        if which in ('C11', 'both'):
            # '<root>.html' is a link to index.html exactly when the project has a single root (that is where its page is written)
            one_root = len(system.rootobjects) == 1
            for name_, target_ in idx.get('symlinks', {}).items():
                if not one_root or name_ != system.rootobjects[0].name + '.html' or target_ != 'index.html':
                    fails.append({'observed': f'{name_} is a link to {target_} in a project with the roots {[r.name for r in system.rootobjects]}', 'required': 'two different pages never share a file',
                                  'class': 'unexpected-symlink'})
        if which in ('C11', 'both'):
            for page, info in idx['pages'].items():
                for href in info['links']:
                    r = site.resolve(page, href)
                    if r is None:
                        continue
                    target, frag = r
                    if target not in idx['files']:
                        fails.append({'observed': f'{page}: link {href!r} -> file {target!r} was not written', 'required': 'every internal link leads to a written file',
                                      'class': 'dead-file:' + target + '@' + page, 'href': href, 'page': page, 'target_name': urllib.parse.unquote(target)[:-5],
                                      'displaced_duplicate': _is_displaced(urllib.parse.unquote(target)[:-5])})
                    elif frag and target in idx['pages'] and frag not in idx['pages'][target]['anchors']:
                        fails.append({'observed': f'{page}: link {href!r} -> no anchor {frag!r} in {target}', 'required': 'the anchor exists',
                                      'class': 'dead-anchor:' + target + '#' + frag + '@' + page, 'href': href, 'page': page, 'target_name': urllib.parse.unquote(target)[:-5] + '.' + frag,
                                      'displaced_duplicate': _is_displaced(urllib.parse.unquote(target)[:-5] + '.' + frag),
                                      'summary_clash': target if target in clash_roots else None,
                                      # the back-link from a section title to its entry in a sidebar table of contents, with sidebars expanded
                                      'toc_backlink': bool(re.fullmatch(r'rst-toc-entry-\d+', frag)) and target == page and '--sidebar-expand-depth' in argv})
            from pydoctor import model
            summary_pages = {'classIndex.html', 'nameIndex.html', 'moduleIndex.html', 'undoccedSummary.html', 'all-documents.html'}
            if len(system.rootobjects) != 1:
                summary_pages.add('index.html')
            owners = {}
            for name, o in objs.items():
                if _vis(o) and name in reach and o.documentation_location is model.DocLocation.OWN_PAGE:
                    if o.url in owners:
                        fails.append({'observed': f'{name} and {owners[o.url]} share the file {o.url}', 'required': 'two different pages never share a file name',
                                      'class': 'shared-page:' + o.url})
                    owners[o.url] = name
                    if o.url in summary_pages:
                        fails.append({'observed': f'the page of {name} is {o.url}, which is also a summary page', 'required': 'two different pages never share a file name',
                                      'class': 'summary-clash:' + o.url, 'summary_clash': o.url})
            for name, o in objs.items():
                if not _vis(o) or name not in reach:
                    continue
                url = o.url
                page, _, frag = url.partition('#')
                page = urllib.parse.unquote(page)
                if page not in idx['files']:
                    fails.append({'observed': f'visible {name} has no page {page}', 'required': 'its own page / parent page exists', 'class': 'no-page'})
                elif frag and urllib.parse.unquote(frag) not in idx['pages'][page]['anchors']:
                    fails.append({'observed': f'visible {name}: no anchor {frag!r} on {page}', 'required': 'an anchor on the parent page', 'class': 'no-anchor'})
        if which in ('C12', 'both'):
            hidden = {n for n, o in objs.items() if not _vis(o)}
            hidden_urls = {}
            for n in hidden:
                o = objs[n]
                hidden_urls[urllib.parse.unquote(o.url)] = n
            for n in hidden:
                o = objs[n]
                u = urllib.parse.unquote(o.url)
                page, _, frag = u.partition('#')
                if not frag and page in idx['files'] and not any(_vis(objs[m]) and urllib.parse.unquote(objs[m].url) == page for m in objs):
                    fails.append({'observed': f'hidden {n} has a page {page}', 'required': 'no page', 'class': 'hidden-page:' + n, 'hidden': n})
                if n in idx['inventory']:
                    fails.append({'observed': f'hidden {n} has an inventory entry', 'required': 'none', 'class': 'hidden-inv', 'hidden': n})
                if n in idx['search_names']:
                    fails.append({'observed': f'hidden {n} has a search document', 'required': 'none', 'class': 'hidden-search', 'hidden': n})
                for f, refs in idx.get('lunr_refs', {}).items():
                    if refs is not None and n in refs:
                        fails.append({'observed': f'hidden {n} is a document of the search index {f}', 'required': 'no search entry', 'class': 'hidden-lunr:' + f, 'hidden': n})
            visible_names = {o.name for o in objs.values() if _vis(o)} | {n for n, o in objs.items() if _vis(o)}
            # (classIndex.html shows a hidden *base* of a visible class as a plain name node, exactly like a base from an
            #  external library: source text about the visible subclass, see DESIGN.md C12 - not an entry for the hidden class)
            for page in ('moduleIndex.html', 'index.html', 'nameIndex.html'):
                for t in [e.get('label') for e in idx['pages'].get(page, {}).get('entries', []) if e.get('label')]:
                    for n in hidden:
                        if t in (n, objs[n].name) and t not in visible_names:
                            fails.append({'observed': f'{page}: an entry for hidden {n} ({t!r}) is listed', 'required': 'no row in any index',
                                          'class': f'hidden-entry:{n}@{page}', 'hidden': n})
            # the summary of undocumented objects lists each object by its full name
            for t in idx['pages'].get('undoccedSummary.html', {}).get('code_texts', []):
                if t in hidden:
                    fails.append({'observed': f'undoccedSummary.html: hidden {t} is listed', 'required': 'no row in any index',
                                  'class': f'hidden-entry:{t}@undoccedSummary.html', 'hidden': t})
            # the index of names: an entry (one name, possibly several objects) is marked private exactly when every object of
            # that name is private - a public object is never folded away with a private namesake
            for e in idx['pages'].get('nameIndex.html', {}).get('entries', []):
                if e['tag'] != 'li' or not e.get('hrefs'):
                    continue
                targets = []
                for h in e['hrefs']:
                    r = site.resolve('nameIndex.html', h)
                    if r is None:
                        continue
                    full = r[0] + ('#' + r[1] if r[1] else '')
                    targets += [o for n, o in objs.items() if _vis(o) and urllib.parse.unquote(o.url) == full]
                if not targets:
                    continue
                marked = 'private' in e['class'].split()
                allpriv = all(_priv(o) for o in targets)
                if marked != allpriv:
                    fails.append({'observed': f'nameIndex.html: the entry listing {[o.fullName() for o in targets]} (private: {[_priv(o) for o in targets]}) '
                                              f'has class {e["class"]!r}', 'required': 'marked private exactly when all its objects are private',
                                  'class': 'nameindex-marking'})
            # the class hierarchy: whatever sits inside a node marked private is folded away with it, so no class that is not private
            # may be listed inside one
            for e in idx['pages'].get('classIndex.html', {}).get('entries', []):
                if e['tag'] != 'li' or 'private' not in e['class'].split():
                    continue
                for h in e.get('hrefs', []):
                    r = site.resolve('classIndex.html', h)
                    if r is None:
                        continue
                    full = r[0] + ('#' + r[1] if r[1] else '')
                    for n, o in objs.items():
                        if _vis(o) and urllib.parse.unquote(o.url) == full and not _priv(o):
                            fails.append({'observed': f'classIndex.html: public {n} is listed inside a node marked private ({e.get("first_text") or e.get("label")!r})',
                                          'required': 'only private objects carry (or sit under) the private marker', 'class': 'classindex-folded'})
            # the class hierarchy and the module index: the node of a private class / module whose displayed descendants are all private
            # carries the marker; the node of a module carries it exactly when the module is private
            by_url = {}
            for n, o in objs.items():
                if _vis(o):
                    by_url.setdefault(urllib.parse.unquote(o.url), o)

            def _objs_of(page_, hrefs_):
                out_ = []
                for h_ in hrefs_:
                    r_ = site.resolve(page_, h_)
                    if r_ is not None and r_[0] + ('#' + r_[1] if r_[1] else '') in by_url:
                        out_.append(by_url[r_[0] + ('#' + r_[1] if r_[1] else '')])
                return out_
            for e in idx['pages'].get('classIndex.html', {}).get('entries', []):
                if e['tag'] != 'li' or not e.get('hrefs'):
                    continue
                shown = _objs_of('classIndex.html', e['hrefs'])
                if shown and all(_priv(x) for x in shown) and 'private' not in e['class'].split():
                    fails.append({'observed': f'classIndex.html: the node of private {shown[0].fullName()} (with {len(shown) - 1} private descendants shown) has class {e["class"]!r}',
                                  'required': 'carries the private marker', 'class': 'classindex-unmarked'})
            for e in idx['pages'].get('moduleIndex.html', {}).get('entries', []):
                if e['tag'] != 'li' or not e.get('href'):
                    continue
                first = _objs_of('moduleIndex.html', [e['href']])
                if first and ('private' in e['class'].split()) != _priv(first[0]):
                    fails.append({'observed': f'moduleIndex.html: the entry of {first[0].fullName()} (private: {_priv(first[0])}) has class {e["class"]!r}',
                                  'required': 'marked private exactly when the module is private', 'class': 'moduleindex-marking'})
            # ... also in the compact form of the module index (a package with more than 50 modules): one <span> per module
            mi = os.path.join(d, 'out', 'moduleIndex.html')
            if os.path.exists(mi):
                for m_ in re.finditer(r'<span(?: class="([^"]*)")?><code><a href="([^"]+)"', open(mi, encoding='utf-8').read()):
                    first = _objs_of('moduleIndex.html', [m_.group(2)])
                    if first and ('private' in (m_.group(1) or '').split()) != _priv(first[0]):
                        fails.append({'observed': f'moduleIndex.html (compact list): the entry of {first[0].fullName()} (private: {_priv(first[0])}) has class {m_.group(1)!r}',
                                      'required': 'marked private exactly when the module is private', 'class': 'moduleindex-marking'})
            # the search document of a private object says so (the search page leaves private results out unless asked)
            for n, o in objs.items():
                if _vis(o) and n in idx['search_privacy'] and (idx['search_privacy'][n] == 'PRIVATE') != (o.privacyClass is model_privacy_private()):
                    fails.append({'observed': f'search document of {n} records privacy {idx["search_privacy"][n]}, the object is {o.privacyClass.name}',
                                  'required': 'the search document carries the private marker exactly for private objects', 'class': 'search-privacy'})
            for page, info in idx['pages'].items():
                # 'overrides' / 'overridden in' / 'known subclasses' notes list objects: none of them may be hidden
                for e in info['entries']:
                    if e.get('first_text', '').startswith(('overrides', 'Implements interfaces')) or e.get('first_text') == 'from':
                        # names the member a visible method overrides / the interfaces a visible class declares / the interface a visible
                        # method takes its docstring from: text about the visible object, as for hidden bases (a hyperlink to the hidden
                        # object would still be reported below)
                        continue
                    for t in e.get('codes', []):
                        if t in hidden:
                            fails.append({'observed': f'{page}: a note lists hidden {t}', 'required': 'hidden objects are in no listing',
                                          'class': f'hidden-note:{t}@{page}', 'hidden': t})
                for href in info['links']:
                    r = site.resolve(page, href)
                    if r is None:
                        continue
                    target, frag = r
                    full = target + ('#' + frag if frag else '')
                    if full in hidden_urls and not any(_vis(objs[m]) and urllib.parse.unquote(objs[m].url) == full for m in objs):
                        fails.append({'observed': f'{page}: hyperlink {href!r} targets hidden {hidden_urls[full]}', 'required': 'no hyperlink targets a hidden object',
                                      'class': 'hidden-link:' + hidden_urls[full] + '@' + page, 'hidden': hidden_urls[full]})
                # private marker on listing entries
                for e in info['entries']:
                    if e['href'] is None:
                        continue
                    r = site.resolve(page, e['href'])
                    if r is None:
                        continue
                    full = r[0] + ('#' + r[1] if r[1] else '')
                    for n, o in objs.items():
                        if _vis(o) and n in reach and urllib.parse.unquote(o.url) == full:
                            cls = e['class'].split()
                            kinds = {'tr': 'table row', 'li': 'list item', 'div': 'block'}
                            if o.privacyClass is model_privacy_private() and 'private' not in cls and _is_listing(e, page):
                                fails.append({'observed': f'{page}: {kinds[e["tag"]]} for private {n} has class {e["class"]!r}',
                                              'required': 'carries the private marker', 'class': 'unmarked-private:' + page.split('.')[0]})
                            if o.privacyClass is not model_privacy_private() and 'private' in cls and e['tag'] == 'tr' and not o.isPrivate:
                                fails.append({'observed': f'{page}: row for public {n} is marked private', 'required': 'not marked', 'class': 'marked-public'})
                            break
        return fails or None
    finally:
        site.cleanup(d)


def _is_displaced(name):
    """an older definition superseded by a later one of the same name: System.handleDuplicate renames it '<name> <i>'"""
    import re
    return any(re.fullmatch(r'.+ \d+', part) for part in name.split('.'))


def model_privacy_private():
    from pydoctor import model
    return model.PrivacyClass.PRIVATE


def _is_listing(e, page):
    """rows of member tables, member-detail blocks and sidebar/index items (the entries the statement names)"""
    c = e['class']
    if e['tag'] == 'tr':
        return True
    if e['tag'] == 'div':
        return 'basefunction' in c or 'baseattribute' in c or 'basemethod' in c or any(x.startswith('base') for x in c.split())
    return False


def _check12(case):
    return check_site(case, 'C12')


PG = 'pydoctor/templatewriter/pages/__init__.py'
COVERS = [f'{L}:taglink', f'{PG}:CommonPage.children', f'{PG}:CommonPage.methods', f'{PG}:PackagePage.children', f'{PG}:PackagePage.methods',
          f'{PG}:assembleList#filter', f'{PG}:assembleList', 'pydoctor/templatewriter/pages/sidebar.py:ObjContent._children',
          'pydoctor/templatewriter/pages/sidebar.py:ContentItem.class_', 'pydoctor/model.py:Module.submodules',
          'pydoctor/templatewriter/util.py:css_class', f'{W}:TemplateWriter._writeDocsForOne']

HARNESS = {
    f'{W}:TemplateWriter._writeDocsFor': {'cases': _cases, 'check': _check12,
        'covers': COVERS,
        'budget_s': {'quick': 150, 'thorough': 900},
        'bound': 'one 7-module project (hidden base of a visible class, hidden overridden member, cross-references to hidden '
                 'objects, re-export, duplicates, nested classes, sub-package) x 8 privacy rule lists + 3 theme/sidebar variants; real runs, all written files scanned'},
}
